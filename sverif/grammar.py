"""GrammarIR: scenic.gram parsed with pegen's own grammar parser (no Scenic code is executed)."""

import ast
import io
import re
import tokenize

from .model import AnalysisError, unparse

GRAM = "src/scenic/syntax/scenic.gram"


class AltInfo:
    def __init__(self, rule, alt, index, nested):
        self.rule = rule
        self.alt = alt
        self.index = index
        self.nested = nested  # inside a group / optional of the rule
        self.action_src = alt.action
        self.action = None
        self.action_error = None
        if alt.action:
            src = alt.action
            src = re.sub(r"(?<![\w.])LOCATIONS(?!\w)", "**LOCATIONS", src)
            try:
                self.action = ast.parse(src.strip(), mode="eval").body
            except SyntaxError as e:
                self.action_error = str(e)

    @property
    def text(self):
        return str(self.alt)

    def strings(self):
        """Literal tokens ('kw' or "kw") that appear in this alternative, with a flag mandatory/optional."""
        from pegen import grammar as gr

        out = []

        def visit(node, optional):
            if isinstance(node, gr.StringLeaf):
                out.append((node.value[1:-1], node.value[0], optional))
            elif isinstance(node, gr.NamedItem):
                visit(node.item, optional)
            elif isinstance(node, (gr.Opt, gr.Repeat0)):
                visit(node.node, True)
            elif isinstance(node, gr.Repeat1):
                visit(node.node, optional)
            elif isinstance(node, gr.Gather):
                visit(node.separator, True)
                visit(node.node, optional)
            elif isinstance(node, gr.Group):
                visit(node.rhs, optional)
            elif isinstance(node, gr.Rhs):
                many = len(node.alts) > 1
                for a in node.alts:
                    for it in a.items:
                        visit(it, optional or many)
            elif isinstance(node, (gr.PositiveLookahead, gr.NegativeLookahead)):
                pass
            elif isinstance(node, gr.Forced):
                visit(node.node, optional)
            elif isinstance(node, gr.Alt):
                for it in node.items:
                    visit(it, optional)

        for it in self.alt.items:
            visit(it, False)
        return out

    def rule_refs(self):
        from pegen import grammar as gr

        out = []

        def visit(node):
            if isinstance(node, gr.NameLeaf):
                out.append(node.value)
            elif isinstance(node, gr.NamedItem):
                visit(node.item)
            elif isinstance(node, (gr.Opt, gr.Repeat0, gr.Repeat1, gr.Forced)):
                visit(node.node)
            elif isinstance(node, gr.Gather):
                visit(node.separator)
                visit(node.node)
            elif isinstance(node, gr.Group):
                visit(node.rhs)
            elif isinstance(node, gr.Rhs):
                for a in node.alts:
                    for it in a.items:
                        visit(it)
            elif isinstance(node, (gr.PositiveLookahead, gr.NegativeLookahead)):
                visit(node.node)

        for it in self.alt.items:
            visit(it)
        return out


class GrammarIR:
    def __init__(self, model):
        from pegen.grammar_parser import GeneratedParser
        from pegen.tokenizer import Tokenizer

        if not model.exists(GRAM):
            raise AnalysisError(f"{GRAM} missing")
        self.src = model.read(GRAM)
        tok = Tokenizer(tokenize.generate_tokens(io.StringIO(self.src).readline))
        parser = GeneratedParser(tok)
        g = parser.start()
        if g is None:
            raise AnalysisError(f"pegen could not parse {GRAM}")
        self.grammar = g
        self.rules = g.rules
        self.metas = dict(g.metas)
        self.alts = []
        from pegen import grammar as gr

        def collect(rule, rhs, nested):
            for i, alt in enumerate(rhs.alts):
                self.alts.append(AltInfo(rule.name, alt, i, nested))
                for it in alt.items:
                    walk_item(rule, it)

        def walk_item(rule, node):
            if isinstance(node, gr.NamedItem):
                walk_item(rule, node.item)
            elif isinstance(node, (gr.Opt, gr.Repeat0, gr.Repeat1, gr.Forced, gr.PositiveLookahead, gr.NegativeLookahead)):
                walk_item(rule, node.node)
            elif isinstance(node, gr.Gather):
                walk_item(rule, node.node)
            elif isinstance(node, gr.Group):
                collect(rule, node.rhs, True)
            elif isinstance(node, gr.Rhs):
                collect(rule, node, True)

        for rule in self.rules.values():
            collect(rule, rule.rhs, False)
        self._subheader = None

    def subheader_tree(self):
        """The parser's hand-written Python helpers (grammar @subheader)."""
        if self._subheader is None:
            src = self.metas.get("subheader")
            if src is None:
                raise AnalysisError("grammar has no @subheader")
            if src.startswith(("'''", '"""')):
                src = src[3:-3]
            try:
                self._subheader = ast.parse(src)
            except SyntaxError as e:
                raise AnalysisError(f"cannot parse grammar subheader: {e}")
            for n in ast.walk(self._subheader):
                for c in ast.iter_child_nodes(n):
                    c._parent = n
            self._subheader._parent = None
        return self._subheader

    def line_of_rule(self, name):
        m = re.search(rf"^{re.escape(name)}(\[[^\]]*\])?(\s*\([^)]*\))?\s*:", self.src, re.M)
        return self.src[: m.start()].count("\n") + 1 if m else 0

    def constructor_calls(self):
        """All constructor-like calls in actions: yields (AltInfo, ast.Call, 's'|'ast', class name)."""
        for a in self.alts:
            if a.action is None:
                continue
            for n in ast.walk(a.action):
                if isinstance(n, ast.Call) and isinstance(n.func, ast.Attribute) and isinstance(n.func.value, ast.Name) and n.func.value.id in ("s", "ast"):
                    yield a, n, n.func.value.id, n.func.attr

    def nullable_rules(self):
        from pegen.parser_generator import compute_nullables

        compute_nullables(self.rules)
        return {name for name, r in self.rules.items() if r.nullable}
