"""Reference grammar: CPython 3.11's own PEG grammar (Grammar/python.gram, PSF licence, copied to /verif/ref) parsed with
pegen's grammar parser.  Scenic's grammar started as a copy of that grammar with Python instead of C actions; every rule
of the Python part that Scenic did not have to change must keep CPython's alternatives, in CPython's order (PEG choice
is ordered), and its helper calls must pass the captured pieces in the same argument positions."""

import io
import os
import re
import tokenize

from . import VERIF
from .model import AnalysisError

REF = os.path.join(VERIF, "ref", "python-3.11.gram")
TOK = {"ASYNC": "'async'", "AWAIT": "'await'"}

# Rules that exist in both grammars but legitimately differ from the 3.11 reference, with the reason (confirmed by
# reading both): Scenic follows the 3.12 grammar for f-strings and some error rules, and hooks its own constructs in.
DEVIATES = {
    "fstring": "3.12 f-string grammar (PEP 701)",
    "strings": "3.12 f-string grammar (PEP 701)",
    "atom": "3.12 f-string tokens; Scenic atoms",
    "statement": "Scenic compound statements are tried first",
    "simple_stmt": "Scenic simple statements are tried first",
    "import_stmt": "Scenic `model` / import hooks",
    "decorators": "named-expression decorators kept as in 3.12",
    "class_def_raw": "Scenic class bodies (property definitions)",
    "function_def_raw": "3.12 grammar layout",
    "for_stmt": "3.12 grammar layout (error alternatives)",
    "expression": "Scenic operators are layered between `expression` and `disjunction`",
    "inversion": "Scenic prefix / infix operators enter the precedence chain here",
    "noteq_bitwise_or": "3.12 dropped the `<>` barry_as_FLUFL alternative handling",
    "bitwise_or": "Scenic operators in the precedence chain",
    "bitwise_xor": "Scenic operators in the precedence chain",
    "bitwise_and": "Scenic operators in the precedence chain",
    "shift_expr": "Scenic operators in the precedence chain",
    "term": "Scenic operators (`deg`, vector `@`) in the precedence chain",
    "power": "Scenic operators in the precedence chain",
    "list": "3.12 grammar layout",
    "starred_expression": "3.12 grammar layout",
    "invalid_arguments": "3.12 error rules",
    "invalid_expression": "3.12 error rules",
    "invalid_parameters": "3.12 error rules",
    "invalid_lambda_parameters": "3.12 error rules",
    "invalid_with_stmt": "3.12 error rules",
    "invalid_except_stmt": "3.12 error rules",
    "invalid_match_stmt": "3.12 error rules",
    "invalid_case_block": "3.12 error rules",
    "invalid_def_raw": "3.12 error rules",
    "invalid_class_def_raw": "3.12 error rules",
    "invalid_kvpair": "3.12 error rules",
}

EMPTY = {"None", "NULL", "[]", "[ ]", "Py_None"}


def load_reference():
    from pegen.grammar_parser import GeneratedParser
    from pegen.tokenizer import Tokenizer

    if not os.path.exists(REF):
        raise AnalysisError(f"reference grammar {REF} missing")
    with open(REF, encoding="utf-8") as f:
        src = f.read()
    g = GeneratedParser(Tokenizer(tokenize.generate_tokens(io.StringIO(src).readline))).start()
    if g is None:
        raise AnalysisError("pegen could not parse the reference grammar")
    return g


def item_text(i):
    s = str(i)
    for k, v in TOK.items():
        s = re.sub(rf"\b{k}\b", v, s)
    return s


def shape(rule):
    return [" ".join(item_text(i) for i in alt.items) for alt in rule.rhs.alts]


def _split_args(s):
    out, depth, cur = [], 0, ""
    for ch in s:
        if ch in "([{":
            depth += 1
        if ch in ")]}":
            depth -= 1
        if ch == "," and depth == 0:
            out.append(cur)
            cur = ""
        else:
            cur += ch
    if cur.strip():
        out.append(cur)
    return [x.strip() for x in out]


def norm_c(action):
    """(helper name, args) of a C action that is one simple helper call, else None."""
    if not action:
        return None
    a = re.sub(r"\(\s*(asdl_\w+|\w+_ty)\s*\*?\s*\)", "", action.strip())
    # version / allocation wrappers around the helper call
    for _ in range(3):
        w = re.fullmatch(r"(CHECK_VERSION|CHECK|CHECK_NULL_ALLOWED)\s*\((.*)\)", a, re.S)
        if not w:
            break
        a = _split_args(w.group(2))[-1]
    m = re.fullmatch(r"_Py(?:Pegen|AST)_(\w+)\s*\((.*)\)", a, re.S)
    if not m:
        return None
    parts = [p for p in _split_args(m.group(2)) if p not in ("p", "EXTRA")]
    if not all(re.fullmatch(r"[A-Za-z_]\w*|NULL|\d+", p) for p in parts):
        return None
    return m.group(1).lower(), tuple("<empty>" if p in EMPTY else p for p in parts)


def norm_py(action):
    """(helper name, args) of a Python action that is one simple helper call, else None.  Keyword arguments of an
    ``ast.X(...)`` constructor are put in the order of ``ast.X._fields`` (the order of CPython's ``_PyAST_X``)."""
    import ast as _ast

    if not action:
        return None
    act = action.strip()
    for _ in range(3):
        w = re.fullmatch(r"self\s*\.\s*check_version\s*\((.*)\)", act, re.S)
        if not w:
            break
        act = _split_args(w.group(1))[-1]
    m = re.fullmatch(r"(self|ast)\s*\.\s*(\w+)\s*\((.*)\)", act, re.S)
    if not m:
        return None
    owner, name = m.group(1), m.group(2)
    parts = [p for p in _split_args(m.group(3)) if p.replace(" ", "") not in ("LOCATIONS", "**LOCATIONS")]
    kws = {}
    pos = []
    for p in parts:
        km = re.match(r"^(\w+)\s*=\s*(.*)$", p, re.S)
        if km:
            kws[km.group(1)] = km.group(2).strip()
        else:
            pos.append(p)
    if kws:
        cls = getattr(_ast, name, None) if owner == "ast" else None
        if cls is None or not getattr(cls, "_fields", None):
            return None
        fields = list(cls._fields)
        vals = list(pos) + [None] * (len(fields) - len(pos))
        for k, v in kws.items():
            if k not in fields:
                return None
            vals[fields.index(k)] = v
        while vals and vals[-1] is None:
            vals.pop()
        parts = ["None" if v is None else v for v in vals]
    else:
        parts = pos
    if not all(re.fullmatch(r"[A-Za-z_]\w*|None|\d+|\[\s*\]", p) for p in parts):
        return None
    return name.lower(), tuple("<empty>" if p in EMPTY else p for p in parts)


CONSTS = {"Py_None": "None", "Py_True": "True", "Py_False": "False", "Py_Ellipsis": "Ellipsis"}


def positions(alt, args):
    """Replace the capture variables in `args` by the index of the item of `alt` they name (the two grammars choose
    their variable names independently)."""
    names = {}
    for i, it in enumerate(alt.items):
        n = getattr(it, "name", None)
        if n:
            names[n] = i
    out = []
    for a in args:
        if a in names:
            out.append(f"#{names[a]}")
        else:
            out.append(CONSTS.get(a, a))
    return tuple(out)


def reachable_valid(rules, starts=("file", "interactive", "eval", "func_type", "fstring", "start")):
    """Rules reachable from the start rules without going through an `invalid_*` rule: the ones that build the AST of a
    valid program."""
    from pegen import grammar as gr

    def refs(node, out):
        if isinstance(node, gr.NameLeaf):
            out.add(node.value)
        for attr in ("item", "node", "rhs", "separator"):
            ch = getattr(node, attr, None)
            if ch is not None and not isinstance(ch, (str, bool)):
                refs(ch, out)
        for attr in ("alts", "items"):
            seq = getattr(node, attr, None)
            if isinstance(seq, list):
                for x in seq:
                    refs(x, out)
        return out

    seen, todo = set(), [s for s in starts if s in rules]
    while todo:
        r = todo.pop()
        if r in seen or r.startswith("invalid_"):
            continue
        seen.add(r)
        for x in refs(rules[r].rhs, set()):
            if x in rules and x not in seen:
                todo.append(x)
    return seen


def comparable(px, py):
    """Both are calls of the same helper; trailing empties are ignored (optional trailing fields)."""
    if not px or not py or px[0] != py[0]:
        return None
    a, b = list(px[1]), list(py[1])
    while a and a[-1] == "<empty>":
        a.pop()
    while b and b[-1] == "<empty>":
        b.pop()
    return tuple(a), tuple(b)
