"""Facts about src/scenic/syntax/compiler.py: which runtime calls the compiler emits (name, arity, keywords)."""

import ast

from . import lib
from .model import AnalysisError, dotted, enclosing_function, parent, qualname_of, unparse, walk_local

COMPILER = "scenic.syntax.compiler"


class Emitted:
    def __init__(self, names, npos, variable_pos, keywords, dynamic_kw, node, fn, unresolved):
        self.names = names  # possible callee names (constant strings)
        self.npos = npos
        self.variable_pos = variable_pos
        self.keywords = keywords  # set of keyword names that may be passed
        self.dynamic_kw = dynamic_kw
        self.node = node
        self.fn = fn
        self.unresolved = unresolved


def _name_ctor_id(e):
    """ast.Name(id=X, ctx=...) / ast.Name(X, loadCtx) -> X expr"""
    if isinstance(e, ast.Call) and dotted(e.func) == "ast.Name":
        v = lib.kw(e, "id")
        if v is None and e.args:
            v = e.args[0]
        return v
    return None


def emitted_calls(model):
    m = model.module(COMPILER)
    out = []
    # call-site constants for helper parameters (e.g. createRequirementLike(functionName=...))
    param_consts = {}
    for q, fn in m.functions.items():
        for c in ast.walk(fn):
            if isinstance(c, ast.Call) and isinstance(c.func, ast.Attribute) and isinstance(c.func.value, ast.Name) and c.func.value.id == "self":
                callee = None
                cls = q.rsplit(".", 1)[0] if "." in q else None
                for cq, cf in m.functions.items():
                    if cq.endswith("." + c.func.attr) and (cls is None or cq.startswith(cls.split(".")[0])):
                        callee = cf
                        break
                if callee is None:
                    continue
                params = [a.arg for a in callee.args.args][1:]
                for p, a in zip(params, c.args):
                    if isinstance(a, ast.Constant) and isinstance(a.value, str):
                        param_consts.setdefault((callee.name, p), set()).add(a.value)
                    elif isinstance(a, ast.Dict):
                        param_consts.setdefault((callee.name, p, "dictkeys"), set()).update(k.value for k in a.keys if isinstance(k, ast.Constant))
                for k in c.keywords:
                    if k.arg and isinstance(k.value, ast.Constant) and isinstance(k.value.value, str):
                        param_consts.setdefault((callee.name, k.arg), set()).add(k.value.value)
                    elif k.arg and isinstance(k.value, ast.Dict):
                        param_consts.setdefault((callee.name, k.arg, "dictkeys"), set()).update(x.value for x in k.value.keys if isinstance(x, ast.Constant))
    for q, fn in m.functions.items():
        if isinstance(parent(fn), (ast.FunctionDef, ast.AsyncFunctionDef)):
            continue
        params = {a.arg for a in fn.args.args}
        for c in ast.walk(fn):
            if not (isinstance(c, ast.Call) and dotted(c.func) == "ast.Call"):
                continue
            f = lib.kw(c, "func") or (c.args[0] if c.args else None)
            idx = _name_ctor_id(f)
            if idx is None:
                continue
            names, unresolved = set(), False
            if isinstance(idx, ast.Constant) and isinstance(idx.value, str):
                names.add(idx.value)
            elif isinstance(idx, ast.Name):
                vals = [n.value for n in walk_local(fn) if isinstance(n, ast.Assign) and any(isinstance(t, ast.Name) and t.id == idx.id for t in n.targets)]
                for v in vals:
                    if isinstance(v, ast.Constant) and isinstance(v.value, str):
                        names.add(v.value)
                    elif isinstance(v, ast.IfExp):
                        for b in (v.body, v.orelse):
                            if isinstance(b, ast.Constant) and isinstance(b.value, str):
                                names.add(b.value)
                            else:
                                unresolved = True
                    else:
                        unresolved = True
                if idx.id in params:
                    ks = param_consts.get((fn.name, idx.id))
                    if ks:
                        names |= ks
                    else:
                        unresolved = True
                if not vals and idx.id not in params:
                    unresolved = True
            else:
                unresolved = True
            a = lib.kw(c, "args") or (c.args[1] if len(c.args) > 1 else None)
            npos, variable = None, False
            if isinstance(a, ast.List):
                npos = len([x for x in a.elts if not isinstance(x, ast.Starred)])
                variable = any(isinstance(x, ast.Starred) for x in a.elts)
            else:
                variable = True
            kexpr = lib.kw(c, "keywords") or (c.args[2] if len(c.args) > 2 else None)
            kws, dyn = set(), False
            srcs = [kexpr] if kexpr is not None else []
            if isinstance(kexpr, ast.Name):
                # a locally built list
                for n in walk_local(fn):
                    if isinstance(n, ast.Assign) and any(isinstance(t, ast.Name) and t.id == kexpr.id for t in n.targets):
                        srcs.append(n.value)
                    if isinstance(n, ast.Call) and isinstance(n.func, ast.Attribute) and n.func.attr in ("append", "extend") and unparse(n.func.value) == kexpr.id:
                        srcs.extend(n.args)
            for s in srcs:
                for k in ast.walk(s):
                    if isinstance(k, ast.Call) and dotted(k.func) == "ast.keyword":
                        v = lib.kw(k, "arg") or (k.args[0] if k.args else None)
                        if isinstance(v, ast.Constant) and isinstance(v.value, str):
                            kws.add(v.value)
                        elif isinstance(v, ast.Constant) and v.value is None:
                            dyn = True  # **kwargs splat
                        elif isinstance(v, ast.Name):
                            # keys of a dict parameter
                            found = False
                            for (fname, p, *rest), vals in param_consts.items():
                                if fname == fn.name and rest == ["dictkeys"]:
                                    kws |= vals
                                    found = True
                            if not found:
                                dyn = True
                        else:
                            dyn = True
            out.append(Emitted(names, npos, variable, kws, dyn, c, fn, unresolved))
    return out


def veneer_exports(model):
    m = model.module("scenic.syntax.veneer")
    allv = None
    for s in m.tree.body:
        if isinstance(s, ast.Assign) and any(isinstance(t, ast.Name) and t.id == "__all__" for t in s.targets):
            try:
                allv = set(ast.literal_eval(s.value))
            except Exception:
                raise AnalysisError("veneer.__all__ is not a literal")
    if allv is None:
        raise AnalysisError("veneer.__all__ missing")
    return allv
