"""sverif -- repository-specific static checkers for the Scenic properties C01..C20.

Never imports or executes ``scenic``; reads /repo's current sources on every run.
"""

import os

REPO = os.environ.get("SVERIF_REPO", "/repo")
VERIF = os.path.dirname(os.path.dirname(os.path.abspath(__file__)))
