"""Findings, obligations, evidence files, known findings, exit codes."""

import json
import os
import sys
import time

from . import REPO, VERIF
from .model import AnalysisError, SrcModel, norm_text, qualname_of

KNOWN_FILE = os.path.join(VERIF, "known_findings.json")


class Finding:
    def __init__(self, prop, rule, file, line, qualname, construct, message, path=None):
        self.prop = prop
        self.rule = rule
        self.file = file
        self.line = line
        self.qualname = qualname
        self.construct = construct
        self.message = message
        self.path = path or []

    @property
    def key(self):
        return f"{self.rule}|{self.file}|{self.qualname}|{self.construct}"

    def to_json(self):
        return {
            "property": self.prop,
            "rule": self.rule,
            "file": self.file,
            "line": self.line,
            "qualname": self.qualname,
            "construct": self.construct,
            "key": self.key,
            "message": self.message,
            "path": self.path,
        }


class Ctx:
    """What a property checker gets: the model plus the obligation/finding log."""

    def __init__(self, prop, tier="quick", model=None, repo=None, overlay=None):
        self.prop = prop
        self.tier = tier
        self.repo = repo or REPO
        self.model = model or SrcModel(self.repo, overlay)
        self.findings = []
        self.obligations = []  # dicts
        self.floors = []  # (rule, count, minimum)
        self.notes = []
        self.rules = {}  # rule -> description
        self._grammar = None
        self._docs = {}
        self._seen = set()
        self.declined = []  # (rule function, reason): rules that could not recognise the shape they analyse

    def run(self, rule_fn, *args, **kwargs):
        """Run one rule.  A rule that declines (AnalysisError: the shape it analyses is not recognised, or an instance
        floor is not met) is recorded and the remaining rules of the property still run: what they find is reported, and
        the check as a whole exits 2 instead of 0 when nothing was found."""
        try:
            return rule_fn(self, *args, **kwargs)
        except AnalysisError as e:
            self.declined.append((getattr(rule_fn, "__name__", str(rule_fn)), str(e)))
            return None

    # lazy heavy parts -------------------------------------------------
    @property
    def grammar(self):
        if self._grammar is None:
            from .grammar import GrammarIR

            self._grammar = GrammarIR(self.model)
        return self._grammar

    # logging ----------------------------------------------------------
    def rule(self, rule, description):
        self.rules[rule] = description

    def ok(self, rule, node_or_file, what, qualname=None, module=None):
        file, line, q = self._loc(node_or_file, qualname, module)
        self.obligations.append(
            {"rule": rule, "file": file, "line": line, "qualname": q, "obligation": what, "verdict": "holds"}
        )

    def finding(self, rule, node_or_file, construct, message, qualname=None, module=None, path=None):
        file, line, q = self._loc(node_or_file, qualname, module)
        if not isinstance(construct, str):
            construct = norm_text(construct)
        f = Finding(self.prop, rule, file, line, q, construct, message, path)
        if f.key in self._seen:
            return f
        self._seen.add(f.key)
        self.findings.append(f)
        self.obligations.append(
            {"rule": rule, "file": file, "line": line, "qualname": q, "obligation": message, "verdict": "VIOLATED"}
        )
        return f

    def floor(self, rule, count, minimum, what=""):
        # `minimum` is the count confirmed by hand on the pinned tree.  Small populations must be found completely (a
        # vanished anchor is an analysis error, never a silent pass); large ones may shrink by a fifth before the check
        # calls itself broken, so that deleting a deprecated specifier / class / rule does not break the verifier.
        need = minimum if minimum <= 8 else -(-minimum * 4 // 5)
        self.floors.append((rule, count, need, what))
        if count < need:
            raise AnalysisError(
                f"instance floor not met for {rule}: matched {count} < {need} ({what}; {minimum} confirmed by hand)"
            )

    def note(self, text):
        self.notes.append(text)

    def _loc(self, node_or_file, qualname, module):
        if isinstance(node_or_file, str):
            return node_or_file, 0, qualname or "<file>"
        node = node_or_file
        m = module or getattr(node, "_module", None)
        file = m.path if m is not None else "?"
        return file, getattr(node, "lineno", 0), qualname or qualname_of(node)


def load_known():
    if not os.path.exists(KNOWN_FILE):
        return []
    with open(KNOWN_FILE) as f:
        return json.load(f)["findings"]


def run_property(prop, checker, tier="quick", overlay=None, repo=None, write=True, quiet=False, model=None):
    """Run one property's checker. Returns (exit_code, ctx, lines)."""
    t0 = time.time()
    lines = []
    seed = int(os.environ.get("VERIF_SEED", "0") or 0)
    ctx = None
    try:
        ctx = Ctx(prop, tier, repo=repo, overlay=overlay, model=model)
        checker(ctx)
        err = None
        if ctx.declined:
            err = "\n".join(f"ANALYSIS-ERROR property={prop} {why} [{name}]" for name, why in ctx.declined)
    except AnalysisError as e:
        err = f"ANALYSIS-ERROR property={prop} {e}"
    except Exception as e:  # never a traceback exit
        import traceback

        tb = traceback.format_exc().strip().splitlines()
        err = f"ANALYSIS-ERROR property={prop} internal {type(e).__name__}: {e} @ {tb[-3].strip() if len(tb) >= 3 else ''}"
    known = [k for k in load_known() if k.get("property") == prop and k.get("status") == "known"]
    known_keys = {k["key"]: k for k in known}
    violations, matched = [], []
    if ctx is not None:
        for f in ctx.findings:
            if f.key in known_keys:
                matched.append(f)
                lines.append(f"KNOWN-FINDING: property={prop} {known_keys[f.key]['what_fails']} [{f.key}]")
            else:
                violations.append(f)
    code = 0
    if violations:
        code = 1
        outdir = os.path.join(VERIF, "out", "violations")
        if write:
            os.makedirs(outdir, exist_ok=True)
        for i, f in enumerate(violations):
            path = os.path.join(outdir, f"{prop}-{i}.json")
            if write:
                with open(path, "w") as fp:
                    json.dump(f.to_json(), fp, indent=1)
            lines.append(f"  {f.file}:{f.line} [{f.rule}] {f.qualname}: {f.message}")
            lines.append(f"VIOLATION property={prop} replay={path}")
    if err:
        lines.append(err)
        if code == 0:
            code = 2
    wall = time.time() - t0
    if ctx is not None and write:
        write_evidence(ctx, tier, seed, wall, violations, matched, err)
    if ctx is not None:
        summary = (
            f"[{prop}] tier={tier} rules={len(ctx.rules)} obligations={len(ctx.obligations)} "
            f"violations={len(violations)} known={len(matched)} wall={wall:.2f}s"
        )
        lines.append(summary)
    if not quiet:
        for l in lines:
            print(l)
        sys.stdout.flush()
    return code, ctx, lines


def write_evidence(ctx, tier, seed, wall, violations, matched, err):
    obs = ctx.obligations
    distinct = {(o["rule"], o["file"], o["qualname"], o["obligation"]) for o in obs}
    per_rule = {}
    for o in obs:
        per_rule[o["rule"]] = per_rule.get(o["rule"], 0) + 1
    # samples: a few obligations per rule, all violated ones
    samples, seen_rule = [], {}
    for o in obs:
        n = seen_rule.get(o["rule"], 0)
        if o["verdict"] != "holds" or n < 3:
            samples.append(o)
            seen_rule[o["rule"]] = n + 1
    explanation = (
        "Static analysis of /repo's current sources (ast/symtable/pegen grammar IR; scenic is never imported). "
        "Each rule decides a structural NECESSARY condition of the property over every enumerated site; "
        "it does not decide the behaviour itself. Rules applied: "
        + " || ".join(f"{r}: {d}" for r, d in ctx.rules.items())
    )
    ev = {
        "property_id": ctx.prop,
        "tier": tier,
        "seed": seed,
        "level": "other",
        "coverage": {
            "explanation": explanation,
            "evaluations": max(len(obs), 0),
            "distinct_nontrivial": len(distinct),
            "rule": "one evaluation = one rule instance (obligation) on one construct of the current source; "
            "distinct = distinct (rule, file, qualified construct, obligation text); an obligation is non-trivial "
            "because rules only emit one where the rule's pattern matched real code (instance floors enforce non-vacuity)",
            "samples": samples[:120],
            "exhaustive": True,
            "rules": ctx.rules,
            "obligations_per_rule": per_rule,
            "instance_floors": [
                {"rule": r, "matched": c, "floor": m, "what": w} for (r, c, m, w) in ctx.floors
            ],
            "units": len(ctx.model.modules),
            "source_digest": ctx.model.digest.hexdigest()[:16],
            "known_findings_matched": [f.key for f in matched],
            "violations": [f.to_json() for f in violations],
            "notes": ctx.notes,
            "analysis_error": err,
        },
        "assumptions": [
            "CPython's ast/symtable and pegen's grammar parser are correct",
            "the frozen classification tables in the checker (each entry carries its reason)",
            "third-party semantics (trimesh, shapely, FCL, rv_ltl, SciPy, random) are as documented",
            "only structural necessary conditions are decided; numerical/distributional content is not",
        ],
        "wall_s": round(wall, 3),
        "violations": len(violations),
    }
    d = os.path.join(VERIF, "evidence")
    os.makedirs(d, exist_ok=True)
    with open(os.path.join(d, f"{ctx.prop}.json"), "w") as fp:
        json.dump(ev, fp, indent=1, sort_keys=False)
        fp.write("\n")
