"""Self-test of the checkers (filled in below): mutants must fire, refactor variants must stay silent."""


def run_selftest(prop=None, jobs=16, verbose=False):
    from .mutations import run

    return run(prop=prop, jobs=jobs, verbose=verbose)
