"""Self-test of the checkers: every mutant of the corpus must be reported (a new finding of the expected rule),
every behaviour-preserving refactor variant must stay silent.  Mutants are in-memory overlays of /repo's current files;
nothing is written to disk and nothing from the analysed repository is executed."""

import importlib
import os
import sys
import time
from concurrent.futures import ProcessPoolExecutor

from . import REPO
from .model import AnalysisError, SrcModel
from .report import Ctx


def _run_one(args):
    prop, overlay = args
    mod = importlib.import_module(f"sverif.rules.{prop.lower()}")
    try:
        ctx = Ctx(prop, "quick", overlay=overlay)
        mod.check(ctx)
        if ctx.declined and not ctx.findings:
            # nothing found and some rule could not analyse its shape: the registered check would exit 2
            return ("analysis-error", "; ".join(f"{why} [{name}]" for name, why in ctx.declined))
        return ("ok", [(f.rule, f.key, f.message) for f in ctx.findings])
    except AnalysisError as e:
        return ("analysis-error", str(e))
    except SyntaxError as e:
        return ("syntax-error", str(e))
    except Exception as e:  # pragma: no cover
        return ("internal-error", f"{type(e).__name__}: {e}")


def _apply(entry):
    rel, old, new = entry["file"], entry["old"], entry["new"]
    path = os.path.join(REPO, rel)
    if not os.path.exists(path):
        return None, "file missing"
    src = open(path, encoding="utf-8").read()
    if src.count(old) != 1:
        return None, f"anchor text occurs {src.count(old)} times"
    return {rel: src.replace(old, new)}, None


def run_selftest(prop=None, jobs=16, verbose=False):
    from .mutations import CORPUS

    entries = [e for e in CORPUS if prop is None or e["prop"] == prop]
    if not entries:
        print(f"SELFTEST property={prop} no corpus entries")
        return 0
    props = sorted({e["prop"] for e in entries})
    t0 = time.time()
    work, meta, stale = [], [], []
    for e in entries:
        overlay, why = _apply(e)
        if overlay is None:
            stale.append((e, why))
            continue
        work.append((e["prop"], overlay))
        meta.append(e)
    # generic behaviour-preserving rewrites of the whole tree (see autorefactor.py): the checkers must stay silent
    from . import autorefactor

    auto_names = sorted(autorefactor.TRANSFORMS)
    auto_overlays = {}
    for name in auto_names:
        try:
            auto_overlays[name] = autorefactor.overlay_for(name)
        except Exception as e:  # pragma: no cover
            print(f"SELFTEST-BROKEN auto-refactor {name}: {type(e).__name__}: {e}")
            auto_overlays[name] = None
    auto_work = [(p, auto_overlays[name]) for name in auto_names if auto_overlays[name] is not None for p in props]
    auto_meta = [(name, p) for name in auto_names if auto_overlays[name] is not None for p in props]
    base = {}
    with ProcessPoolExecutor(max_workers=jobs) as ex:
        bres = list(ex.map(_run_one, [(p, None) for p in props]))
        for p, r in zip(props, bres):
            base[p] = {k for (_, k, _) in r[1]} if r[0] == "ok" else set()
        results = list(ex.map(_run_one, work))
        auto_results = list(ex.map(_run_one, auto_work))
    fails = 0
    n_mut = n_ref = det = silent = shape = 0
    for e, r in zip(meta, results):
        status, data = r
        kind = e.get("kind", "mutant")
        if kind == "mutant":
            n_mut += 1
            if status == "ok":
                new = [(rule, key, msg) for (rule, key, msg) in data if key not in base[e["prop"]]]
                hit = [x for x in new if x[0].startswith(e["rule"])]
                if hit:
                    det += 1
                    if verbose:
                        print(f"  detected  {e['id']}: [{hit[0][0]}] {hit[0][2][:110]}")
                else:
                    fails += 1
                    print(f"SELFTEST-MISS property={e['prop']} mutant={e['id']} expected a new {e['rule']}* finding; got {[x[0] for x in new]}")
            elif status == "analysis-error":
                # a mutant that only makes the analysis give up is not a detection
                fails += 1
                print(f"SELFTEST-MISS property={e['prop']} mutant={e['id']} analysis error instead of a finding: {data[:120]}")
            else:
                fails += 1
                print(f"SELFTEST-BROKEN property={e['prop']} mutant={e['id']} {status}: {data[:120]}")
        else:
            n_ref += 1
            if status == "ok":
                new = [(rule, key, msg) for (rule, key, msg) in data if key not in base[e["prop"]]]
                if new:
                    fails += 1
                    print(f"SELFTEST-FALSE-ALARM property={e['prop']} refactor={e['id']} raised {new[0][0]}: {new[0][2][:120]}")
                else:
                    silent += 1
                    if verbose:
                        print(f"  silent    {e['id']}")
            elif status == "analysis-error":
                shape += 1  # allowed: the rule declines rather than guesses
                if verbose:
                    print(f"  declined  {e['id']}: {data[:100]}")
            else:
                fails += 1
                print(f"SELFTEST-BROKEN property={e['prop']} refactor={e['id']} {status}: {data[:120]}")
    n_auto = auto_silent = 0
    for (name, p), (status, data) in zip(auto_meta, auto_results):
        n_auto += 1
        if status == "ok":
            new = [(rule, key, msg) for (rule, key, msg) in data if key not in base[p]]
            if new:
                fails += 1
                print(f"SELFTEST-FALSE-ALARM property={p} auto-refactor={name} raised {new[0][0]}: {new[0][2][:140]}")
            else:
                auto_silent += 1
        else:
            # an analysis error on an equivalent program is not a false VIOLATION, but the check would be broken (exit 2)
            fails += 1
            print(f"SELFTEST-DECLINED property={p} auto-refactor={name} {status}: {data[:140]}")
    for e, why in stale:
        if verbose:
            print(f"  stale     {e['id']}: {why}")
    applicable = len(meta)
    print(
        f"SELFTEST {'all' if prop is None else prop}: mutants detected {det}/{n_mut}, refactors silent {silent}/{n_ref} "
        f"(declined with analysis-error {shape}), whole-tree rewrites ({', '.join(auto_names)}) silent {auto_silent}/{n_auto}, "
        f"stale {len(stale)}/{len(entries)}, wall {time.time() - t0:.1f}s"
    )
    global LAST_SUMMARY
    LAST_SUMMARY = {
        "mutants": n_mut,
        "mutants_detected": det,
        "refactor_variants": n_ref,
        "refactor_variants_silent": silent,
        "whole_tree_rewrites": auto_names,
        "whole_tree_rewrite_runs": n_auto,
        "whole_tree_rewrite_runs_silent": auto_silent,
        "stale": len(stale),
        "failures": fails,
    }
    if applicable < 0.5 * len(entries):
        # the tree has drifted away from the corpus: do not pretend the self-test ran
        print(f"SELFTEST-STALE more than half of the corpus no longer applies to this tree ({len(stale)}/{len(entries)})")
        return 0
    return 1 if fails else 0


LAST_SUMMARY = None
