"""Generic rule kits shared by the property checkers (G1, G2, G5, ...)."""

import ast
import builtins

from .model import (
    AnalysisError,
    ClassInfo,
    Module,
    ancestors,
    dotted,
    enclosing_class,
    enclosing_function,
    names_loaded,
    norm_text,
    parent,
    statement_of,
    qualname_of,
    unparse,
    walk_local,
)

BUILTINS = set(dir(builtins)) | {"__class__", "__file__", "__name__", "__doc__", "__builtins__", "__debug__"}


# ----------------------------------------------------------------------
# G1: names that resolve to no binding


def _targets(t, out):
    for n in ast.walk(t):
        if isinstance(n, ast.Name) and isinstance(n.ctx, (ast.Store, ast.Del)):
            out.add(n.id)


def bound_in_scope(scope):
    """Names bound directly in a function / lambda / module / class scope
    (not in nested functions; comprehension variables are NOT included)."""
    out = set()
    if isinstance(scope, (ast.FunctionDef, ast.AsyncFunctionDef, ast.Lambda)):
        a = scope.args
        for x in a.posonlyargs + a.args + a.kwonlyargs:
            out.add(x.arg)
        if a.vararg:
            out.add(a.vararg.arg)
        if a.kwarg:
            out.add(a.kwarg.arg)
    if isinstance(scope, ast.Lambda):
        body = [scope.body]
    else:
        body = scope.body

    def visit(n):
        if isinstance(n, (ast.FunctionDef, ast.AsyncFunctionDef, ast.ClassDef)):
            out.add(n.name)
            return
        if isinstance(n, ast.Lambda):
            return
        if isinstance(n, (ast.ListComp, ast.SetComp, ast.DictComp, ast.GeneratorExp)):
            # only the first iterable is evaluated in this scope; walrus targets leak
            for sub in ast.walk(n):
                if isinstance(sub, ast.NamedExpr):
                    _targets(sub.target, out)
            return
        if isinstance(n, ast.Name) and isinstance(n.ctx, (ast.Store, ast.Del)):
            out.add(n.id)
        elif isinstance(n, (ast.Import, ast.ImportFrom)):
            for al in n.names:
                out.add((al.asname or al.name).split(".")[0])
        elif isinstance(n, ast.ExceptHandler) and n.name:
            out.add(n.name)
        elif isinstance(n, (ast.Global, ast.Nonlocal)):
            out.update(n.names)
        elif isinstance(n, ast.MatchAs) and n.name:
            out.add(n.name)
        elif isinstance(n, ast.MatchStar) and n.name:
            out.add(n.name)
        elif isinstance(n, ast.MatchMapping) and n.rest:
            out.add(n.rest)
        for c in ast.iter_child_nodes(n):
            visit(c)

    for s in body:
        visit(s)
    return out


def module_names(model, module):
    names = set(module.defs) | set(module.imports) | set(bound_in_scope(module.tree))
    for star in module.star_imports:
        if model.has_module(star):
            sm = model.module(star)
            allv = None
            for s in sm.tree.body:
                if isinstance(s, ast.Assign) and any(
                    isinstance(t, ast.Name) and t.id == "__all__" for t in s.targets
                ):
                    try:
                        allv = set(ast.literal_eval(s.value))
                    except Exception:
                        allv = None
            names |= allv if allv is not None else module_names(model, sm)
        else:
            names.add("*external-star*")
    return names


def unresolved_names(model, fn):
    """Name loads inside fn (incl. nested lambdas/comprehensions/defs) that are bound nowhere."""
    module = fn._module
    modnames = module_names(model, module)
    if "*external-star*" in modnames:
        return []
    outer = []
    for a in ancestors(fn):
        if isinstance(a, (ast.FunctionDef, ast.AsyncFunctionDef, ast.Lambda)):
            outer.append(bound_in_scope(a))
        elif isinstance(a, ast.ClassDef) and parent(fn) is a:
            pass  # class scope is not visible from methods
    # comprehension scopes between fn and enclosing function are impossible for defs
    out = []

    def visit(n, scopes):
        if isinstance(n, (ast.FunctionDef, ast.AsyncFunctionDef)):
            for d in n.decorator_list:
                visit(d, scopes)
            for d in n.args.defaults + [x for x in n.args.kw_defaults if x is not None]:
                visit(d, scopes)
            inner = scopes + [bound_in_scope(n)]
            for s in n.body:
                visit(s, inner)
            return
        if isinstance(n, ast.Lambda):
            for d in n.args.defaults + [x for x in n.args.kw_defaults if x is not None]:
                visit(d, scopes)
            visit(n.body, scopes + [bound_in_scope(n)])
            return
        if isinstance(n, ast.ClassDef):
            inner = scopes + [bound_in_scope(n)]
            for s in n.body:
                if isinstance(s, (ast.FunctionDef, ast.AsyncFunctionDef)):
                    visit(s, scopes)  # methods do not see the class scope
                else:
                    visit(s, inner)
            return
        if isinstance(n, (ast.ListComp, ast.SetComp, ast.DictComp, ast.GeneratorExp)):
            bound = set()
            cur = scopes
            first = True
            for g in n.generators:
                visit(g.iter, cur if first else scopes + [bound])
                first = False
                _targets(g.target, bound)
                for cond in g.ifs:
                    visit(cond, scopes + [bound])
            inner = scopes + [bound]
            if isinstance(n, ast.DictComp):
                visit(n.key, inner)
                visit(n.value, inner)
            else:
                visit(n.elt, inner)
            return
        if isinstance(n, ast.Name) and isinstance(n.ctx, ast.Load):
            nm = n.id
            if not any(nm in s for s in scopes) and nm not in modnames and nm not in BUILTINS:
                out.append(n)
            return
        for c in ast.iter_child_nodes(n):
            visit(c, scopes)

    base_scopes = list(reversed(outer)) + [bound_in_scope(fn)]
    body = [fn.body] if isinstance(fn, ast.Lambda) else fn.body
    for s in body:
        visit(s, base_scopes)
    return out


def check_unresolved(ctx, rule, fn, why):
    bad = unresolved_names(ctx.model, fn)
    for n in bad:
        ctx.finding(
            rule,
            n,
            f"name {n.id}",
            f"name '{n.id}' is read but bound in no enclosing scope, module or builtins ({why}); "
            f"reaching this expression raises NameError",
        )
    if not bad:
        ctx.ok(rule, fn, "every name read resolves to a binding")
    return bad


# ----------------------------------------------------------------------
# G1b: self.<attr> defined nowhere


def unknown_self_attrs(model, ci, fn):
    if model.has_external_base(ci):
        return []
    for c in model.mro(ci):
        if "__getattr__" in c.methods or "__getattribute__" in c.methods:
            return []
    if not fn.args.args:
        return []
    if any(dotted(d) in ("staticmethod",) for d in fn.decorator_list):
        return []
    selfname = fn.args.args[0].arg
    known = set(model.instance_attrs(ci))
    if "*dynamic*" in known:
        return []
    for sub in model.subclasses(ci):
        known |= model.instance_attrs(sub)
    known |= {"__class__", "__dict__", "__name__", "__doc__", "__module__"}
    out = []
    for n in ast.walk(fn):
        if (
            isinstance(n, ast.Attribute)
            and isinstance(n.ctx, ast.Load)
            and isinstance(n.value, ast.Name)
            and n.value.id == selfname
            and n.attr not in known
            and not (n.attr.startswith("__") and n.attr.endswith("__"))
        ):
            # hasattr guard?
            guarded = False
            for a in ancestors(n):
                if isinstance(a, (ast.If, ast.IfExp)) and f"hasattr({selfname}, '{n.attr}')" in unparse(a.test):
                    guarded = True
            if not guarded:
                out.append(n)
    return out


# ----------------------------------------------------------------------
# G2: call binding against a def


def signature(fn, bound=False):
    a = fn.args
    pos = [x.arg for x in a.posonlyargs + a.args]
    npos_only = len(a.posonlyargs)
    if bound and pos:
        pos = pos[1:]
        npos_only = max(0, npos_only - 1)
    ndefaults = len(a.defaults)
    required = pos[: len(pos) - ndefaults] if ndefaults else list(pos)
    kwonly = [x.arg for x in a.kwonlyargs]
    kwreq = [x.arg for x, d in zip(a.kwonlyargs, a.kw_defaults) if d is None]
    return {
        "pos": pos,
        "posonly": pos[:npos_only],
        "required": required,
        "kwonly": kwonly,
        "kwreq": kwreq,
        "vararg": a.vararg is not None,
        "kwarg": a.kwarg is not None,
    }


def bind_error(call, fn, bound=False, extra_pos=0, supplied=()):
    """Why the call cannot bind to fn's signature, or None.  Starred args => only keyword names checked."""
    sig = signature(fn, bound)
    star = any(isinstance(x, ast.Starred) for x in call.args)
    dstar = any(k.arg is None for k in call.keywords)
    npos = len([x for x in call.args if not isinstance(x, ast.Starred)]) + extra_pos
    if not sig["vararg"] and npos > len(sig["pos"]):
        return f"{npos} positional arguments for {len(sig['pos'])} positional parameters {sig['pos']}"
    taken = set(sig["pos"][:npos]) if not star else set()
    for k in call.keywords:
        if k.arg is None:
            continue
        if k.arg in sig["posonly"]:
            return f"keyword '{k.arg}' names a positional-only parameter"
        if k.arg not in sig["pos"] and k.arg not in sig["kwonly"] and not sig["kwarg"]:
            return f"unexpected keyword '{k.arg}' (parameters: {sig['pos'] + sig['kwonly']})"
        if k.arg in taken:
            return f"parameter '{k.arg}' given positionally and by keyword"
        taken.add(k.arg)
    if not star and not dstar:
        missing = [p for p in sig["required"] if p not in taken and p not in supplied] + [
            p for p in sig["kwreq"] if p not in taken and p not in supplied
        ]
        if missing:
            return f"missing required argument(s) {missing}"
    return None


def decorated_opaque(fn):
    """Decorators that may change the signature (anything but the known transparent ones)."""
    transparent = {
        "staticmethod",
        "classmethod",
        "property",
        "cached_property",
        "cached_method",
        "cached",
        "functools.wraps",
        "functools.lru_cache",
        "lru_cache",
        "functools.cached_property",
        "abc.abstractmethod",
        "abstractmethod",
        "distributionMethod",
        "distributionFunction",
        "vectorOperator",
        "vectorDistributionMethod",
        "scalarOperator",
        "typing.overload",
    }
    for d in fn.decorator_list:
        name = dotted(d.func if isinstance(d, ast.Call) else d)
        if name is None or name not in transparent:
            if name and name.endswith((".setter", ".getter", ".deleter")):
                continue
            return True
    return False


# ----------------------------------------------------------------------
# G5: one-shot iterator reuse

ONE_SHOT = {"filter", "map", "zip", "iter", "reversed", "enumerate"}


def one_shot_reuse(fn):
    """Yield (name, binding stmt, uses) for names bound to a one-shot iterator and
    consumed more than once, or consumed inside a loop that does not rebind them."""
    results = []
    bindings = {}
    for n in walk_local(fn):
        if isinstance(n, ast.Assign) and len(n.targets) == 1 and isinstance(n.targets[0], ast.Name):
            v = n.value
            one = False
            if isinstance(v, ast.GeneratorExp):
                one = True
            elif isinstance(v, ast.Call):
                cn = dotted(v.func)
                if cn in ONE_SHOT or (cn and cn.startswith("itertools.") and cn != "itertools.tee"):
                    one = True
            bindings.setdefault(n.targets[0].id, []).append((n, one))
    for name, defs in bindings.items():
        if not all(one for _, one in defs):
            continue
        if len(defs) != 1:
            continue
        bind = defs[0][0]
        uses = [
            n
            for n in walk_local(fn)
            if isinstance(n, ast.Name) and n.id == name and isinstance(n.ctx, ast.Load)
        ]
        uses.sort(key=lambda n: (n.lineno, n.col_offset))
        in_loop = []
        for u in uses:
            for a in ancestors(u):
                if a is fn:
                    break
                if isinstance(a, (ast.For, ast.While, ast.ListComp, ast.SetComp, ast.DictComp, ast.GeneratorExp)):
                    # loop must not contain the binding itself
                    if not any(x is bind for x in ast.walk(a)):
                        # the iterable position of the loop itself is evaluated once
                        if isinstance(a, ast.For) and any(x is u for x in ast.walk(a.iter)):
                            continue
                        if not isinstance(a, (ast.For, ast.While)):
                            first = a.generators[0].iter
                            if any(x is u for x in ast.walk(first)):
                                continue
                        in_loop.append(u)
                        break
        # uses on mutually exclusive branches count once: conservative approach -> count uses
        # that are not in different branches of the same If
        if len(uses) > 1:
            excl = _mutually_exclusive(uses)
            if not excl:
                results.append((name, bind, uses, "consumed at more than one program point"))
                continue
        if in_loop:
            results.append((name, bind, in_loop, "consumed inside a loop that does not rebuild it"))
    return results


def _branch_path(n):
    path = []
    child = n
    for a in ancestors(n):
        if isinstance(a, ast.If):
            if any(child is s for s in a.body):
                path.append((id(a), "body"))
            elif any(child is s for s in a.orelse):
                path.append((id(a), "orelse"))
        child = a
    return path


def _mutually_exclusive(uses):
    paths = [dict(_branch_path(u)) for u in uses]
    for i in range(len(paths)):
        for j in range(i + 1, len(paths)):
            common = set(paths[i]) & set(paths[j])
            if not any(paths[i][k] != paths[j][k] for k in common):
                return False
    return True


# ----------------------------------------------------------------------
# misc helpers


def returns_of(fn):
    return [n for n in walk_local(fn) if isinstance(n, ast.Return)]


def calls_in(node, name=None):
    out = []
    for n in ast.walk(node):
        if isinstance(n, ast.Call):
            if name is None or dotted(n.func) == name or (
                isinstance(n.func, ast.Attribute) and n.func.attr == name
            ) or (isinstance(n.func, ast.Name) and n.func.id == name):
                out.append(n)
    return out


def kw(call, name):
    """The argument bound to parameter `name`: given by keyword, or (after normalisation N2, which makes leading keywords
    positional) at the position every repository definition of the callee gives that parameter."""
    for k in call.keywords:
        if k.arg == name:
            return k.value
    from .model import param_position

    i = param_position(call, name)
    if i is not None and i < len(call.args) and not any(isinstance(a, ast.Starred) for a in call.args[: i + 1]):
        return call.args[i]
    return None


def const(node):
    return node.value if isinstance(node, ast.Constant) else None


def enclosing_tests(node, stop=None):
    """Tests of the If/IfExp/While ancestors of node, with polarity:
    list of (test expr, True if node is in the body / False if in orelse)."""
    out = []
    child = node
    for a in ancestors(node):
        if a is stop:
            break
        if isinstance(a, (ast.If, ast.While)):
            if any(child is s for s in a.body):
                out.append((a.test, True))
            elif any(child is s for s in a.orelse):
                out.append((a.test, False))
        elif isinstance(a, ast.IfExp):
            if child is a.body:
                out.append((a.test, True))
            elif child is a.orelse:
                out.append((a.test, False))
        child = a
    return out


def flatten_conditions(conds):
    """[(test, polarity)] with negations folded into the polarity and conjunctions split: (`not X`, p) is (X, not p),
    (`A and B`, True) is (A, True), (B, True), (`A or B`, False) is (A, False), (B, False); a chained comparison that holds
    is split into its links."""
    out = []
    todo = list(conds)
    while todo:
        t, p = todo.pop(0)
        if isinstance(t, ast.UnaryOp) and isinstance(t.op, ast.Not):
            todo.insert(0, (t.operand, not p))
        elif isinstance(t, ast.BoolOp) and ((isinstance(t.op, ast.And) and p) or (isinstance(t.op, ast.Or) and not p)):
            todo[0:0] = [(v, p) for v in t.values]
        elif isinstance(t, ast.Compare) and len(t.ops) > 1 and p:
            # a chained comparison that holds: every link holds
            links, left = [], t.left
            for op, right in zip(t.ops, t.comparators):
                links.append((ast.copy_location(ast.Compare(left=left, ops=[op], comparators=[right]), t), True))
                left = right
            todo[0:0] = links
        else:
            out.append((t, p))
    return out


_COMPLEMENT = {ast.Eq: ast.NotEq, ast.NotEq: ast.Eq, ast.Is: ast.IsNot, ast.IsNot: ast.Is, ast.In: ast.NotIn, ast.NotIn: ast.In, ast.Lt: ast.GtE, ast.GtE: ast.Lt, ast.Gt: ast.LtE, ast.LtE: ast.Gt}


def holds(conds, *texts):
    """True when the conditions [(test, polarity)] (flattened here) contain one of the facts `texts` (source text of an
    expression): as a true atom, or as a false atom of the complementary comparison (`a != b` false is `a == b`; `a < b`
    false is `a >= b`, for the totally ordered values the rules apply this to).  A fact `not X` is X as a false atom."""
    atoms = flatten_conditions(conds)
    have = set()
    for t, p in atoms:
        have.add((ctext(t), p))
        if isinstance(t, ast.Compare) and len(t.ops) == 1 and type(t.ops[0]) in _COMPLEMENT:
            comp = ast.Compare(left=t.left, ops=[_COMPLEMENT[type(t.ops[0])]()], comparators=t.comparators)
            have.add((ctext(comp), not p))
    for text in texts:
        want = flatten_conditions([(ast.parse(text.strip(), mode="eval").body, True)])
        if all((ctext(t), p) in have for t, p in want):
            return True
    return False


def guard_tests(node, stop=None):
    """[(test, polarity)] that hold when `node` is reached: the tests of the enclosing If/IfExp/While (True in the body,
    False in the orelse) and, negated, the tests of earlier sibling ifs whose bodies always exit -- so the early-exit
    style, the if/else style and a test written the other way round give the same conditions."""
    fn = stop
    if fn is None:
        fn = next((a for a in ancestors(node) if isinstance(a, (ast.FunctionDef, ast.AsyncFunctionDef, ast.Lambda))), None)
    out = list(enclosing_tests(node, stop))
    try:
        st = node if isinstance(node, ast.stmt) else statement_of(node)
    except Exception:
        st = None
    if st is not None and fn is not None and not isinstance(fn, ast.Lambda):
        for t in prior_exit_guards(st, fn):
            out.append((t, False))
    return out


def path_conditions(node, fn):
    """guard_tests up to fn (kept for its callers)."""
    return guard_tests(node, fn)


def prior_exit_guards(stmt, fn):
    """Tests T of earlier siblings `if T: return/raise/continue/break` (at any enclosing block level,
    up to fn): on reaching stmt, `not T` holds.  Returns list of test exprs."""
    out = []
    child = stmt
    for a in [*ancestors(stmt)]:
        for field in ("body", "orelse", "finalbody"):
            seq = getattr(a, field, None)
            if isinstance(seq, list) and any(child is s for s in seq):
                for s in seq:
                    if s is child:
                        break
                    cur = s
                    while isinstance(cur, ast.If) and _always_exits(cur.body):
                        out.append(cur.test)
                        if len(cur.orelse) == 1 and isinstance(cur.orelse[0], ast.If):
                            cur = cur.orelse[0]
                        else:
                            break
        if a is fn:
            break
        child = a
    return out


def _always_exits(body):
    if not body:
        return False
    last = body[-1]
    if isinstance(last, (ast.Return, ast.Raise, ast.Continue, ast.Break)):
        return True
    if isinstance(last, ast.If) and last.orelse:
        return _always_exits(last.body) and _always_exits(last.orelse)
    return False


# ----------------------------------------------------------------------
# three-valued evaluation of guard expressions under assumed atoms

U = None  # unknown


def tri_eval(expr, env, subst=None):
    """Evaluate a boolean expression with atoms given by *text* in env (True/False);
    everything else is unknown (None).  `subst` maps variable names to placeholder text
    so that `req.active` and `r.active` compare equal (`$.active`)."""

    def text(e):
        t = unparse(e)
        return t

    def canon(e):
        if subst:
            e2 = _Rename(subst).visit(ast.parse(unparse(e), mode="eval").body)
            return unparse(e2)
        return unparse(e)

    def ev(e):
        c = canon(e)
        if c in env:
            return env[c]
        if isinstance(e, ast.Constant):
            return bool(e.value)
        if isinstance(e, ast.BoolOp):
            vals = [ev(v) for v in e.values]
            if isinstance(e.op, ast.And):
                if any(v is False for v in vals):
                    return False
                if all(v is True for v in vals):
                    return True
                return U
            else:
                if any(v is True for v in vals):
                    return True
                if all(v is False for v in vals):
                    return False
                return U
        if isinstance(e, ast.UnaryOp) and isinstance(e.op, ast.Not):
            v = ev(e.operand)
            return U if v is U else (not v)
        if isinstance(e, ast.IfExp):
            t = ev(e.test)
            if t is True:
                return ev(e.body)
            if t is False:
                return ev(e.orelse)
            a, b = ev(e.body), ev(e.orelse)
            return a if a == b else U
        return U

    return ev(expr)


class _Rename(ast.NodeTransformer):
    def __init__(self, subst):
        self.subst = subst

    def visit_Name(self, node):
        if node.id in self.subst:
            return ast.Name(id=self.subst[node.id], ctx=node.ctx)
        return node


def local_value(fn, name, before=None):
    """The unique expression assigned to local `name` in fn (None if not unique)."""
    vals = []
    for n in walk_local(fn):
        if isinstance(n, ast.Assign):
            for t in n.targets:
                if isinstance(t, ast.Name) and t.id == name:
                    vals.append(n.value)
                elif isinstance(t, (ast.Tuple, ast.List)):
                    # a, b = x, y  binds element-wise; any other unpacking makes the value unknown
                    for i, e in enumerate(t.elts):
                        if isinstance(e, ast.Name) and e.id == name:
                            if isinstance(n.value, (ast.Tuple, ast.List)) and len(n.value.elts) == len(t.elts) and not any(isinstance(x, ast.Starred) for x in n.value.elts):
                                vals.append(n.value.elts[i])
                            else:
                                vals.append(None)
        elif isinstance(n, (ast.AugAssign, ast.AnnAssign)) and isinstance(n.target, ast.Name) and n.target.id == name:
            vals.append(getattr(n, "value", None))
    return vals[0] if len(vals) == 1 else None


def iter_source(fn, expr, depth=0):
    """Decompose an iterable expression into (source expr, element var name, [filter tests]).
    Understands names with a unique local definition, generator expressions / list comps with
    one generator whose element is the loop variable, filter(lambda x: T, S), tuple()/list()/sorted()."""
    if depth > 6:
        return expr, None, []
    if isinstance(expr, ast.Name):
        v = local_value(fn, expr.id)
        if v is not None:
            return iter_source(fn, v, depth + 1)
        return expr, None, []
    if isinstance(expr, (ast.GeneratorExp, ast.ListComp, ast.SetComp)) and len(expr.generators) == 1:
        g = expr.generators[0]
        if isinstance(g.target, ast.Name) and isinstance(expr.elt, ast.Name) and expr.elt.id == g.target.id:
            src, var, tests = iter_source(fn, g.iter, depth + 1)
            mine = list(g.ifs)
            if var and var != g.target.id:
                tests = [_Rename({var: g.target.id}).visit(ast.parse(unparse(t), mode="eval").body) for t in tests]
            return src, g.target.id, tests + mine
        return expr, None, []
    if isinstance(expr, ast.Call):
        cn = dotted(expr.func)
        if cn == "filter" and len(expr.args) == 2 and isinstance(expr.args[0], ast.Lambda):
            lam = expr.args[0]
            v = lam.args.args[0].arg
            src, var, tests = iter_source(fn, expr.args[1], depth + 1)
            if var and var != v:
                tests = [_Rename({var: v}).visit(ast.parse(unparse(t), mode="eval").body) for t in tests]
            return src, v, tests + [lam.body]
        if cn in ("tuple", "list", "sorted", "reversed") and expr.args:
            return iter_source(fn, expr.args[0], depth + 1)
    return expr, None, []


def local_value_in(node, name):
    """The unique expression assigned to `name` inside node (None if not unique)."""
    if name is None:
        return None
    vals = []
    for n in ast.walk(node):
        if isinstance(n, ast.Assign):
            for t in n.targets:
                if isinstance(t, ast.Name) and t.id == name:
                    vals.append(n.value)
    return vals[0] if len(vals) == 1 else None


# ----------------------------------------------------------------------
# constructor facts: which fields are dependencies, which field stores which parameter


def init_facts(model, ci):
    """For class ci (own __init__ only): returns dict with
    params: ordered parameter names (without self)
    stores: {param -> set(field)}  fields assigned directly from the parameter (self.f = p, possibly re-bound p)
    field_of: {field -> expr source}
    deps: list of (kind, text) for arguments handed to super().__init__: kind in {'field','param','star-field','star-param','other'}
    """
    fn = ci.methods.get("__init__")
    if fn is None:
        return None
    params = [a.arg for a in fn.args.args[1:]] + [a.arg for a in fn.args.kwonlyargs]
    stores, field_of = {}, {}
    for n in walk_local(fn):
        if isinstance(n, ast.Assign):
            tgts = []
            for t in n.targets:
                if isinstance(t, ast.Tuple) and isinstance(n.value, ast.Tuple) and len(t.elts) == len(n.value.elts):
                    tgts.extend(zip(t.elts, n.value.elts))
                else:
                    tgts.append((t, n.value))
            for t, v in tgts:
                if isinstance(t, ast.Attribute) and isinstance(t.value, ast.Name) and t.value.id == "self":
                    field_of.setdefault(t.attr, []).append(v)
                    for p in names_in(v):
                        if p in params:
                            stores.setdefault(p, set()).add(t.attr)
    deps = []
    for c in ast.walk(fn):
        if (
            isinstance(c, ast.Call)
            and isinstance(c.func, ast.Attribute)
            and c.func.attr == "__init__"
            and isinstance(c.func.value, ast.Call)
            and dotted(c.func.value.func) == "super"
        ):
            for a in c.args:
                star = isinstance(a, ast.Starred)
                e = a.value if star else a
                if isinstance(e, ast.Attribute) and isinstance(e.value, ast.Name) and e.value.id == "self":
                    deps.append(("star-field" if star else "field", e.attr))
                elif isinstance(e, ast.Name):
                    deps.append(("star-param" if star else "param", e.id))
                else:
                    deps.append(("other", unparse(e)))
    return {"params": params, "stores": stores, "field_of": field_of, "deps": deps, "fn": fn}


def names_in(node):
    return {n.id for n in ast.walk(node) if isinstance(n, ast.Name)}


def enclosing_handler(node):
    for a in ancestors(node):
        if isinstance(a, ast.ExceptHandler):
            return a
        if isinstance(a, (ast.FunctionDef, ast.AsyncFunctionDef, ast.Lambda)):
            return None
    return None


# ---------------------------------------------------------------------------------------------------------------------
# Rename- and direction-insensitive matching.  Rules must not depend on what a maintainer may change without changing
# behaviour: the name of a local variable, or whether a comparison is written `a >= b` or `b <= a`.
# ---------------------------------------------------------------------------------------------------------------------

_FLIP = {ast.Gt: ast.Lt, ast.GtE: ast.LtE}


def _norm_expected(node):
    from .model import _positionalise, SIGS

    return _positionalise(node, SIGS)


def _clone(node):
    """A private copy of an AST fragment.  (copy.deepcopy would follow the `_parent` / `_module` links the model adds and
    copy the whole module.)"""
    text = ast.unparse(node)
    if isinstance(node, ast.expr):
        return ast.parse(text, mode="eval").body
    body = ast.parse(text).body
    return body[0] if len(body) == 1 else ast.Module(body=body, type_ignores=[])


class _CanonCmp(ast.NodeTransformer):
    """`a > b` -> `b < a`, `a >= b` -> `b <= a`, `not a == b` stays; `a != b` stays (symmetric ones are sorted by text)."""

    def visit_Compare(self, node):
        self.generic_visit(node)
        if len(node.ops) != 1:
            return node
        op = node.ops[0]
        l, r = node.left, node.comparators[0]
        if type(op) in _FLIP:
            return ast.copy_location(ast.Compare(left=r, ops=[_FLIP[type(op)]()], comparators=[l]), node)
        if isinstance(op, (ast.Eq, ast.NotEq)) and ast.unparse(l) > ast.unparse(r):
            return ast.copy_location(ast.Compare(left=r, ops=[op], comparators=[l]), node)
        return node


def ctext(node):
    """Canonical text of an expression/statement: comparisons are printed in the `<` / `<=` direction."""
    return ast.unparse(_CanonCmp().visit(_clone(node)))


def ctext_of(text):
    """Canonical text of a source fragment given as text (an expression or a statement)."""
    tree = _norm_expected(ast.parse(text.strip()))
    n = tree.body[0]
    if isinstance(n, ast.Expr):
        n = n.value
    return ctext(n)


def cmp_parts(node):
    """(left text, op class, right text) of a single comparison in canonical (`<`, `<=`) direction, else None."""
    if isinstance(node, ast.Compare) and len(node.ops) == 1:
        op = node.ops[0]
        l, r = node.left, node.comparators[0]
        if type(op) in _FLIP:
            return ast.unparse(r), _FLIP[type(op)], ast.unparse(l)
        return ast.unparse(l), type(op), ast.unparse(r)
    return None


def locals_assigned(fn, pred):
    """Names of local variables of fn that some assignment binds to a value satisfying pred(value) (nested functions
    excluded; tuple targets are matched element-wise when the value is a tuple of the same length)."""
    out = []
    for n in walk_local(fn):
        pairs = []
        if isinstance(n, ast.Assign):
            for t in n.targets:
                pairs.append((t, n.value))
        elif isinstance(n, ast.AnnAssign) and n.value is not None:
            pairs.append((n.target, n.value))
        elif isinstance(n, ast.NamedExpr):
            pairs.append((n.target, n.value))
        for t, v in pairs:
            if isinstance(t, ast.Name):
                if pred(v) and t.id not in out:
                    out.append(t.id)
            elif isinstance(t, (ast.Tuple, ast.List)) and isinstance(v, (ast.Tuple, ast.List)) and len(t.elts) == len(v.elts):
                for te, ve in zip(t.elts, v.elts):
                    if isinstance(te, ast.Name) and pred(ve) and te.id not in out:
                        out.append(te.id)
    return out


def local_from(fn, text, required=True, what=None):
    """The local variable of fn assigned from the expression whose text is `text` (e.g. "self.scheduleForAgents()").
    Rename-insensitive replacement for hard-coding the variable's name in a rule."""
    from .model import AnalysisError

    names = locals_assigned(fn, lambda v: ast.unparse(v) == text)
    if len(names) == 1:
        return names[0]
    if not names and not required:
        return None
    raise AnalysisError(f"shape not recognised: {what or 'local assigned from'} `{text}` in {qualname_of(fn)} ({len(names)} candidates)")


def subst_names(node, mapping):
    """Text of `node` with local names replaced according to mapping {actual name: role name}."""
    import copy

    class R(ast.NodeTransformer):
        def visit_Name(self, n):
            if n.id in mapping:
                return ast.copy_location(ast.Name(id=mapping[n.id], ctx=n.ctx), n)
            return n

    return ast.unparse(R().visit(_clone(node)))


def _with_value(fn, name):
    """The context expression bound to `name` by a unique `with E as name` in fn (and no other binding)."""
    vals = []
    for n in walk_local(fn):
        if isinstance(n, (ast.With, ast.AsyncWith)):
            for it in n.items:
                if isinstance(it.optional_vars, ast.Name) and it.optional_vars.id == name:
                    vals.append(it.context_expr)
        elif isinstance(n, ast.Name) and isinstance(n.ctx, ast.Store) and n.id == name:
            p = parent(n)
            if not isinstance(p, ast.withitem):
                return None
    return vals[0] if len(vals) == 1 else None


def with_vars(fn, pred):
    """Names bound by `with E as name` in fn where pred(E)."""
    out = []
    for n in walk_local(fn):
        if isinstance(n, (ast.With, ast.AsyncWith)):
            for it in n.items:
                if isinstance(it.optional_vars, ast.Name) and pred(it.context_expr):
                    out.append(it.optional_vars.id)
    return out


def consuming_calls(fn, node, depth=3):
    """The calls that receive the value of expression `node` of function `fn` as an argument: its parent call, or -- when
    the value is first bound to a local with that single definition -- the calls that take that local."""
    p = parent(node)
    if isinstance(p, ast.Call) and any(a is node for a in p.args):
        return [p]
    if isinstance(p, ast.keyword):
        pp = parent(p)
        return [pp] if isinstance(pp, ast.Call) else []
    if depth > 0 and isinstance(p, ast.Assign) and len(p.targets) == 1 and isinstance(p.targets[0], ast.Name) and p.value is node:
        name = p.targets[0].id
        if local_value(fn, name) is not node:
            return []
        out = []
        for u in walk_local(fn):
            if isinstance(u, ast.Name) and u.id == name and isinstance(u.ctx, ast.Load):
                out.extend(consuming_calls(fn, u, depth - 1))
        return out
    return []


def role_expr(fn, expr):
    """`expr` of function `fn` as an AST with every single-definition local replaced by its definition (see role_text)."""
    return ast.parse(role_text(fn, expr), mode="eval").body


def role_text(fn, expr, depth=6, params_as=None):
    """Text of `expr` (an expression of function `fn`) that does not depend on the names of locals: every local of `fn`
    with a single definition is replaced by its definition (recursively), and the variables bound by comprehensions /
    lambdas are renamed `_c1, _c2, ...` in order of appearance.  Comparisons are printed in the `<` direction.
    `expr` may also be source text (then only the normalisations apply)."""
    import copy

    if isinstance(expr, str):
        node = _norm_expected(ast.parse(expr.strip(), mode="eval")).body
        fn = None
    else:
        node = _clone(expr)

    def bound_in_comps(n):
        out = set()
        for c in ast.walk(n):
            if isinstance(c, (ast.ListComp, ast.SetComp, ast.GeneratorExp, ast.DictComp)):
                for g in c.generators:
                    out |= {x.id for x in ast.walk(g.target) if isinstance(x, ast.Name)}
            elif isinstance(c, ast.Lambda):
                out |= {a.arg for a in c.args.args}
        return out

    params = set()
    if fn is not None and hasattr(fn, "args"):
        a_ = fn.args
        params = {x.arg for x in a_.posonlyargs + a_.args + a_.kwonlyargs} | ({a_.vararg.arg} if a_.vararg else set()) | ({a_.kwarg.arg} if a_.kwarg else set())

    def inline(n, d, stack):
        if fn is None or d <= 0:
            return n
        shadow = bound_in_comps(n) | params  # a re-assigned parameter also has its incoming value: never inline it

        class T(ast.NodeTransformer):
            def visit_Name(self, x):
                if isinstance(x.ctx, ast.Load) and x.id not in shadow and x.id not in stack:
                    v = local_value(fn, x.id)
                    if v is None:
                        v = _with_value(fn, x.id)
                    if v is not None and not isinstance(v, (ast.Lambda,)):
                        return inline(_clone(v), d - 1, stack | {x.id})
                return x

        return T().visit(n)

    node = inline(node, depth, frozenset())
    counter = [0]

    def norm(n, env):
        """rename comprehension / lambda variables; env: {old: new}"""
        if isinstance(n, (ast.ListComp, ast.SetComp, ast.GeneratorExp, ast.DictComp)):
            env = dict(env)
            for g in n.generators:
                g.iter = norm(g.iter, env)
                for x in ast.walk(g.target):
                    if isinstance(x, ast.Name):
                        counter[0] += 1
                        env[x.id] = f"_c{counter[0]}"
                g.target = norm(g.target, env)
                g.ifs = [norm(t, env) for t in g.ifs]
            if isinstance(n, ast.DictComp):
                n.key, n.value = norm(n.key, env), norm(n.value, env)
            else:
                n.elt = norm(n.elt, env)
            return n
        if isinstance(n, ast.Lambda):
            env = dict(env)
            for a in n.args.args:
                counter[0] += 1
                env[a.arg] = f"_c{counter[0]}"
                a.arg = env[a.arg]
            n.body = norm(n.body, env)
            return n
        if isinstance(n, ast.Name):
            if n.id in env:
                n.id = env[n.id]
            return n
        for field, val in ast.iter_fields(n):
            if isinstance(val, list):
                setattr(n, field, [norm(v, env) if isinstance(v, ast.AST) else v for v in val])
            elif isinstance(val, ast.AST):
                setattr(n, field, norm(val, env))
        return n

    node = norm(node, {})
    ast.fix_missing_locations(node)
    return ctext(node)


# ---------------------------------------------------------------------------------------------------------------------
# Boolean functions over opaque atoms: the truth table of a function's result, independent of how it is written
# (early returns, nested ifs, and/or/not, conditional expressions, temporaries).
# ---------------------------------------------------------------------------------------------------------------------


def _bool_atoms(e, out):
    if isinstance(e, ast.BoolOp):
        for v in e.values:
            _bool_atoms(v, out)
    elif isinstance(e, ast.UnaryOp) and isinstance(e.op, ast.Not):
        _bool_atoms(e.operand, out)
    elif isinstance(e, ast.IfExp):
        _bool_atoms(e.test, out)
        _bool_atoms(e.body, out)
        _bool_atoms(e.orelse, out)
    elif isinstance(e, ast.Constant) and isinstance(e.value, bool):
        pass
    else:
        out.add(ast.unparse(e))
    return out


def _bool_eval(e, asg):
    if isinstance(e, ast.BoolOp):
        vals = [_bool_eval(v, asg) for v in e.values]
        return all(vals) if isinstance(e.op, ast.And) else any(vals)
    if isinstance(e, ast.UnaryOp) and isinstance(e.op, ast.Not):
        return not _bool_eval(e.operand, asg)
    if isinstance(e, ast.IfExp):
        return _bool_eval(e.body, asg) if _bool_eval(e.test, asg) else _bool_eval(e.orelse, asg)
    if isinstance(e, ast.Constant) and isinstance(e.value, bool):
        return e.value
    return asg[ast.unparse(e)]


def bool_table(fn_or_text, max_atoms=8):
    """(sorted atoms, {tuple of atom values: result}) of a boolean-valued function (or of a formula given as text).
    Atoms are the maximal non-boolean sub-expressions, printed as role texts.  'raise' paths give the result "raise"."""
    import itertools

    if isinstance(fn_or_text, str):
        root = ast.parse(role_text(None, fn_or_text), mode="eval").body
        stmts = [ast.Return(value=root)]
        rt = lambda e: e
    else:
        fn = fn_or_text
        stmts = [s for s in fn.body if not (isinstance(s, ast.Expr) and isinstance(s.value, ast.Constant))]
        rt = lambda e: ast.parse(role_text(fn, e), mode="eval").body

    cache = {}

    def R(e):
        k = id(e)
        if k not in cache:
            cache[k] = rt(e)
        return cache[k]

    atoms = set()

    def collect(body):
        for s in body:
            if isinstance(s, ast.If):
                _bool_atoms(R(s.test), atoms)
                collect(s.body)
                collect(s.orelse)
            elif isinstance(s, ast.Return):
                if s.value is not None:
                    _bool_atoms(R(s.value), atoms)
            elif isinstance(s, (ast.Assign, ast.AnnAssign, ast.Pass, ast.Raise, ast.Assert, ast.Import, ast.ImportFrom)):
                continue
            elif isinstance(s, ast.Expr):
                continue
            else:
                raise AnalysisError(f"shape not recognised: `{norm_text(s, 50)}` in a boolean function")

    collect(stmts)
    atoms = sorted(atoms)
    if len(atoms) > max_atoms:
        raise AnalysisError(f"shape not recognised: {len(atoms)} atoms in a boolean function")

    def run(body, asg):
        for s in body:
            if isinstance(s, ast.If):
                r = run(s.body if _bool_eval(R(s.test), asg) else s.orelse, asg)
                if r is not None:
                    return r
            elif isinstance(s, ast.Return):
                return ("v", _bool_eval(R(s.value), asg)) if s.value is not None else ("v", None)
            elif isinstance(s, ast.Raise):
                return ("raise", None)
        return None

    table = {}
    for vals in itertools.product((False, True), repeat=len(atoms)):
        asg = dict(zip(atoms, vals))
        r = run(stmts, asg)
        table[vals] = "fallthrough" if r is None else ("raise" if r[0] == "raise" else r[1])
    return atoms, table


# ---------------------------------------------------------------------------------------------------------------------
# Path enumeration of a loop-free function body with case splitting on undecided tests.
# ---------------------------------------------------------------------------------------------------------------------


def assumption_atoms(asm):
    """The assumptions {test text: bool} of a path as [(atom expr, polarity)] with negations folded and conjunctions
    (true) / disjunctions (false) split."""
    return flatten_conditions([(ast.parse(k, mode="eval").body, v) for k, v in asm.items()])


TRACE = "<trace>"  # key of env under which enumerate_paths records the statements executed on the path, in order


def enumerate_paths(fn, decide=None, max_paths=256):
    """Yield (assumptions, env, exit) for every path through fn's body, where assumptions is {test text: bool} for the
    tests that had to be split, env is {local: value expr at the exit} and exit is the Return / Raise node (None when
    the body falls off its end).  `decide(test, env, assumptions)` may return True / False to prune; None splits.
    env[TRACE] is the tuple of non-if statements executed on the path, in order (loops and withs as single entries,
    the with body inlined after its entry).
    Statement kinds other than If / Assign / AugAssign / Return / Raise / Assert / Expr / Pass / Import decline."""
    out = []

    def default_decide(test, env, asm):
        key = unparse(test)
        if key in asm:
            return asm[key]
        if isinstance(test, ast.UnaryOp) and isinstance(test.op, ast.Not):
            v = dec(test.operand, env, asm)
            return None if v is None else (not v)
        # `x is None` / `x is not None` on a local with a known value
        if isinstance(test, ast.Compare) and len(test.ops) == 1 and isinstance(test.ops[0], (ast.Is, ast.IsNot)) and isinstance(test.left, ast.Name) and isinstance(test.comparators[0], ast.Constant) and test.comparators[0].value is None:
            if test.left.id in env:
                v = env[test.left.id]
                isnone = isinstance(v, ast.Constant) and v.value is None
                known = isinstance(v, (ast.Constant, ast.Name, ast.UnaryOp, ast.BinOp, ast.Attribute))
                if known:
                    return isnone if isinstance(test.ops[0], ast.Is) else (not isnone)
        return None

    def dec(test, env, asm):
        if decide is not None:
            v = decide(test, env, asm)
            if v is not None:
                return v
        return default_decide(test, env, asm)

    def assign(name, value, env, asm, cont):
        # split conditional expressions
        if isinstance(value, ast.IfExp):
            v = dec(value.test, env, asm)
            for branch, val in ((True, value.body), (False, value.orelse)):
                if v is None or v is branch:
                    a2 = dict(asm)
                    if v is None:
                        a2[unparse(value.test)] = branch
                    assign(name, val, dict(env), a2, cont)
            return
        env = dict(env)
        env[name] = value
        cont(env, asm)

    def run(stmts, env, asm, k):
        """execute stmts then call k(env, asm) if control falls through"""
        if len(out) > max_paths:
            raise AnalysisError(f"shape not recognised: too many paths in {qualname_of(fn)}")
        if not stmts:
            return k(env, asm)
        s, rest = stmts[0], stmts[1:]
        if not isinstance(s, ast.If):
            env = dict(env)
            env[TRACE] = env.get(TRACE, ()) + (s,)
        if isinstance(s, ast.If):
            v = dec(s.test, env, asm)
            for branch, body in ((True, s.body), (False, s.orelse)):
                if v is None or v is branch:
                    a2 = dict(asm)
                    if v is None:
                        a2[unparse(s.test)] = branch
                    run(list(body), dict(env), a2, lambda e, a: run(rest, e, a, k))
            return
        if isinstance(s, ast.Return):
            out.append((dict(asm), dict(env), s))
            return
        if isinstance(s, ast.Raise):
            out.append((dict(asm), dict(env), s))
            return
        if isinstance(s, ast.Assign) and len(s.targets) == 1 and isinstance(s.targets[0], ast.Name):
            return assign(s.targets[0].id, s.value, env, asm, lambda e, a: run(rest, e, a, k))
        if isinstance(s, ast.Assign) and len(s.targets) == 1 and isinstance(s.targets[0], ast.Tuple) and isinstance(s.value, ast.Tuple) and len(s.value.elts) == len(s.targets[0].elts):
            env = dict(env)
            for t, v in zip(s.targets[0].elts, s.value.elts):
                if isinstance(t, ast.Name):
                    env[t.id] = v
            return run(rest, env, asm, k)
        if isinstance(s, (ast.Assign, ast.AugAssign, ast.AnnAssign)):
            env = dict(env)
            for t in ast.walk(s.targets[0] if isinstance(s, ast.Assign) else s.target):
                if isinstance(t, ast.Name):
                    env[t.id] = ast.Name(id=f"<{t.id}@{s.lineno}>", ctx=ast.Load())  # opaque
            return run(rest, env, asm, k)
        if isinstance(s, (ast.Expr, ast.Pass, ast.Assert, ast.Import, ast.ImportFrom, ast.Global, ast.Nonlocal, ast.FunctionDef)):
            return run(rest, env, asm, k)
        if isinstance(s, (ast.For, ast.While)):
            # a loop is opaque: whatever it assigns is unknown afterwards; returns inside it are recorded as exits
            env = dict(env)
            for x in ast.walk(s):
                if isinstance(x, ast.Name) and isinstance(x.ctx, ast.Store):
                    env[x.id] = ast.Name(id=f"<{x.id}@loop{s.lineno}>", ctx=ast.Load())
            for x in ast.walk(s):
                if isinstance(x, (ast.Return, ast.Raise)):
                    out.append((dict(asm), dict(env), x))
            return run(rest, env, asm, k)
        if isinstance(s, ast.With):
            env = dict(env)
            for it in s.items:
                if isinstance(it.optional_vars, ast.Name):
                    env[it.optional_vars.id] = it.context_expr
            return run(list(s.body) + rest, env, asm, k)
        if isinstance(s, ast.Try):
            # the normal path: body, else, finally; and one path per handler, entered after an unknown prefix of the body
            # (whatever the body assigns is unknown there; the Try node itself stands in the trace for that prefix)
            run(list(s.body) + list(s.orelse) + list(s.finalbody) + rest, env, asm, k)
            for h in s.handlers:
                e2 = dict(env)
                for x in ast.walk(ast.Module(body=list(s.body), type_ignores=[])):
                    if isinstance(x, ast.Name) and isinstance(x.ctx, ast.Store):
                        e2[x.id] = ast.Name(id=f"<{x.id}@try{s.lineno}>", ctx=ast.Load())
                if h.name:
                    e2[h.name] = ast.Name(id=f"<{h.name}@except{h.lineno}>", ctx=ast.Load())
                run(list(h.body) + list(s.finalbody) + rest, e2, asm, k)
            return
        raise AnalysisError(f"shape not recognised: `{norm_text(s, 50)}` in {qualname_of(fn)} (path enumeration handles if / loops / with / try)")

    run(list(fn.body), {}, {}, lambda e, a: out.append((dict(a), dict(e), None)))
    return out


# ---------------------------------------------------------------------------------------------------------------------
# Inert statements: what a maintainer adds for logging / documentation without changing behaviour.
# ---------------------------------------------------------------------------------------------------------------------

INERT_CALLS = ("print", "verbosePrint", "warnings.warn", "logging.", "logger.", "log.")


def is_inert(stmt):
    if isinstance(stmt, ast.Pass):
        return True
    if isinstance(stmt, ast.Expr):
        v = stmt.value
        if isinstance(v, ast.Constant):
            return True
        if isinstance(v, ast.Call):
            if isinstance(v.func, ast.Lambda) and isinstance(v.func.body, ast.Constant):
                return True
            cn = dotted(v.func) or ""
            return cn == "print" or cn == "verbosePrint" or cn.startswith(INERT_CALLS[2:])
    return False


def core(body):
    """The statements of a block without the inert ones (log lines, docstrings, pass)."""
    return [s for s in body if not is_inert(s)]
