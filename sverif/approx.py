"""Approximation-kind abstract domain for geometric shortcuts (G11).

A scalar is classified by provenance (never by the name of a local variable):
  OVER(o)   upper bound on the extent of operand o around a reference point
  UNDER(o)  lower bound on the extent of operand o around a reference point
  DIST      distance between two reference points
and a guard is classified by what it proves:
  DISJOINT       over-approximations of the two operands do not meet
  OVERLAP        under-approximations (or exact surfaces) of the two operands meet
  CONTAINS       an under-approximation of self contains an over-approximation of the other operand
  NOT_CONTAINS   a point / vertex of the other operand lies outside an over-approximation of self
"""

import ast

from . import lib, samplable
from .model import AnalysisError, dotted, norm_text, parent, unparse, walk_local

# Frozen attribute classification (reason per entry).
ATTR_KIND = {
    "_circumradius": ("OVER", "max vertex norm of the centred mesh / shape's precomputed circumradius"),
    "circumradius": ("OVER", "max distance of a vertex from the reference point"),
    "radius": ("OVER", "object's bounding-sphere radius (hypot of half extents)"),
    "inradius": ("UNDER", "distance from the interior point to the surface"),
    "planarInradius": ("UNDER", "inradius of the bounding polygon"),
}
TUPLE_PROPS = {"_interiorPointRadii"}  # classified by analysing the property's own return tuple


class Q:
    def __init__(self, kind, owners=frozenset(), why="", anchor=frozenset(), attained=False):
        """anchor: the reference point(s) the quantity is measured from/between ('center', 'interior', 'point:<expr>');
        attained: an upper bound that is the distance of an actual point of the operand (so exceeding it proves something
        about the operand itself, not only about a hull of it)."""
        self.kind, self.owners, self.why = kind, frozenset(owners), why
        self.anchor, self.attained = frozenset(anchor), attained

    def __repr__(self):
        return f"{self.kind}({','.join(sorted(self.owners))})"


# Frozen: what each radius attribute is measured from.
ATTR_ANCHOR = {"_circumradius": "center", "circumradius": "center", "radius": "center", "inradius": "center", "planarInradius": "center"}


def owners_of(e, roles):
    out = set()
    for n in ast.walk(e):
        if isinstance(n, ast.Name) and n.id in roles:
            out.add(roles[n.id])
    return out


class Classifier:
    def __init__(self, model, ci, fn, roles):
        """roles: {variable name: 'self' | 'other'} for the two operands."""
        self.model, self.ci, self.fn, self.roles = model, ci, fn, dict(roles)
        self.env = {}
        self.tuple_env = {}  # name -> (expr, index)
        for n in walk_local(fn):
            if isinstance(n, ast.Assign) and len(n.targets) == 1:
                t, v = n.targets[0], n.value
                if isinstance(t, ast.Name):
                    self.env.setdefault(t.id, []).append(v)
                elif isinstance(t, ast.Tuple):
                    for i, x in enumerate(t.elts):
                        if isinstance(x, ast.Name):
                            if isinstance(v, ast.Tuple) and len(v.elts) == len(t.elts):
                                self.env.setdefault(x.id, []).append(v.elts[i])
                            else:
                                self.tuple_env.setdefault(x.id, []).append((v, i))
            elif isinstance(n, ast.NamedExpr) and isinstance(n.target, ast.Name):
                self.env.setdefault(n.target.id, []).append(n.value)
        # role propagation: x = self.foo / other.bar keep the operand's role for point-like locals
        for _ in range(3):
            for name, vals in self.env.items():
                if name in self.roles or len(vals) != 1:
                    continue
                ow = owners_of(vals[0], self.roles)
                if len(ow) == 1:
                    self.roles[name] = next(iter(ow))

    at = None  # line of the use being classified (nearest preceding definition is taken)

    def _one(self, table, name):
        vals = table.get(name, [])
        if len(vals) == 1:
            return vals[0]
        if len(vals) > 1 and self.at is not None:
            prev = [v for v in vals if getattr(v[0] if isinstance(v, tuple) else v, "lineno", 0) <= self.at]
            if prev:
                return max(prev, key=lambda v: getattr(v[0] if isinstance(v, tuple) else v, "lineno", 0))
        return None

    # -- scalar quantities ------------------------------------------------
    def scalar(self, e, depth=0):
        if depth > 8:
            return Q("UNK")
        if isinstance(e, ast.Name):
            v = self._one(self.env, e.id)
            if v is not None:
                return self.scalar(v, depth + 1)
            vi = self._one(self.tuple_env, e.id)
            if vi is not None:
                return self.tuple_elem(vi[0], vi[1], depth + 1)
            return Q("UNK")
        if isinstance(e, ast.Attribute):
            if e.attr in ATTR_KIND:
                return Q(ATTR_KIND[e.attr][0], owners_of(e, self.roles), ATTR_KIND[e.attr][1], anchor={ATTR_ANCHOR[e.attr]})
            return Q("UNK")
        if isinstance(e, ast.BinOp) and isinstance(e.op, ast.Add):
            a, b = self.scalar(e.left, depth + 1), self.scalar(e.right, depth + 1)
            if a.kind == b.kind and a.kind in ("OVER", "UNDER"):
                return Q(a.kind, a.owners | b.owners, anchor=a.anchor | b.anchor)
            if {a.kind, b.kind} <= {"OVER", "UNDER"}:
                return Q("MIXED", a.owners | b.owners, "sum of an upper and a lower bound: bounds nothing")
            return Q("UNK")
        if isinstance(e, ast.Call):
            cn = dotted(e.func)
            if cn in ("numpy.linalg.norm", "np.linalg.norm") and e.args:
                a = self._deref(e.args[0])
                if lib.kw(e, "axis") is None and isinstance(a, ast.BinOp) and isinstance(a.op, ast.Sub):
                    return Q("DIST", owners_of(a, self.roles), "norm of a difference of two reference points", anchor={self.anchor_of(a.left), self.anchor_of(a.right)})
            if cn in ("numpy.max", "np.max", "max") and e.args:
                a = self._deref(e.args[0])
                if isinstance(a, ast.Call) and dotted(a.func) in ("numpy.linalg.norm", "np.linalg.norm") and a.args:
                    inner = self._deref(a.args[0])
                    if isinstance(inner, ast.BinOp) and isinstance(inner.op, ast.Sub) and "vertices" in unparse(inner.left):
                        src = unparse(inner.left)
                        # vertices of the operand's own mesh are points of the operand; corners of its bounding box are not
                        own = ("boundingBox" not in src and "bounding_box" not in src and "convex_hull" not in src and "Hull" not in src) and (".occupiedSpace.mesh.vertices" in src or src.endswith(".mesh.vertices"))
                        return Q("OVER", owners_of(inner.left, self.roles), "max distance of the operand's vertices from the reference point", anchor={"point:" + self._resolved_text(inner.right)}, attained=own)
                    if "vertices" in unparse(inner):
                        return Q("OVER", owners_of(inner, self.roles), "max vertex norm", anchor={"center"})
            if cn == "abs" and e.args:
                a = self._deref(e.args[0])
                if "signed_distance" in unparse(a):
                    # distance from a point to the surface the ProximityQuery was built on
                    pq = self._pq_owner(a)
                    pt = [c.args[0] for c in ast.walk(a) if isinstance(c, ast.Call) and isinstance(c.func, ast.Attribute) and c.func.attr == "signed_distance" and c.args]
                    return Q("UNDER", pq, "distance from the reference point to the operand's surface", anchor={self.anchor_of(pt[0])} if pt else ())
        return Q("UNK")

    def _deref(self, e, depth=0):
        """A local with a single definition stands for that definition (an extracted argument is the argument)."""
        while isinstance(e, ast.Name) and depth < 6:
            v = self._one(self.env, e.id)
            if v is None:
                break
            e, depth = v, depth + 1
        return e

    def _resolved_text(self, e, depth=0):
        if isinstance(e, ast.Name) and len(self.env.get(e.id, [])) > 1:
            return e.id
        if isinstance(e, ast.Name) and depth < 4:
            v = self._one(self.env, e.id)
            if v is not None and isinstance(v, (ast.Name, ast.Attribute)):
                return self._resolved_text(v, depth + 1)
        return unparse(e)

    def anchor_of(self, e, depth=0):
        """'interior' / 'center' / 'point:<text>' for a reference-point expression (locals are followed)."""
        if depth > 5:
            return "point:?"
        if isinstance(e, ast.Name):
            if len(self.env.get(e.id, [])) > 1:
                return "point:" + e.id  # chosen among several candidates: the local itself names the point
            v = self._one(self.env, e.id)
            if v is not None:
                return self.anchor_of(v, depth + 1)
            return "point:" + e.id
        if isinstance(e, (ast.List, ast.Tuple)) and len(e.elts) == 1:
            return self.anchor_of(e.elts[0], depth + 1)
        t = unparse(e)
        if "_interiorPoint" in t and "Radii" not in t:
            return "interior"
        if isinstance(e, ast.Attribute) and e.attr in ("position", "center", "centroid", "center_mass"):
            return "center"
        return "point:" + t

    def _pq_owner(self, e):
        for n in ast.walk(e):
            if isinstance(n, ast.Call) and isinstance(n.func, ast.Attribute) and n.func.attr == "signed_distance":
                recv = n.func.value
                if isinstance(recv, ast.Name) and recv.id in self.env:
                    return owners_of(self._one(self.env, recv.id) or self.env[recv.id][-1], self.roles)
                return owners_of(recv, self.roles)
        return set()

    def tuple_elem(self, v, i, depth):
        """i-th element of a tuple-valued expression (a property returning a tuple)."""
        if isinstance(v, ast.Attribute) and v.attr in TUPLE_PROPS:
            owner = owners_of(v, self.roles)
            # analyse the property in the operand's class family: every implementation must agree
            kinds = set()
            for ci in self.model.classes.values():
                f = ci.methods.get(v.attr)
                if f is None or not ci.module.path.startswith("src/scenic/core/"):
                    continue
                sub = Classifier(self.model, ci, f, {"self": "self"})
                for r in lib.returns_of(f):
                    if isinstance(r.value, ast.Tuple) and len(r.value.elts) > i:
                        kinds.add(sub.scalar(r.value.elts[i], depth + 1).kind)
                    elif isinstance(r.value, ast.Attribute) and r.value.attr == v.attr:
                        continue  # delegation to the precomputed shape's same property
                    else:
                        kinds.add("UNK")
            if len(kinds) == 1:
                return Q(next(iter(kinds)), owner, f"element {i} of {v.attr}", anchor={"interior"} if "interiorPoint" in v.attr else ())
        return Q("UNK")

    # -- guards -----------------------------------------------------------
    def guard(self, test, polarity):
        """What does `test` (taken with polarity) prove?  Returns (label, explanation)."""
        e = test
        neg = not polarity
        while isinstance(e, ast.UnaryOp) and isinstance(e.op, ast.Not):
            e, neg = e.operand, not neg
        if isinstance(e, ast.Name) and self._one(self.env, e.id) is not None:
            v = self._one(self.env, e.id)
            lab = self.bool_value(v)
            if lab:
                return self._signed(lab, neg)
            if isinstance(v, (ast.Compare, ast.BoolOp, ast.UnaryOp, ast.Call)):
                return self.guard(v, not neg)
        if isinstance(e, ast.Compare) and len(e.ops) == 1:
            op = e.ops[0]
            l, r = e.left, e.comparators[0]
            if isinstance(op, (ast.Lt, ast.LtE)):
                big, small = r, l
            elif isinstance(op, (ast.Gt, ast.GtE)):
                big, small = l, r
            else:
                return ("NOTHING", f"`{unparse(e)}` is not an order comparison")
            if neg:
                big, small = small, big  # not (a > b)  ==  b >= a
            qb, qs = self.scalar(big), self.scalar(small)
            # a magnitude (abs / norm / radius) is never below a negated tolerance or a negative constant: such a test cannot fire
            if qs.kind in ("UNDER", "OVER", "DIST") and isinstance(big, ast.UnaryOp) and isinstance(big.op, ast.USub) and (isinstance(big.operand, ast.Attribute) or (isinstance(big.operand, ast.Constant) and isinstance(big.operand.value, (int, float)))):
                return ("NOTHING", f"`{unparse(e)}` asks whether a non-negative magnitude is below `{unparse(big)}`: it never is, so this test proves nothing (and never fires)")
            if qb.kind == "UNK" or qs.kind == "UNK":
                return ("UNKNOWN", f"`{unparse(e)}`: cannot classify {unparse(big) if qb.kind == 'UNK' else unparse(small)}")
            if (qb.kind == "DIST" and qs.kind == "OVER") or (qb.kind == "UNDER" and qs.kind == "DIST"):
                d, rad = (qb, qs) if qb.kind == "DIST" else (qs, qb)
                if len(d.anchor) != 1 or d.anchor != rad.anchor:
                    return (
                        "NOTHING",
                        f"`{unparse(e)}` compares a distance between {sorted(d.anchor) or '?'} points with radii measured from {sorted(rad.anchor) or '?'}: "
                        f"a radius bounds the operand only around the point it was computed from",
                    )
            if qb.kind == "DIST" and qs.kind == "OVER":
                return ("DISJOINT", f"distance > over-approximate radii {qs}")
            if qb.kind == "UNDER" and qs.kind == "DIST":
                return ("OVERLAP", f"distance < under-approximate radii {qb}")
            if qb.kind == "UNDER" and qs.kind == "OVER" and qb.owners == {"self"} and qs.owners == {"other"}:
                if qb.anchor and qs.anchor and qb.anchor != qs.anchor:
                    return (
                        "NOTHING",
                        f"`{unparse(e)}`: the distance to self's surface is measured from {sorted(qb.anchor)} but the other operand's radius from {sorted(qs.anchor)}: "
                        f"a ball around one point says nothing about a ball around another",
                    )
                return ("CONTAINS", "under-approximation of self > over-approximation of the other operand")
            if qb.kind == "OVER" and qs.kind == "OVER" and qb.owners == {"other"} and qs.owners == {"self"}:
                if not qb.attained:
                    return ("NOTHING", f"`{unparse(e)}`: the larger quantity is the extent of a hull of the other operand (e.g. its bounding box), not of one of its points; exceeding self's circumradius does not show that the operand sticks out")
                if qb.anchor != qs.anchor:
                    return ("NOTHING", f"`{unparse(e)}`: the two extents are measured from different points ({sorted(qb.anchor)} vs {sorted(qs.anchor)})")
                return ("NOT_CONTAINS", "a vertex of the other operand lies beyond self's circumradius around the same point")
            return ("NOTHING", f"`{unparse(e)}` compares {qb} > {qs}: proves neither disjointness nor overlap/containment")
        lab = self.bool_value(e)
        if lab:
            return self._signed(lab, neg)
        return ("UNKNOWN", f"`{unparse(test)}` not understood")

    def _signed(self, lab, neg):
        pos, negl, why = lab
        return (negl if neg else pos, why)

    def bool_value(self, v):
        """(label if true, label if false, why) for recognised boolean computations."""
        t = unparse(v)
        if isinstance(v, ast.Call):
            cn = dotted(v.func) or ""
            if cn == "all" and v.args:
                a = v.args[0]
                a = self._one(self.env, a.id) if isinstance(a, ast.Name) and self._one(self.env, a.id) is not None else a
                if isinstance(a, (ast.GeneratorExp, ast.ListComp)) and "bounds" in unparse(a.elt) and isinstance(a.elt, ast.BoolOp) and isinstance(a.elt.op, ast.And):
                    # overlap of axis-aligned bounding boxes in every dimension
                    if self._bbox_overlap(a):
                        return ("NOTHING", "DISJOINT", "axis-aligned bounding boxes (over-approximations) overlap in all dimensions")
            if cn in ("fcl.collide",) or cn.endswith("in_collision_internal"):
                return ("OVERLAP", "NOTHING", "exact surface collision")
            if cn in ("numpy.all", "np.all") and v.args:
                a = v.args[0]
                strict_pos = None  # `X > 0` or `0 < X`
                if isinstance(a, ast.Compare) and len(a.ops) == 1:
                    if isinstance(a.ops[0], ast.Gt) and lib.const(a.comparators[0]) == 0:
                        strict_pos = a.left
                    elif isinstance(a.ops[0], ast.Lt) and lib.const(a.left) == 0:
                        strict_pos = a.comparators[0]
                if strict_pos is not None:
                    src = strict_pos
                    if isinstance(src, ast.Name) and self._one(self.env, src.id) is not None:
                        src = self._one(self.env, src.id)
                    st = unparse(src)
                    if "signed_distance" in st and "boundingBox" in st and self._pq_owner(src) == {"self"}:
                        return ("CONTAINS_IF_CONVEX", "NOTHING", "all corners of the other operand's bounding box are inside self")
            if isinstance(v.func, ast.Attribute) and v.func.attr == "containsPoint" and v.args:
                recv_owner = owners_of(v.func.value, self.roles)
                pt_owner = self.point_owner(v.args[0])
                if recv_owner == {"self"} and pt_owner == {"other"}:
                    return ("NOTHING", "NOT_CONTAINS", "a point of the other operand is outside self")
            if isinstance(v.func, ast.Attribute) and v.func.attr == "contains" and v.args:
                # shapely: self.polygons.contains(X)
                recv_owner = owners_of(v.func.value, self.roles)
                arg = v.args[0]
                if isinstance(arg, ast.Name) and self._one(self.env, arg.id) is not None:
                    arg = self._one(self.env, arg.id)
                if recv_owner == {"self"} and "_boundingPolygonHull" in unparse(arg):
                    return ("CONTAINS", "NOTHING", "self contains the convex hull (over-approximation) of the other operand's footprint")
        return None

    def _bbox_overlap(self, comp):
        e = comp.elt
        if len(e.values) != 2:
            return False
        oks = 0
        for c in e.values:
            if isinstance(c, ast.Compare) and len(c.ops) == 1 and isinstance(c.ops[0], (ast.LtE, ast.Lt, ast.GtE, ast.Gt)):
                lo, hi = c.left, c.comparators[0]
                if isinstance(c.ops[0], (ast.GtE, ast.Gt)):
                    lo, hi = hi, lo
                l, r = unparse(lo), unparse(hi)
                # lower bound of one <= upper bound of the other
                if "[0" in l and "[1" in r and owners_of(lo, self.roles) != owners_of(hi, self.roles):
                    oks += 1
        return oks == 2

    def point_owner(self, e, depth=0):
        if depth > 6:
            return set()
        if isinstance(e, ast.Name):
            vals = self.env.get(e.id, [])
            if self.at is not None:
                vals = [v for v in vals if getattr(v, "lineno", 0) <= self.at]
            out = set()
            for v in vals:
                if isinstance(v, ast.Constant) and v.value is None:
                    continue
                out |= self.point_owner(v, depth + 1)
            return out
        if isinstance(e, ast.Call) and dotted(e.func) == "Vector":
            return set().union(*[self.point_owner(a.value if isinstance(a, ast.Starred) else a, depth + 1) for a in e.args]) if e.args else set()
        if isinstance(e, ast.Subscript):
            return self.point_owner(e.value, depth + 1)
        if isinstance(e, ast.Call) and "sample" in (dotted(e.func) or "") and e.args:
            return owners_of(e.args[0], self.roles)
        return owners_of(e, self.roles)
