"""Seeded changes (/verif/seeded/<id>/): realistic property-breaking edits written by independent agents.

Each directory holds ``patch.diff`` (against /repo), a dynamic demonstration (kept for the record, never run by a
check) and ``meta.json``.  Here the patch is turned into an in-memory overlay of /repo's *current* files (the touched
files are copied to a temporary directory outside /repo and /verif, ``git apply`` runs there, the results are read
back and the directory is removed), and the property checkers are run on that overlay.  Nothing in /repo is modified
and nothing from the analysed repository is executed.
"""

import importlib
import json
import os
import re
import shutil
import subprocess
import tempfile
import time
from concurrent.futures import ProcessPoolExecutor

from . import REPO, VERIF

SEEDED = os.path.join(VERIF, "seeded")
ALL_PROPS = [f"C{i:02d}" for i in range(1, 21)]


def touched_files(patch_text):
    files = []
    for m in re.finditer(r"^\+\+\+ b/(\S+)", patch_text, re.M):
        files.append(m.group(1))
    for m in re.finditer(r"^--- a/(\S+)", patch_text, re.M):
        if m.group(1) not in files:
            files.append(m.group(1))
    return files


def overlay_of(patch_path, repo=None):
    """Return ({relpath: new source}, None) or (None, reason) if the patch no longer applies."""
    repo = repo or REPO
    text = open(patch_path, encoding="utf-8").read()
    files = touched_files(text)
    if not files:
        return None, "patch touches no file"
    tmp = tempfile.mkdtemp(prefix="sverif-seed-")
    try:
        for rel in files:
            src = os.path.join(repo, rel)
            dst = os.path.join(tmp, rel)
            os.makedirs(os.path.dirname(dst), exist_ok=True)
            if os.path.exists(src):
                shutil.copyfile(src, dst)
        env = {**os.environ, "GIT_DIR": os.path.join(tmp, ".nogit"), "GIT_CEILING_DIRECTORIES": tmp}
        r = None
        # exact context first; then with less context (the surrounding lines may have changed since the patch was made)
        for extra in ([], ["-C1"], ["-C0", "--unidiff-zero"]):
            r = subprocess.run(["git", "apply", "--unsafe-paths", *extra, os.path.abspath(patch_path)], cwd=tmp, capture_output=True, text=True, env=env)
            if r.returncode == 0:
                break
        if r.returncode != 0:
            return None, "patch does not apply: " + (r.stderr.strip().splitlines() or ["?"])[-1][:160]
        out = {}
        for rel in files:
            p = os.path.join(tmp, rel)
            if os.path.exists(p):
                out[rel] = open(p, encoding="utf-8").read()
        return out, None
    finally:
        shutil.rmtree(tmp, ignore_errors=True)


def entries(prop=None):
    out = []
    if not os.path.isdir(SEEDED):
        return out
    for name in sorted(os.listdir(SEEDED)):
        d = os.path.join(SEEDED, name)
        mp = os.path.join(d, "meta.json")
        pp = os.path.join(d, "patch.diff")
        if not (os.path.isfile(mp) and os.path.isfile(pp)):
            continue
        meta = json.load(open(mp))
        if prop is not None and meta.get("property") != prop:
            continue
        meta["_id"] = name
        meta["_patch"] = pp
        out.append(meta)
    return out


def _run(args):
    prop, overlay = args
    from .model import AnalysisError
    from .report import Ctx

    mod = importlib.import_module(f"sverif.rules.{prop.lower()}")
    try:
        ctx = Ctx(prop, "quick", overlay=overlay)
        mod.check(ctx)
        if ctx.declined and not ctx.findings:
            return ("analysis-error", "; ".join(f"{why} [{name}]" for name, why in ctx.declined))
        return ("ok", [(f.rule, f.key, f.message, f.file, f.line) for f in ctx.findings])
    except AnalysisError as e:
        return ("analysis-error", str(e))
    except SyntaxError as e:
        return ("syntax-error", str(e))
    except Exception as e:  # pragma: no cover
        return ("internal-error", f"{type(e).__name__}: {e}")


def _run_many(args):
    """All the given properties on one overlay, sharing one parsed model (the checkers only read it)."""
    props, overlay = args
    from .model import AnalysisError, SrcModel
    from .report import Ctx

    try:
        model = SrcModel(overlay=overlay)
    except (AnalysisError, SyntaxError) as e:
        return {p: ("analysis-error", str(e)) for p in props}
    out = {}
    for prop in props:
        mod = importlib.import_module(f"sverif.rules.{prop.lower()}")
        try:
            ctx = Ctx(prop, "quick", model=model)
            mod.check(ctx)
            if ctx.declined and not ctx.findings:
                out[prop] = ("analysis-error", "; ".join(f"{why} [{name}]" for name, why in ctx.declined))
            else:
                out[prop] = ("ok", [(f.rule, f.key, f.message, f.file, f.line) for f in ctx.findings])
        except AnalysisError as e:
            out[prop] = ("analysis-error", str(e))
        except Exception as e:  # pragma: no cover
            out[prop] = ("internal-error", f"{type(e).__name__}: {e}")
    return out


def evaluate(prop=None, all_props=False, jobs=16, verbose=True):
    """Run the checkers over every seeded change.  Returns (rows, failures): a row per change with the new findings
    (relative to the unmodified tree) per property; a failure is a change whose meta says ``"expect": "detected"``
    that the check of its own property does not report."""
    ents = entries(prop)
    if not ents:
        return [], 0
    work, index = [], []
    base_props = set()
    for e in ents:
        ov, why = overlay_of(e["_patch"])
        e["_overlay_error"] = why
        if ov is None:
            continue
        props = ALL_PROPS if all_props else [e["property"]]
        for p in props:
            work.append((p, ov))
            index.append((e["_id"], p))
            base_props.add(p)
    base_props = sorted(base_props)
    if all_props:
        # one model per seeded change, shared by the twenty checkers
        groups = {}
        for (sid, p), (p2, ov) in zip(index, work):
            groups.setdefault(sid, ([], ov))[0].append(p)
        with ProcessPoolExecutor(max_workers=jobs) as ex:
            bmany = ex.submit(_run_many, (base_props, None))
            gres = list(ex.map(_run_many, [(ps, ov) for sid, (ps, ov) in groups.items()]))
            bres = [bmany.result()[p] for p in base_props]
        gmap = {sid: r for sid, r in zip(groups, gres)}
        res = [gmap[sid][p] for (sid, p) in index]
    else:
        with ProcessPoolExecutor(max_workers=jobs) as ex:
            bres = list(ex.map(_run, [(p, None) for p in base_props]))
            res = list(ex.map(_run, work))
    base = {p: ({k for (_, k, *_r) in r[1]} if r[0] == "ok" else set()) for p, r in zip(base_props, bres)}
    by = {}
    for (sid, p), r in zip(index, res):
        by.setdefault(sid, {})[p] = r
    rows, failures = [], 0
    for e in ents:
        sid = e["_id"]
        row = {"id": sid, "property": e["property"], "expect": e.get("expect", "detected"), "new": {}, "errors": {}}
        if e["_overlay_error"]:
            row["stale"] = e["_overlay_error"]
            rows.append(row)
            continue
        for p, (status, data) in by.get(sid, {}).items():
            if status == "ok":
                new = [(rule, msg, file, line) for (rule, key, msg, file, line) in data if key not in base[p]]
                if new:
                    row["new"][p] = new
            else:
                row["errors"][p] = f"{status}: {data[:140]}"
        own = row["new"].get(e["property"], [])
        row["detected_by_own"] = bool(own)
        if row["expect"] == "detected" and not own:
            failures += 1
        if row["expect"] == "missed" and own:
            # good news, but the record is out of date: say so (not a failure)
            row["note"] = "recorded as missed but now detected: update meta.json"
        rows.append(row)
    return rows, failures


def print_rows(rows):
    for r in rows:
        if "stale" in r:
            print(f"  SEEDED {r['id']} ({r['property']}): STALE {r['stale']}")
            continue
        own = r["new"].get(r["property"], [])
        others = {p: v for p, v in r["new"].items() if p != r["property"]}
        verdict = "DETECTED" if own else "missed"
        rules = sorted({x[0] for x in own})
        extra = f" also: {', '.join(f'{p}:{sorted({x[0] for x in v})}' for p, v in sorted(others.items()))}" if others else ""
        print(f"  SEEDED {r['id']} ({r['property']}, expect {r['expect']}): {verdict} {rules}{extra}")
        for x in own[:2]:
            print(f"         {x[2]}:{x[3]} [{x[0]}] {x[1][:150]}")
        for p, msg in r["errors"].items():
            print(f"         {p}: {msg}")
        if r.get("note"):
            print(f"         note: {r['note']}")


def run_seeded(prop=None, all_props=False, jobs=16):
    t0 = time.time()
    rows, failures = evaluate(prop, all_props=all_props, jobs=jobs)
    print_rows(rows)
    n = len(rows)
    det = sum(1 for r in rows if r.get("detected_by_own"))
    exp_missed = sum(1 for r in rows if r.get("expect") == "missed")
    stale = sum(1 for r in rows if "stale" in r)
    print(
        f"SEEDED {'all' if prop is None else prop}: {det}/{n} detected by the check of their own property, "
        f"{exp_missed} recorded as out of reach, stale {stale}, failures {failures}, wall {time.time() - t0:.1f}s"
    )
    global LAST_SUMMARY
    LAST_SUMMARY = {
        "changes": n,
        "reported_by_own_check": det,
        "recorded_out_of_reach": exp_missed,
        "stale": stale,
        "failures": failures,
        "ids": [{"id": r["id"], "reported": bool(r.get("detected_by_own")), "rules": sorted({x[0] for x in r["new"].get(r["property"], [])})} for r in rows],
    }
    return 1 if failures else 0


LAST_SUMMARY = None
