"""C11 -- temporal requirements accept exactly the traces satisfying the formula (structural part)."""

import ast

from .. import lib
from ..model import AnalysisError, dotted, norm_text, parent, unparse, walk_local

CO = "scenic.syntax.compiler"
VE = "scenic.syntax.veneer"
PP = "scenic.core.propositions"
RQ = "scenic.core.requirements"
DS = "scenic.core.dynamics.scenarios"
SA = "scenic.syntax.ast"
GRAMFILE = "src/scenic/syntax/scenic.gram"

# syntax keyword -> (syntax node, runtime factory, proposition class, rv_ltl class, arity)
OPS = [
    ("always", "Always", "Always", "Always", "Always", 1),
    ("eventually", "Eventually", "Eventually", "Eventually", "Eventually", 1),
    ("next", "Next", "Next", "Next", "Next", 1),
    ("until", "UntilOp", "Until", "Until", "Until", 2),
    ("implies", "ImpliesOp", "Implies", "Implies", "Implies", 2),
]
BOOL = [("not", "PropositionNot", "Not", "Not"), ("and", "PropositionAnd", "And", "And"), ("or", "PropositionOr", "Or", "Or")]
TEMPORAL = {"Always", "Eventually", "Next", "Until"}


def _fields(model, cname):
    cls = model.module(SA).classes.get(cname)
    if cls is None:
        raise AnalysisError(f"syntax node {cname} missing")
    return [s.target.id for s in cls.body if isinstance(s, ast.AnnAssign) and isinstance(s.target, ast.Name)]


def check_chain(ctx, R="C11.chain"):
    ctx.rule(
        R,
        "operator chain: for always/eventually/next/until/implies (and not/and/or) each hop grammar action -> syntax node fields -> "
        "PropositionTransformer visitor -> veneer factory -> propositions class -> rv_ltl constructor maps the operator to its namesake and "
        "passes operand k to parameter k (left operand stays left)",
    )
    from pegen import grammar as gr

    model = ctx.model
    g = ctx.grammar
    pt = model.cls(CO, "PropositionTransformer")
    for kw, node, factory, pcls, ltl, arity in OPS:
        problems = []
        fields = _fields(model, node)
        # hop 1: grammar
        alts = [(a, c) for a, c, kind, cname in g.constructor_calls() if kind == "s" and cname == node]
        if not alts:
            problems.append(f"no grammar action builds s.{node}")
        for a, call in alts:
            items = [(it.name, it.item) for it in a.alt.items if isinstance(it, gr.NamedItem)]
            order = [it.name for it in a.alt.items if isinstance(it, gr.NamedItem) and it.name]
            kws = [s for s, q, opt in a.strings()]
            if kw not in kws:
                problems.append(f"rule {a.rule}: s.{node} is built by an alternative without the keyword `{kw}`")
            # operand variables in textual order around the keyword
            seq = []
            for it in a.alt.items:
                inner = it.item if isinstance(it, gr.NamedItem) else it
                if isinstance(inner, gr.StringLeaf) and inner.value[1:-1] == kw:
                    seq.append("<kw>")
                elif isinstance(it, gr.NamedItem) and it.name:
                    seq.append(it.name)
            operands = [x for x in seq if x != "<kw>"]
            given = [unparse(x) for x in call.args] + [unparse(k.value) for k in call.keywords if k.arg in fields]
            kwmap = {k.arg: unparse(k.value) for k in call.keywords if k.arg}
            bound = dict(zip(fields, [unparse(x) for x in call.args]))
            bound.update({k: v for k, v in kwmap.items() if k in fields})
            got = [bound.get(f) for f in fields]
            if got != operands[: len(fields)]:
                problems.append(f"rule {a.rule}: operands appear as {operands} but s.{node}{tuple(fields)} receives {got}")
            if arity == 2 and seq.index("<kw>") != 1:
                problems.append(f"rule {a.rule}: `{kw}` is not infix between its two operands")
        # hop 2: compiler
        vis = pt.methods.get(f"visit_{node}")
        if vis is None:
            problems.append(f"PropositionTransformer has no visit_{node}")
        else:
            rets = [r for r in lib.returns_of(vis) if isinstance(r.value, ast.Call) and dotted(r.value.func) == "ast.Call"]
            if len(rets) != 1:
                problems.append(f"visit_{node}: no single emitted call")
            else:
                c = rets[0].value
                f = lib.kw(c, "func")
                fid = lib.kw(f, "id") or (f.args[0] if f.args else None)
                if not (isinstance(fid, ast.Constant) and fid.value == factory):
                    problems.append(f"visit_{node} emits a call to `{unparse(fid)}`, expected `{factory}`")
                args = lib.kw(c, "args")
                roots = []
                for e in args.elts if isinstance(args, ast.List) else []:
                    roots.append(_root_field(vis, e))
                if roots != fields[: len(roots)] or len(roots) != arity:
                    problems.append(f"visit_{node} passes operands derived from {roots}; the node's fields are {fields}")
        # hop 3: veneer
        vf = model.try_func(VE, factory)
        if vf is None:
            problems.append(f"veneer.{factory} missing")
        else:
            rets = [r for r in lib.returns_of(vf) if isinstance(r.value, ast.Call)]
            params = [a.arg for a in vf.args.args]
            if not (len(rets) == 1 and dotted(rets[0].value.func) == f"propositions.{pcls}" and [unparse(x) for x in rets[0].value.args] == params and len(params) == arity):
                problems.append(f"veneer.{factory}{tuple(params)} does not return propositions.{pcls}{tuple(params)}")
        # hop 4: propositions
        pc = model.cls(PP, pcls)
        init = pc.methods.get("__init__")
        if init is None:
            problems.append(f"propositions.{pcls} has no __init__")
        else:
            params = [a.arg for a in init.args.args[1:]]
            calls = [c for c in ast.walk(init) if isinstance(c, ast.Call) and (dotted(c.func) or "").startswith("rv_ltl.")]
            if len(calls) != 1 or dotted(calls[0].func) != f"rv_ltl.{ltl}":
                problems.append(f"propositions.{pcls} builds {[dotted(c.func) for c in calls]}, expected rv_ltl.{ltl}")
            else:
                got = [unparse(a) for a in calls[0].args]
                want = [f"{p}.ltl_node" for p in params]
                if got != want:
                    problems.append(f"propositions.{pcls}{tuple(params)} passes {got} to rv_ltl.{ltl}; operand order must be {want}")
            ch = pc.methods.get("children") or next((c.methods["children"] for c in model.mro(pc) if "children" in c.methods), None)
            stored = {}
            for n in walk_local(init):
                if isinstance(n, ast.Assign) and isinstance(n.targets[0], ast.Attribute) and isinstance(n.value, ast.Name) and n.value.id in params:
                    stored[n.value.id] = n.targets[0].attr
            rets = [r for r in lib.returns_of(ch) if r.value is not None] if ch is not None else []
            want = [f"self.{stored.get(p)}" for p in params]
            got = [unparse(e) for e in rets[0].value.elts] if rets and isinstance(rets[0].value, ast.List) else None
            if got != want:
                problems.append(f"propositions.{pcls}.children is {got}; every operand {want} must be a child so that its atoms are monitored")
        if problems:
            for p in problems:
                ctx.finding(R, vis or pc.node, f"chain {kw}: {p[:90]}", f"temporal operator `{kw}`: {p}")
        else:
            ctx.ok(R, vis, f"`{kw}`: grammar -> s.{node}{tuple(fields)} -> {factory} -> propositions.{pcls} -> rv_ltl.{ltl}, operand order preserved")
    # boolean connectives
    for kw, factory, pcls, ltl in BOOL:
        problems = []
        vf = model.try_func(VE, factory)
        if vf is None:
            problems.append(f"veneer.{factory} missing")
        else:
            rets = [r for r in lib.returns_of(vf) if isinstance(r.value, ast.Call)]
            params = [a.arg for a in vf.args.args]
            if not (len(rets) == 1 and dotted(rets[0].value.func) == f"propositions.{pcls}" and [unparse(x) for x in rets[0].value.args] == params):
                problems.append(f"veneer.{factory} does not return propositions.{pcls}{tuple(params)}")
        pc = model.cls(PP, pcls)
        init = pc.methods["__init__"]
        calls = [c for c in ast.walk(init) if isinstance(c, ast.Call) and (dotted(c.func) or "").startswith("rv_ltl.")]
        if len(calls) != 1 or dotted(calls[0].func) != f"rv_ltl.{ltl}":
            problems.append(f"propositions.{pcls} builds {[dotted(c.func) for c in calls]}, expected rv_ltl.{ltl}")
        if problems:
            for p in problems:
                ctx.finding(R, pc.node, f"chain {kw}: {p[:90]}", f"connective `{kw}`: {p}")
        else:
            ctx.ok(R, pc.node, f"`{kw}`: {factory} -> propositions.{pcls} -> rv_ltl.{ltl}")
    # the compiler's BoolOp / Not mapping
    vb = pt.methods.get("visit_BoolOp")
    t = unparse(vb) if vb else ""
    if "ast.Or: 'PropositionOr'" in t and "ast.And: 'PropositionAnd'" in t:
        ctx.ok(R, vb, "`or` -> PropositionOr, `and` -> PropositionAnd")
    else:
        ctx.finding(R, vb or pt.node, "BoolOp mapping", "PropositionTransformer.visit_BoolOp no longer maps ast.Or -> PropositionOr and ast.And -> PropositionAnd")
    vu = pt.methods.get("visit_UnaryOp")
    t = unparse(vu) if vu else ""
    if "isinstance(node.op, ast.Not)" in t and "PROPOSITION_NOT" in t:
        ctx.ok(R, vu, "`not` -> PropositionNot")
    else:
        ctx.finding(R, vu or pt.node, "Not mapping", "PropositionTransformer.visit_UnaryOp no longer maps `not` to PropositionNot")


def _root_field(fn, e, depth=0):
    """Which node.<field> does expression e derive from (through self.visit(...) and single-assignment locals / re-bindings)?"""
    if depth > 8:
        return None
    if isinstance(e, ast.Call) and isinstance(e.func, ast.Attribute) and e.func.attr in ("visit", "_create_atomic_proposition_factory") and e.args:
        return _root_field(fn, e.args[0], depth + 1)
    if isinstance(e, ast.Attribute) and isinstance(e.value, ast.Name) and e.value.id == "node":
        return e.attr
    if isinstance(e, ast.Name):
        defs = [n.value for n in walk_local(fn) if isinstance(n, ast.Assign) and any(isinstance(t, ast.Name) and t.id == e.id for t in n.targets)]
        roots = {_root_field(fn, d, depth + 1) for d in defs}
        roots.discard(None)
        if len(roots) == 1:
            return roots.pop()
    return None


def check_classes(ctx, R="C11.classes"):
    ctx.rule(
        R,
        "proposition classes: is_temporal is set for exactly Always, Eventually, Next, Until; every non-temporal class overrides evaluate() "
        "with its Boolean meaning (the base implementation raises), so a non-temporal requirement can be evaluated in the current step only; "
        "atomics() collects every Atomic of the flattened tree; G1 over propositions.py and the requirement wrappers",
    )
    model = ctx.model
    base = model.cls(PP, "PropositionNode")
    classes = model.subclasses(base, strict=True)
    ctx.floor(R, len(classes), 9, "proposition classes")
    EVAL = {
        "Atomic": "self.closure()",
        "Not": "not self.req.evaluate()",
        "And": "reduce(operator.and_, [node.evaluate() for node in self.reqs], True)",
        "Or": "reduce(operator.or_, [node.evaluate() for node in self.reqs], False)",
        "Implies": None,
    }
    for ci in classes:
        if ci.name == "UnaryProposition":
            continue
        init = ci.methods.get("__init__")
        temporal = init is not None and any(unparse(s) == "self.is_temporal = True" for s in ast.walk(init) if isinstance(s, ast.Assign))
        if (ci.name in TEMPORAL) != temporal:
            ctx.finding(R, ci.node, f"{ci.name}.is_temporal", f"propositions.{ci.name} is_temporal={temporal}; exactly {sorted(TEMPORAL)} are temporal (non-temporal sub-formulas are evaluated in the current step only, temporal ones through the monitor)")
            continue
        if temporal:
            ctx.ok(R, ci.node, f"{ci.name} is temporal (evaluated through the monitor)")
            continue
        found = model.find_method(ci, "evaluate")
        if found is None or found[0] is base:
            ctx.finding(
                R,
                ci.node,
                f"{ci.name}.evaluate missing",
                f"propositions.{ci.name} is non-temporal but does not override evaluate(): evaluating a non-temporal requirement containing it "
                f"(e.g. `require A implies B` in a compose block) raises RuntimeError('contains temporal operators')",
            )
            continue
        ev = found[1]
        rets = [r for r in lib.returns_of(ev) if r.value is not None]
        want = EVAL.get(ci.name)
        if ci.name == "Implies":
            txt = unparse(rets[0].value) if len(rets) == 1 else ""
            okv = txt in ("not self.lhs.evaluate() or self.rhs.evaluate()", "(not self.lhs.evaluate()) or self.rhs.evaluate()", "self.rhs.evaluate() or not self.lhs.evaluate()")
            if okv:
                ctx.ok(R, ev, "Implies.evaluate = (not lhs) or rhs")
            else:
                ctx.finding(R, ev, "Implies.evaluate meaning", f"Implies.evaluate returns `{txt}`; Boolean implication is `not lhs or rhs`")
        elif want is not None:
            if len(rets) == 1 and unparse(rets[0].value) == want:
                ctx.ok(R, ev, f"{ci.name}.evaluate = {want}")
            else:
                ctx.finding(R, ev, f"{ci.name}.evaluate meaning", f"{ci.name}.evaluate returns `{unparse(rets[0].value) if rets else None}`, its Boolean meaning is `{want}`")
        else:
            ctx.ok(R, ev, f"{ci.name} overrides evaluate")
    at = model.func(PP, "PropositionNode.atomics")
    fl = model.func(PP, "PropositionNode.flatten")
    if "isinstance(n, Atomic)" in unparse(at) and "self.flatten()" in unparse(at) and "self.children" in unparse(fl) and "[self] +" in unparse(fl):
        ctx.ok(R, at, "atomics() = every Atomic in [self] + flattened children")
    else:
        ctx.finding(R, at, "atomics / flatten", "PropositionNode.atomics/flatten no longer collect every Atomic of the tree")
    # G1 over the classes involved
    n = 0
    for mn in (PP, RQ):
        m = model.module(mn)
        for ci in [c for c in model.classes.values() if c.module is m]:
            for name, fn in ci.methods.items():
                n += 1
                for b in lib.unresolved_names(model, fn):
                    ctx.finding(R, b, f"{ci.name}.{name} name {b.id}", f"{ci.name}.{name}: name `{b.id}` is bound nowhere")
                for b in lib.unknown_self_attrs(model, ci, fn):
                    ctx.finding(
                        R,
                        b,
                        f"{ci.name}.{name} attribute self.{b.attr}",
                        f"{ci.name}.{name}: `self.{b.attr}` is never assigned in {ci.name}'s hierarchy; reaching it raises AttributeError "
                        f"(for __str__ of a requirement this replaces the intended rejection message by a crash)",
                    )
    ctx.floor(R, n, 40, "methods of proposition / requirement classes")


def check_monitor(ctx, R="C11.monitor"):
    ctx.rule(
        R,
        "monitor protocol: PropositionMonitor.update evaluates each atom's closure exactly once per call and feeds every atom to the rv_ltl "
        "monitor; DynamicScenario._step rejects on B4.FALSE of every requirement monitor before anything else in the step; _stop rejects on a "
        "falsy last value unless quiet; monitors start at B4.TRUE; the step-0 check of a compiled requirement compares with B4.FALSE",
    )
    model = ctx.model
    up = model.func(PP, "PropositionMonitor.update")
    loops = [n for n in walk_local(up) if isinstance(n, ast.For)]
    ok = False
    if len(loops) == 1 and isinstance(loops[0].target, ast.Name):
        v = loops[0].target.id
        calls = [c for c in ast.walk(loops[0]) if isinstance(c, ast.Call) and unparse(c.func) == f"{v}.closure"]
        src = lib.local_value(up, unparse(loops[0].iter)) if isinstance(loops[0].iter, ast.Name) else loops[0].iter
        stores = [n for n in ast.walk(loops[0]) if isinstance(n, ast.Assign) and isinstance(n.targets[0], ast.Subscript) and unparse(n.targets[0].slice) == f"str({v}.syntax_id)"]
        ok = len(calls) == 1 and src is not None and unparse(src) == "self._proposition.atomics()" and len(stores) == 1 and not any(isinstance(x, (ast.Continue, ast.Break)) for x in ast.walk(loops[0]))
    t = unparse(up)
    fed = False
    if ok:
        # the dictionary the loop fills is the one handed to the rv_ltl monitor
        dname = unparse(stores[0].targets[0].value)
        fed = f"self._monitor.update({dname})" in t
    if ok and fed and "return self._monitor.evaluate()" in t:
        ctx.ok(R, up, "update(): one closure call per atom, all atoms fed to the monitor, verdict returned")
    else:
        ctx.finding(R, up, "PropositionMonitor.update", "PropositionMonitor.update no longer evaluates every atom exactly once and feeds the state to the rv_ltl monitor")
    st = model.func(DS, "DynamicScenario._step")
    body = [s for s in lib.core(st.body) if not isinstance(s, (ast.Import, ast.ImportFrom))]
    first = [s for s in body if not (isinstance(s, ast.Expr) and "super()._step()" in unparse(s))]
    good = False
    if first and isinstance(first[0], ast.For) and unparse(first[0].iter) == "self._requirementMonitors":
        lp = first[0]
        ifs = [s for s in lp.body if isinstance(s, ast.If)]
        if ifs:
            tt = ifs[0].test
            if isinstance(tt, ast.Compare) and isinstance(tt.ops[0], ast.Eq) and "rv_ltl.B4.FALSE" in unparse(tt) and any(isinstance(x, ast.Raise) and "RejectSimulationException" in unparse(x) for x in ifs[0].body):
                good = True
    if good:
        ctx.ok(R, st, "_step: every requirement monitor is advanced first and B4.FALSE rejects the simulation")
    else:
        ctx.finding(R, st, "_step monitors first", "DynamicScenario._step no longer begins by advancing all requirement monitors and rejecting on B4.FALSE")
    # every user requirement is bound for the simulation: a filter (e.g. on the root node's is_temporal flag) drops
    # requirements whose temporal operators sit below a Boolean connective
    mk = model.func("scenic.core.scenarios", "Scenario._makeSceneFromSample")
    binds = [g for g in ast.walk(mk) if isinstance(g, (ast.GeneratorExp, ast.ListComp)) and isinstance(g.elt, ast.Call) and dotted(g.elt.func) == "BoundRequirement"]
    if len(binds) < 1:
        raise AnalysisError("shape not recognised: BoundRequirement construction in Scenario._makeSceneFromSample")
    # the one ranging over the scenario's `require` statements (the others bind termination conditions and records)
    others = ("terminationConditions", "terminateSimulationConditions", "recordedExprs", "recordedInitialExprs", "recordedFinalExprs")
    binds = [g for g in binds if not any(unparse(g.generators[0].iter) == f"self.{o}" for o in others)]
    if len(binds) != 1:
        raise AnalysisError("shape not recognised: binding of the scenario's requirements in Scenario._makeSceneFromSample")
    gb = binds[0].generators
    if len(gb) == 1 and unparse(gb[0].iter) == "self.requirements" and not gb[0].ifs:
        ctx.ok(R, binds[0], "all of the scenario's requirements are bound (and hence monitored) for the simulation")
    else:
        ctx.finding(
            R,
            binds[0],
            "requirements filtered before monitoring",
            f"Scenario._makeSceneFromSample binds requirements from `{unparse(gb[0].iter)}` filtered by {[unparse(t) for g_ in gb for t in g_.ifs]}: a requirement the filter drops is never monitored during "
            f"the simulation (is_temporal is a flag of the root node only, so `not always a` or `a implies eventually b` would be dropped)",
        )
    sp = model.func(DS, "DynamicScenario._stop")
    loops = [n for n in walk_local(sp) if isinstance(n, ast.For) and unparse(n.iter) == "self._requirementMonitors"]
    good = False
    for lp in loops:
        g = [unparse(t) for t, p in lib.guard_tests(lp, sp) if p]
        falsy = [i for i in ast.walk(lp) if isinstance(i, ast.If) and unparse(i.test).endswith(".lastValue.is_falsy")]
        sets = [a.targets[0].id for i in falsy for a in i.body if isinstance(a, ast.Assign) and isinstance(a.targets[0], ast.Name)]
        raised = [r for r in ast.walk(sp) if isinstance(r, ast.Raise) and isinstance(r.exc, ast.Call) and dotted(r.exc.func) == "RejectSimulationException" and r.exc.args and unparse(r.exc.args[0]) in sets]
        if "not quiet" in g and falsy and raised:
            good = True
    if good:
        ctx.ok(R, sp, "_stop: a falsy last verdict rejects the simulation unless stopping quietly")
    else:
        ctx.finding(R, sp, "_stop final verdict", "DynamicScenario._stop no longer rejects when a requirement monitor's last value is falsy (unless quiet)")
    # monitors are created once in _start: a requirement added while running needs its own monitor
    ds = model.cls(DS, "DynamicScenario")
    SETUP_TIME = {"__init__", "_bindTo", "_inherit", "_merge", "_compileRequirements", "_prepare", "_dummy", "_requirementsToScene"}
    start = ds.methods.get("_start")
    derived = start is not None and any(
        isinstance(n, ast.Assign)
        and unparse(n.targets[0]) == "self._requirementMonitors"
        and isinstance(n.value, ast.ListComp)
        and len(n.value.generators) == 1
        and not n.value.generators[0].ifs
        and unparse(n.value.generators[0].iter) == "self._temporalRequirements"
        and isinstance(n.value.generators[0].target, ast.Name)
        and unparse(n.value.elt) == f"{n.value.generators[0].target.id}.toMonitor()"
        for n in walk_local(start)
    )
    if not derived:
        raise AnalysisError("shape not recognised: DynamicScenario._start no longer derives _requirementMonitors from _temporalRequirements")
    n_mut = 0
    for mname, fn in ds.methods.items():
        muts = [
            n
            for n in walk_local(fn)
            if (isinstance(n, ast.Call) and isinstance(n.func, ast.Attribute) and n.func.attr in ("append", "extend") and unparse(n.func.value) == "self._temporalRequirements")
            or (isinstance(n, ast.Assign) and any(unparse(t_) == "self._temporalRequirements" for t_ in n.targets) and "self._temporalRequirements" in unparse(n.value))
        ]
        if not muts or mname in SETUP_TIME:
            continue
        n_mut += 1
        mon = [n for n in walk_local(fn) if isinstance(n, ast.Call) and isinstance(n.func, ast.Attribute) and n.func.attr == "append" and unparse(n.func.value) == "self._requirementMonitors" and n.args and "toMonitor()" in lib.role_text(fn, n.args[0])]
        if mon:
            ctx.ok(R, fn, f"DynamicScenario.{mname}: a requirement added at run time also gets a monitor")
        else:
            ctx.finding(
                R,
                fn,
                f"DynamicScenario.{mname} adds a requirement without a monitor",
                f"DynamicScenario.{mname} adds to _temporalRequirements while the scenario may already run, but _requirementMonitors was derived from that "
                f"list once in _start and is not updated: a temporal `require` executed inside a compose block is never checked",
            )
    ctx.floor(R, n_mut, 1, "run-time additions of temporal requirements")
    for cname in ("MonitorRequirement", "DynamicMonitorRequirement"):
        ci = model.cls(RQ, cname)
        init = ci.methods["__init__"]
        if any(unparse(s) == "self.lastValue = rv_ltl.B4.TRUE" for s in ast.walk(init) if isinstance(s, ast.Assign)):
            ctx.ok(R, init, f"{cname} starts with lastValue = B4.TRUE")
        else:
            ctx.finding(R, init, f"{cname} initial verdict", f"{cname} does not start with lastValue = rv_ltl.B4.TRUE")
        val = ci.methods.get("value")
        if val is not None and "self.lastValue = self.closure(" in unparse(val) and "return self.lastValue" in unparse(val):
            ctx.ok(R, val, f"{cname}.value records and returns the monitor's verdict")
        else:
            ctx.finding(R, val or ci.node, f"{cname}.value", f"{cname}.value no longer stores the verdict in lastValue and returns it")
    fb = model.func(RQ, "CompiledRequirement.falsifiedByInner")
    rets = [r for r in lib.returns_of(fb) if r.value is not None]
    if len(rets) == 1 and isinstance(rets[0].value, ast.Compare) and isinstance(rets[0].value.ops[0], ast.Eq) and unparse(rets[0].value.comparators[0]) == "rv_ltl.B4.FALSE" and "create_monitor()" in unparse(fb):
        ctx.ok(R, fb, "the initial-scene check rejects only a definite FALSE of a fresh monitor")
    else:
        ctx.finding(R, fb, "CompiledRequirement.falsifiedByInner", "the step-0 check no longer compares a fresh monitor's verdict with rv_ltl.B4.FALSE")



def check_visited_children(ctx, R="C11.children"):
    ctx.rule(
        R,
        "a requirement visitor decides on the COMPILED operand: in the PropositionTransformer, once a visitor has compiled a child "
        "(`x = self.visit(node.<field>)`), it does not consult the raw `node.<field>` again except to test whether it is present or to "
        "read its source location; asking the raw child whether it is a proposition factory (it never is: factories are what "
        "compiling produces) wraps an already temporal operand into an atomic proposition, so e.g. `not always C` is evaluated on the "
        "current step only",
    )
    model = ctx.model
    ci = model.cls(CO, "PropositionTransformer")
    n = 0
    for mn, fn in ci.methods.items():
        if not mn.startswith("visit_") or len(fn.args.args) < 2:
            continue
        npar = fn.args.args[1].arg
        visited = set()
        for c in walk_local(fn):
            if isinstance(c, ast.Call) and unparse(c.func) == "self.visit" and c.args and isinstance(c.args[0], ast.Attribute) and unparse(c.args[0].value) == npar:
                visited.add(c.args[0].attr)
        for x in walk_local(fn):
            if not (isinstance(x, ast.Attribute) and isinstance(x.value, ast.Name) and x.value.id == npar and x.attr in visited and isinstance(x.ctx, ast.Load)):
                continue
            par = parent(x)
            if isinstance(par, ast.Call) and unparse(par.func) == "self.visit" and par.args and par.args[0] is x:
                continue
            n += 1
            ok = False
            if isinstance(par, ast.Attribute) and par.value is x and par.attr in ("lineno", "col_offset", "end_lineno", "end_col_offset"):
                ok = True
            if isinstance(par, ast.Compare) and all(isinstance(o, (ast.Is, ast.IsNot)) for o in par.ops):
                ok = True
            if isinstance(par, (ast.If, ast.IfExp, ast.While)) and par.test is x:
                ok = True
            if isinstance(par, ast.Call) and dotted(par.func) in ("ast.copy_location", "ast.fix_missing_locations") and par.args and par.args[-1] is x:
                ok = True  # only the location is taken from it
            if ok:
                ctx.ok(R, x, f"{mn}: the raw `{unparse(x)}` is only tested for presence / asked for its location")
            else:
                ctx.finding(
                    R,
                    x,
                    f"{mn}: raw child {unparse(x)} consulted after it was compiled",
                    f"PropositionTransformer.{mn} compiles `{unparse(x)}` and then uses the raw child again in `{norm_text(lib.statement_of(x), 70)}`: a decision that should look at the compiled "
                    f"operand (is it already a proposition factory?) looks at the uncompiled one, so a temporal operand is wrapped as an atomic proposition and evaluated in the current step only",
                )
    if n == 0:
        ctx.ok(R, ci.node, "no requirement visitor consults a raw child after compiling it")
    nvis = sum(1 for mn, fn in ci.methods.items() if mn.startswith("visit_") and any(isinstance(c, ast.Call) and unparse(c.func) == "self.visit" for c in walk_local(fn)))
    ctx.floor(R, nvis, 5, "requirement visitors that compile children")


def check(ctx):
    ctx.run(check_visited_children)
    ctx.run(check_chain)
    ctx.run(check_classes)
    ctx.run(check_monitor)
