"""C12 -- simulation steps run in the documented order and stop at the documented step (structural part)."""

import ast
import re

from .. import lib
from ..docs import numbered_list_after
from ..model import AnalysisError, ancestors, dotted, norm_text, parent, unparse, walk_local

SI = "scenic.core.simulators"
DS = "scenic.core.dynamics.scenarios"
DOC = "docs/reference/dynamic_scenarios.rst"


def _landmark_index(body, pred):
    """Indices of the top-level statements of `body` that contain a node satisfying pred."""
    out = []
    for i, s in enumerate(body):
        if any(pred(n) for n in ast.walk(s)):
            out.append(i)
    return out


def _call(name):
    return lambda n: isinstance(n, ast.Call) and unparse(n.func) == name


def check_run_order(ctx, R="C12.order"):
    ctx.rule(
        R,
        "G16 order table: the top-level statements of the `while True` body of Simulation._run occur exactly once each and in the order "
        "scenario step -> record -> monitors -> termination tests -> behaviours in schedule order -> log actions -> execute actions -> "
        "simulator step -> clock increment -> refresh of dynamic properties; the reference manual's numbered list names the same sequence",
    )
    model = ctx.model
    fn = model.func(SI, "Simulation._run")
    loops = [s for s in fn.body if isinstance(s, ast.While) and isinstance(s.test, ast.Constant) and s.test.value is True]
    if len(loops) != 1:
        raise AnalysisError("shape not recognised: Simulation._run main loop")
    body = loops[0].body
    scen = fn.args.args[1].arg
    # local variables are identified by what they are bound to, never by their names
    reason = lib.local_from(fn, f"{scen}._step()", what="termination reason")
    try:
        sched = lib.local_from(fn, "self.scheduleForAgents()", what="schedule")
    except AnalysisError:
        if not any(isinstance(c, ast.Call) and unparse(c) == "self.scheduleForAgents()" for c in ast.walk(fn)):
            raise
        sched = "self.scheduleForAgents()"  # iterated in place
    landmarks = [
        ("scenario step", _call(f"{scen}._step")),
        ("record current state", _call("self.recordCurrentState")),
        ("run monitors", _call(f"{scen}._runMonitors")),
        ("return on termination reason", lambda n: isinstance(n, ast.If) and _is_not_none(n.test, reason) and any(isinstance(x, ast.Return) for x in n.body)),
        ("terminate simulation when", _call(f"{scen}._checkSimulationTerminationConditions")),
        ("step limit", lambda n: isinstance(n, ast.If) and "maxSteps" in unparse(n.test) and any(isinstance(x, ast.Return) for x in n.body)),
        ("behaviours in schedule order", lambda n: isinstance(n, ast.For) and unparse(n.iter) == sched),
        ("log actions", _call("self.actionSequence.append")),
        ("execute actions", _call("self.executeActions")),
        ("simulator step", _call("self.step")),
        ("clock increment", lambda n: isinstance(n, ast.AugAssign) and unparse(n.target) == "self.currentTime" and isinstance(n.op, ast.Add) and lib.const(n.value) == 1),
        ("refresh dynamic properties", _call("self.updateObjects")),
    ]
    idx = []
    ok = True
    for name, pred in landmarks:
        hits = _landmark_index(body, pred)
        if name == "return on termination reason":
            # first such `if` only (a second one follows the terminate-simulation-when check)
            hits = hits[:1]
        if len(hits) != 1:
            ok = False
            ctx.finding(R, loops[0], f"landmark {name} x{len(hits)}", f"Simulation._run: the step `{name}` occurs {len(hits)} times at the top level of the main loop (expected exactly once per time step)")
            idx.append(None)
        else:
            idx.append(hits[0])
    # the steps that happen in every time step are plain statements of the loop body, not guarded by anything
    UNCONDITIONAL = {"scenario step", "record current state", "run monitors", "log actions", "execute actions", "simulator step", "clock increment", "refresh dynamic properties"}
    for (name, _), i in zip(landmarks, idx):
        if i is not None and name in UNCONDITIONAL and isinstance(body[i], (ast.If, ast.For, ast.While)):
            ok = False
            ctx.finding(
                R,
                body[i],
                f"conditional step {name}",
                f"Simulation._run: the step `{name}` sits inside `{norm_text(body[i], 50)}`: it is part of every time step (the simulator interface relies on being called, e.g. to apply "
                f"controls that decay or to advance its own bookkeeping), so it must not depend on a condition",
            )
    seq = [(n, i) for (n, _), i in zip(landmarks, idx) if i is not None]
    for (n1, i1), (n2, i2) in zip(seq, seq[1:]):
        if not i1 <= i2:
            ok = False
            ctx.finding(R, body[i2], f"order {n2} before {n1}", f"Simulation._run: `{n2}` (statement {i2}) runs before `{n1}` (statement {i1}); the documented order of a time step is {[n for n, _ in landmarks]}")
        elif i1 == i2 and n1 != n2:
            ok = False
            ctx.finding(R, body[i2], f"order {n2} merged with {n1}", f"Simulation._run: `{n1}` and `{n2}` are in the same statement")
    # the step limit: the run stops at the start of the step whose number equals the limit (currentTime >= maxSteps)
    maxp = fn.args.args[2].arg
    lim = [s for s in body if isinstance(s, ast.If) and maxp in lib.names_loaded(s.test) and any(isinstance(x, ast.Return) for x in s.body)]
    if lim:
        conj = lim[0].test.values if isinstance(lim[0].test, ast.BoolOp) and isinstance(lim[0].test.op, ast.And) else [lim[0].test]
        if any(lib.ctext(c) == lib.ctext_of(f"self.currentTime >= {maxp}") for c in conj):
            ctx.ok(R, lim[0], f"step limit: the run ends when currentTime >= {maxp} (exactly {maxp} steps are executed)")
        else:
            ok = False
            ctx.finding(R, lim[0], "step limit comparison", f"Simulation._run tests `{unparse(lim[0].test)}` for the step limit; a run of N steps must end when currentTime >= N (one step more or fewer otherwise)")
    if ok:
        ctx.ok(R, loops[0], "main loop: " + " -> ".join(n for n, _ in landmarks))
    # nothing after updateObjects in the loop body and no early `continue`
    if idx[-1] is not None and idx[-1] != len(body) - 1:
        ctx.finding(R, body[-1], "statements after refresh", "Simulation._run: statements follow updateObjects() in the loop body")
    conts = [n for n in walk_local(loops[0]) if isinstance(n, ast.Continue) and not any(isinstance(a, ast.For) for a in _anc_until(n, loops[0]))]
    for c in conts:
        ctx.finding(R, c, "continue in main loop", "Simulation._run: `continue` at the level of the main loop skips the rest of the time step")
    # manual
    if not model.exists(DOC):
        raise AnalysisError(f"{DOC} missing")
    items = numbered_list_after(model.read(DOC), "single time step of a dynamic simulation")
    if not items or len(items) < 9:
        raise AnalysisError(f"cannot read the numbered list of {DOC}")
    doc_kw = [
        ("modular scenarios", "scenario step"),
        ("record", "record current state"),
        ("monitor", "run monitors"),
        ("terminat", "termination tests"),
        ("dynamic behavior", "behaviours in schedule order"),
        ("execute the :term:`actions`", "execute actions"),
        ("Run the simulator", "simulator step"),
        ("Increment the simulation clock", "clock increment"),
        ("Update every :term:`dynamic property`", "refresh dynamic properties"),
    ]
    good = True
    for k, (needle, what) in enumerate(doc_kw):
        if needle.lower() not in items[k].lower():
            good = False
            ctx.finding(R, DOC, f"manual step {k + 1} != {what}", f"{DOC}: step {k + 1} of the documented time step (`{items[k][:70]}`) is not `{what}`: code and manual disagree on the order", qualname=f"step {k + 1}")
    if good:
        ctx.ok(R, DOC, "the manual's numbered list names the same nine steps in the same order", qualname="time step")


def _is_not_none(test, name):
    """`name is not None` / `None is not name` / `not name is None`."""
    if isinstance(test, ast.UnaryOp) and isinstance(test.op, ast.Not):
        t = test.operand
        return isinstance(t, ast.Compare) and len(t.ops) == 1 and isinstance(t.ops[0], ast.Is) and {unparse(t.left), unparse(t.comparators[0])} == {name, "None"}
    return isinstance(test, ast.Compare) and len(test.ops) == 1 and isinstance(test.ops[0], ast.IsNot) and {unparse(test.left), unparse(test.comparators[0])} == {name, "None"}


def _anc_until(node, stop):
    for a in ancestors(node):
        if a is stop:
            return
        yield a


def check_scenario_step(ctx, R="C12.scenario"):
    ctx.rule(
        R,
        "DynamicScenario._step runs in the order temporal monitors -> time limit -> elapsed-time increment -> compose block -> "
        "end-with-behaviours -> termination conditions; the time limit stops the scenario when elapsed >= limit (limit in steps = seconds / "
        "timestep); sub-scenarios are stepped once each per compose step",
    )
    model = ctx.model
    fn = model.func(DS, "DynamicScenario._step")
    body = fn.body
    landmarks = [
        ("temporal monitors", lambda n: isinstance(n, ast.For) and unparse(n.iter) == "self._requirementMonitors"),
        ("time limit", lambda n: isinstance(n, ast.If) and "self._timeLimitInSteps" in unparse(n.test) and any(isinstance(x, ast.Return) for x in n.body)),
        ("elapsed increment", lambda n: isinstance(n, ast.AugAssign) and unparse(n.target) == "self._elapsedTime"),
        ("compose block", lambda n: isinstance(n, ast.Call) and unparse(n.func) == "self._runningIterator.send"),
        ("end with behaviours", lambda n: isinstance(n, ast.If) and any(p_ and unparse(t_) == "self._endWithBehaviors" for t_, p_ in lib.flatten_conditions([(n.test, True)]))),
        ("termination conditions", lambda n: isinstance(n, ast.For) and unparse(n.iter) == "self._terminationConditions"),
    ]
    idx = []
    ok = True
    for name, pred in landmarks:
        hits = _landmark_index(body, pred)
        if len(hits) != 1:
            ok = False
            ctx.finding(R, fn, f"landmark {name} x{len(hits)}", f"DynamicScenario._step: `{name}` occurs {len(hits)} times at the top level (expected once)")
            idx.append(None)
        else:
            idx.append(hits[0])
    seq = [(n, i) for (n, _), i in zip(landmarks, idx) if i is not None]
    for (n1, i1), (n2, i2) in zip(seq, seq[1:]):
        if i1 >= i2:
            ok = False
            ctx.finding(R, body[i2], f"order {n2} before {n1}", f"DynamicScenario._step: `{n2}` runs before `{n1}`; documented order: {[n for n, _ in landmarks]}")
    if ok:
        ctx.ok(R, fn, "scenario step: " + " -> ".join(n for n, _ in landmarks))
    # time limit test
    tl = [n for n in body if isinstance(n, ast.If) and "self._timeLimitInSteps" in unparse(n.test)]
    if tl:
        t = unparse(tl[0].test)
        ct = lib.ctext(tl[0].test)
        if lib.ctext_of("self._elapsedTime >= self._timeLimitInSteps") in ct and "self._timeLimitInSteps is not None" in ct:
            ctx.ok(R, tl[0], "`terminate after N`: the scenario stops at the start of the step in which elapsed >= N")
        else:
            ctx.finding(R, tl[0], "time limit comparison", f"DynamicScenario._step tests `{t}`; the documented time limit is `elapsed >= limit` (with a None check)")
    from .c13 import check_duration

    check_duration(ctx, R)
    st = model.func(DS, "DynamicScenario._start")
    t = unparse(st)
    ts = set(lib.locals_assigned(st, lambda v: unparse(v) == "veneer.currentSimulation.timestep")) | {"veneer.currentSimulation.timestep"}
    conv = [
        n
        for n in walk_local(st)
        if (isinstance(n, ast.AugAssign) and isinstance(n.op, ast.Div) and unparse(n.target) == "self._timeLimitInSteps" and unparse(n.value) in ts)
        or (isinstance(n, ast.Assign) and unparse(n.targets[0]) == "self._timeLimitInSteps" and any(unparse(n.value) == f"self._timeLimitInSteps / {x}" or unparse(n.value) == f"self._timeLimit / {x}" for x in ts))
    ]
    guarded = conv and any(unparse(t_) == "self._timeLimitIsInSeconds" and p_ for t_, p_ in lib.path_conditions(conv[0], st))
    if guarded:
        ctx.ok(R, st, "time limits given in seconds are converted to steps by dividing by the timestep")
    else:
        ctx.finding(R, st, "time limit conversion", "DynamicScenario._start no longer converts a time limit in seconds with `/= timestep` under _timeLimitIsInSeconds")
    if "self._elapsedTime = 0" in t:
        ctx.ok(R, st, "the elapsed time of a scenario starts at 0 every time it is started")
    else:
        ctx.finding(R, st, "elapsed time not reset", "DynamicScenario._start no longer sets self._elapsedTime = 0: the top-level scenario object is started again by every simulation, so from the second simulation on `terminate after N` counts from the previous run's elapsed time and stops early")
    inv = model.func(DS, "DynamicScenario._invokeInner")
    loops = [n for n in ast.walk(inv) if isinstance(n, ast.For) and unparse(n.iter) == "self._subScenarios"]
    steps = [c for l in loops if isinstance(l.target, ast.Name) for c in ast.walk(l) if isinstance(c, ast.Call) and unparse(c.func) == f"{l.target.id}._step"]
    if len(steps) == 1:
        ctx.ok(R, inv, "each running sub-scenario is stepped exactly once per step of its parent's compose block")
    else:
        ctx.finding(R, inv, "sub-scenario stepping", f"DynamicScenario._invokeInner steps sub-scenarios {len(steps)} times per iteration")


def check_monitor_round(ctx, R="C12.order"):
    """part of C12.order: within one round of monitors, a scenario that its own monitor ends is stopped only after the monitors of
    its sub-scenarios have run (stopping it stops them)"""
    model = ctx.model
    fn = model.func(DS, "DynamicScenario._runMonitors")
    subs = [l for l in walk_local(fn) if isinstance(l, ast.For) and unparse(l.iter) == "self._subScenarios" and any(isinstance(c, ast.Call) and isinstance(c.func, ast.Attribute) and c.func.attr == "_runMonitors" for c in ast.walk(l))]
    stops = [c for c in walk_local(fn) if isinstance(c, ast.Call) and unparse(c.func) == "self._stop"]
    if not subs or not stops:
        raise AnalysisError("shape not recognised: sub-scenario monitor loop / stop call of DynamicScenario._runMonitors")
    if all((subs[0].lineno, subs[0].col_offset) < (c.lineno, c.col_offset) for c in stops):
        ctx.ok(R, stops[0], "_runMonitors stops the scenario only after the monitors of its sub-scenarios have run in this step")
    else:
        ctx.finding(
            R,
            stops[0],
            "scenario stopped before its sub-scenarios' monitors run",
            "DynamicScenario._runMonitors calls self._stop(...) before the loop that runs the monitors of the sub-scenarios: stopping the scenario stops them, so in the step in which a "
            "monitor ends its scenario the sub-scenarios' monitors (and the requirements they enforce) no longer run",
        )


def check_once_per_step(ctx, R="C12.logs"):
    ctx.rule(
        R,
        "once-per-step logs: the trajectory is appended at a single site (recordCurrentState), which the main loop calls once per "
        "iteration before any return; the action log is appended once per iteration after the termination returns; each agent's "
        "behaviour is stepped once inside the loop over `schedule`, which is checked to be a permutation of the agents",
    )
    model = ctx.model
    m = model.module(SI)
    sites = [n for n in ast.walk(m.tree) if isinstance(n, ast.Call) and unparse(n.func) == "self.trajectory.append"]
    if len(sites) == 1 and lib.qualname_of(sites[0]) == "Simulation.recordCurrentState":
        ctx.ok(R, sites[0], "trajectory.append has a single site, in recordCurrentState")
    else:
        ctx.finding(R, m.tree.body[0], f"trajectory.append sites x{len(sites)}", f"self.trajectory.append occurs at {len(sites)} sites ({[lib.qualname_of(s) for s in sites]}); one state per step requires exactly one, in recordCurrentState", qualname="Simulation")
    fn = model.func(SI, "Simulation._run")
    loop = [s for s in fn.body if isinstance(s, ast.While)][0]
    rec = [i for i, s in enumerate(loop.body) if any(isinstance(n, ast.Call) and unparse(n.func) == "self.recordCurrentState" for n in ast.walk(s))]
    first_ret = min([i for i, s in enumerate(loop.body) if any(isinstance(n, ast.Return) for n in ast.walk(s))] or [10**6])
    if len(rec) == 1 and rec[0] < first_ret and isinstance(loop.body[rec[0]], ast.Expr):
        ctx.ok(R, loop.body[rec[0]], "recordCurrentState runs unconditionally once per iteration, before the first return")
    else:
        ctx.finding(R, loop, "recordCurrentState placement", "recordCurrentState is not called exactly once per iteration, unconditionally, before the first `return` of the main loop")
    acts = [i for i, s in enumerate(loop.body) if any(isinstance(n, ast.Call) and unparse(n.func) == "self.actionSequence.append" for n in ast.walk(s))]
    top_rets = [i for i, s in enumerate(loop.body) if isinstance(s, ast.If) and any(isinstance(n, ast.Return) for n in s.body)]
    executed = {unparse(c.args[0]) for c in ast.walk(loop) if isinstance(c, ast.Call) and unparse(c.func) == "self.executeActions" and c.args}
    if (
        len(acts) == 1
        and isinstance(loop.body[acts[0]], ast.Expr)
        and all(i < acts[0] for i in top_rets)
        and isinstance(loop.body[acts[0]].value, ast.Call)
        and len(loop.body[acts[0]].value.args) == 1
        and unparse(loop.body[acts[0]].value.args[0]) in executed
    ):
        ctx.ok(R, loop.body[acts[0]], "one action-log entry per executed step, after all termination returns")
    else:
        ctx.finding(R, loop, "actionSequence placement", "the action log is not appended (with the very actions handed to executeActions) exactly once per iteration after the termination tests")
    # the actions handed to executeActions (and logged) are keyed in schedule order: the map starts empty and receives its keys
    # only inside the loop over the schedule, keyed by that loop's agent
    for amap in sorted(x for x in executed if x.isidentifier()):
        defs = [s_ for s_ in walk_local(fn) if isinstance(s_, ast.Assign) and any(isinstance(t, ast.Name) and t.id == amap for t in s_.targets)]
        empty_ok = bool(defs) and all(
            (isinstance(d.value, ast.Dict) and not d.value.keys)
            or (isinstance(d.value, ast.Call) and dotted(d.value.func) in ("dict", "OrderedDict", "collections.OrderedDict") and not d.value.args and not d.value.keywords)
            or (isinstance(d.value, ast.Call) and dotted(d.value.func) in ("defaultdict", "collections.defaultdict") and len(d.value.args) <= 1 and not d.value.keywords)
            for d in defs
        )
        stores = [s_ for s_ in walk_local(fn) if isinstance(s_, ast.Assign) and any(isinstance(t, ast.Subscript) and unparse(t.value) == amap for t in s_.targets)]
        others = [c for c in walk_local(fn) if isinstance(c, ast.Call) and isinstance(c.func, ast.Attribute) and unparse(c.func.value) == amap and c.func.attr in ("update", "setdefault", "__setitem__")]
        in_sched = True
        for s_ in stores:
            key = next(unparse(t.slice) for t in s_.targets if isinstance(t, ast.Subscript) and unparse(t.value) == amap)
            lp = next((a for a in ancestors(s_) if isinstance(a, ast.For) and isinstance(a.target, ast.Name) and a.target.id == key), None)
            if lp is None or "scheduleForAgents" not in lib.role_text(fn, lp.iter):
                in_sched = False
        if empty_ok and stores and in_sched and not others:
            ctx.ok(R, defs[0], f"`{amap}` starts empty and is keyed only by the agents of the schedule loop, in schedule order")
        else:
            ctx.finding(
                R,
                defs[0] if defs else fn,
                f"action map {amap} keyed outside the schedule loop",
                f"Simulation._run: the action map `{amap}` handed to executeActions / the action log does not start empty (`{norm_text(defs[0].value, 50) if defs else '?'}`) or receives keys outside the "
                f"loop over the schedule: its iteration order, i.e. the order in which actions are applied and logged, is then not the simulator's schedule order",
            )
    try:
        svar = lib.local_from(fn, "self.scheduleForAgents()", what="schedule")
    except AnalysisError:
        if not any(isinstance(c, ast.Call) and unparse(c) == "self.scheduleForAgents()" for c in ast.walk(fn)):
            raise
        svar = "self.scheduleForAgents()"  # used in place (then nothing can check it against the agents)
    sched = [s for s in loop.body if isinstance(s, ast.For) and unparse(s.iter) == svar]
    if sched and isinstance(sched[0].target, ast.Name):
        v = sched[0].target.id
        steps = [c for c in ast.walk(sched[0]) if isinstance(c, ast.Call) and unparse(c.func) == f"{v}.behavior._step"]
        inner = any(isinstance(a, (ast.For, ast.While)) for c in steps for a in _anc_until(c, sched[0]))
        if len(steps) == 1 and not inner:
            ctx.ok(R, steps[0], "each scheduled agent's behaviour is stepped exactly once")
        else:
            ctx.finding(R, sched[0], "behaviour stepping", f"agent behaviours are stepped {len(steps)} times per iteration of the schedule loop")
    else:
        ctx.finding(R, loop, "schedule loop", "no loop over `schedule` in Simulation._run")
    defs = [s for s in loop.body if isinstance(s, ast.Assign) and unparse(s.targets[0]) == svar]
    chk = [s for s in loop.body if isinstance(s, ast.If) and "set(self.agents)" in unparse(s.test) and f"set({svar})" in unparse(s.test) and any(isinstance(x, ast.Raise) for x in s.body)]
    if defs and unparse(defs[0].value) == "self.scheduleForAgents()" and chk:
        ctx.ok(R, chk[0], "the simulator's schedule is checked to contain exactly the agents")
    else:
        ctx.finding(R, loop, "schedule check", "the schedule returned by scheduleForAgents() is no longer checked against the agent set")
    d = model.func(SI, "Simulation.scheduleForAgents")
    rets = [r for r in lib.returns_of(d) if r.value is not None]
    if len(rets) == 1 and unparse(rets[0].value) == "self.agents":
        ctx.ok(R, d, "default schedule = agents in creation order")
    else:
        ctx.finding(R, d, "default schedule", "Simulation.scheduleForAgents no longer returns self.agents")


def check_requirement_kinds(ctx, R="C12.kinds"):
    ctx.rule(
        R,
        "statements executed while a simulation runs (the setup block of a dynamically invoked sub-scenario) are filed by their kind: "
        "in DynamicScenario._addDynamicRequirement only `require` reaches the temporal requirements / monitors, every other RequirementType "
        "(terminate when, terminate simulation when, record ...) goes through the same type dispatch as compile-time statements; and every "
        "class whose instances are put into the termination-condition / record lists offers what the consumers of those lists call",
    )
    model = ctx.model
    ds = model.cls(DS, "DynamicScenario")
    fn = ds.methods.get("_addDynamicRequirement")
    if fn is None:
        raise AnalysisError("DynamicScenario._addDynamicRequirement missing")
    typ = fn.args.args[1].arg
    adds = [n for n in walk_local(fn) if (isinstance(n, ast.Assign) and any(unparse(t) in ("self._temporalRequirements",) for t in n.targets)) or (isinstance(n, ast.Call) and isinstance(n.func, ast.Attribute) and n.func.attr in ("append", "extend") and unparse(n.func.value) in ("self._temporalRequirements", "self._requirementMonitors"))]
    if not adds:
        raise AnalysisError("shape not recognised: _addDynamicRequirement no longer adds temporal requirements")
    bad = []
    for a in adds:
        conds = lib.path_conditions(a, fn)
        only_require = any(
            (lib.ctext(t) == lib.ctext_of(f"{typ} is RequirementType.require") and p) or (lib.ctext(t) == lib.ctext_of(f"{typ} is not RequirementType.require") and not p) or (lib.ctext(t) == lib.ctext_of(f"{typ} == RequirementType.require") and p) or (lib.ctext(t) == lib.ctext_of(f"{typ} != RequirementType.require") and not p)
            for t, p in conds
        )
        if not only_require:
            bad.append(a)
    if bad:
        ctx.finding(
            R,
            bad[0],
            "every kind of dynamic statement is filed as a requirement",
            f"DynamicScenario._addDynamicRequirement adds the statement to the temporal requirements / monitors (`{norm_text(bad[0], 60)}`) whatever its type `{typ}`: a `terminate when X` in the "
            f"setup of a sub-scenario is monitored as a requirement and rejects the simulation while X is false, instead of ending the scenario when X becomes true",
        )
    else:
        ctx.ok(R, fn, "only `require` statements become temporal requirements; other kinds are dispatched by type")
    disp = [c for c in walk_local(fn) if isinstance(c, ast.Call) and unparse(c.func) == "self._registerCompiledRequirement"]
    if disp:
        ctx.ok(R, disp[0], "other kinds use the type dispatch of compile-time statements")
    elif not bad:
        ctx.finding(R, fn, "non-require dynamic statements dropped", "_addDynamicRequirement no longer files termination conditions and records anywhere")
    # interface conformance of what the lists hold
    lists = {"_terminationConditions", "_terminateSimulationConditions", "_recordedExprs", "_recordedInitialExprs", "_recordedFinalExprs"}
    used = {}
    for mname, f in ds.methods.items():
        for lp in walk_local(f):
            if isinstance(lp, ast.For) and isinstance(lp.target, ast.Name):
                it = unparse(lp.iter)
                tgt = None
                if it.startswith("self.") and it[5:] in lists:
                    tgt = it[5:]
                elif it == "getattr(self, place)":
                    tgt = "_recordedExprs"
                if tgt:
                    for a in ast.walk(lp):
                        if isinstance(a, ast.Attribute) and isinstance(a.value, ast.Name) and a.value.id == lp.target.id:
                            used.setdefault(tgt, set()).add(a.attr)
    need = set().union(*used.values()) if used else set()
    ctx.floor(R, len(need), 3, "attributes the consumers of the condition / record lists use")
    for cname in ("BoundRequirement", "DynamicRequirement"):
        ci = model.cls("scenic.core.requirements", cname)
        have = set(ci.methods) | model.instance_attrs(ci) if hasattr(model, "instance_attrs") else set(ci.methods)
        miss = sorted(a for a in need if a not in have)
        if miss:
            ctx.finding(R, ci.node, f"{cname} lacks {miss}", f"{cname} instances are put into the termination-condition / record lists of a scenario, whose consumers use {sorted(need)}; {cname} has no {miss}: reaching that consumer raises AttributeError")
        else:
            ctx.ok(R, ci.node, f"{cname} offers {sorted(need)}")


def check(ctx):
    ctx.run(check_requirement_kinds)
    ctx.run(check_run_order)
    ctx.run(check_monitor_round)
    ctx.run(check_scenario_step)
    ctx.run(check_once_per_step)
