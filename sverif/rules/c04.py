"""C04 -- overlap and containment tests agree with exact solid geometry (shortcut polarity)."""

import ast

from .. import lib
from ..approx import Classifier
from ..linform import equal, lin, lin_src
from ..model import AnalysisError, dotted, norm_text, parent, unparse, walk_local

RG = "scenic.core.regions"
OT = "scenic.core.object_types"

TARGETS = [
    (RG, "MeshVolumeRegion.intersects", "intersects"),
    (RG, "MeshVolumeRegion.containsObject", "contains"),
    (RG, "PolygonalFootprintRegion.containsObject", "contains"),
    (RG, "MeshSurfaceRegion.intersects", "intersects"),
]

NEED = {
    ("intersects", False): {"DISJOINT"},
    ("intersects", True): {"OVERLAP", "CONTAINS"},
    ("contains", True): {"CONTAINS"},
    ("contains", False): {"DISJOINT", "NOT_CONTAINS"},
}


def _is_structural_guard(t):
    """Guards that select a code path but prove nothing geometric (type / availability tests)."""
    s = unparse(t)
    if s.startswith("isinstance(") or " is not None" in s or " is None" in s:
        return True
    if s in ("triedReversed",):
        return True
    names = {n.attr for n in ast.walk(t) if isinstance(n, ast.Attribute)}
    if names and names <= {"_scaledShape", "isConvex", "_isConvex", "_bodyCount", "_isPlanarBox", "_shape"}:
        return True
    return False


def check_polarity(ctx, R="C04.polarity"):
    ctx.rule(
        R,
        "shortcut polarity: every early `return True/False` of the multi-pass overlap / containment tests is dominated by a guard whose "
        "quantities, classified by provenance (OVER = circumradius / bounding box / convex hull, UNDER = inradius / distance to surface, "
        "DIST = distance of reference points, exact surface hit), prove that answer: intersects -> False only from disjoint "
        "over-approximations, True only from overlapping under-approximations or an exact hit; containsObject -> True only from "
        "UNDER(region) > OVER(object) or all bounding-box corners inside a convex region, False only from disjoint over-approximations or a "
        "point/vertex of the object outside (an over-approximation of) the region",
    )
    model = ctx.model
    n_exits = 0
    for mod, q, role in TARGETS:
        fn = model.func(mod, q)
        cname = q.split(".")[0]
        ci = model.cls(mod, cname)
        params = [a.arg for a in fn.args.args]
        roles = {params[0]: "self", params[1]: "other"}
        cl = Classifier(model, ci, fn, roles)
        for r in sorted(lib.returns_of(fn), key=lambda x: x.lineno):
            if not (isinstance(r.value, ast.Constant) and isinstance(r.value.value, bool)):
                continue
            n_exits += 1
            cl.at = r.lineno
            val = r.value.value
            labels, whys, unknown = set(), [], []
            guards = [(t, p) for t, p in lib.guard_tests(r, fn)]
            for t in lib.prior_exit_guards(r, fn):
                guards.append((t, False))
            convex_guard = any("isConvex" in unparse(t) and p for t, p in guards)
            for t, p in guards:
                if _is_structural_guard(t):
                    continue
                lab, why = cl.guard(t, p)
                if lab == "CONTAINS_IF_CONVEX":
                    lab = "CONTAINS" if convex_guard else "NOTHING"
                labels.add(lab)
                whys.append(f"{'' if p else 'not '}({norm_text(t, 60)}) => {lab}: {why}")
                if lab == "UNKNOWN":
                    unknown.append(why)
            need = NEED[(role, val)]
            if labels & need:
                ctx.ok(R, r, f"{q}: `return {val}` justified: " + "; ".join(w for w in whys if any(x in w for x in need)))
            elif unknown and not (labels - {"UNKNOWN", "NOTHING"}):
                raise AnalysisError(f"shape not recognised: guard of `return {val}` in {q} (line {r.lineno}): {unknown[0]}")
            else:
                ctx.finding(
                    R,
                    r,
                    f"{q} early return {val} under {norm_text(guards[0][0], 70) if guards else 'no guard'}",
                    f"{q}: early `return {val}` is not justified by an approximation of the right polarity (needs one of {sorted(need)}; "
                    f"guards prove: {whys or 'nothing'}); in some configurations the shortcut answers differently from the exhaustive computation",
                )
    ctx.floor(R, n_exits, 10, "constant early returns in the overlap / containment tests")


def check_fallthrough(ctx, R="C04.exhaustive"):
    ctx.rule(
        R,
        "each multi-pass test ends, on its fall-through path, in the exhaustive computation (boolean mesh operation / exact polygon "
        "predicate / delegation), never in a constant",
    )
    model = ctx.model
    want = {
        "MeshVolumeRegion.intersects": ["self.intersect(other)", "super().intersects("],
        "MeshVolumeRegion.containsObject": ["isinstance(diff_region, EmptyRegion)"],
        "PolygonalFootprintRegion.containsObject": ["self.polygons.contains(obj._boundingPolygon)"],
    }
    for q, needles in want.items():
        fn = model.func(RG, q)
        last = fn.body[-1]
        if isinstance(last, ast.Return) and last.value is not None and not isinstance(last.value, ast.Constant):
            ctx.ok(R, last, f"{q} falls through to `{norm_text(last.value, 70)}`")
        else:
            ctx.finding(R, fn, f"{q} fall-through", f"{q} no longer ends in a computed answer on its fall-through path")
    # the exhaustive containment is a difference that must be empty; the exhaustive intersection a non-empty intersection
    fn = model.func(RG, "MeshVolumeRegion.containsObject")
    params = [a.arg for a in fn.args.args]
    env = {n.targets[0].id: n.value for n in walk_local(fn) if isinstance(n, ast.Assign) and len(n.targets) == 1 and isinstance(n.targets[0], ast.Name)}
    last = fn.body[-1]
    okd = False
    if isinstance(last, ast.Return) and isinstance(last.value, ast.Call) and dotted(last.value.func) == "isinstance" and unparse(last.value.args[1]) == "EmptyRegion":
        d = last.value.args[0]
        d = env.get(d.id, d) if isinstance(d, ast.Name) else d
        if isinstance(d, ast.Call) and isinstance(d.func, ast.Attribute) and d.func.attr == "difference":
            if unparse(d.func.value) == f"{params[1]}.occupiedSpace" and [unparse(a) for a in d.args] == [params[0]]:
                okd = True
    if okd:
        ctx.ok(R, last, "containsObject: exhaustive answer is `object − region is empty`")
    else:
        ctx.finding(R, fn, "MeshVolumeRegion.containsObject exhaustive", "the exhaustive pass of MeshVolumeRegion.containsObject is not `isinstance(obj.occupiedSpace.difference(self), EmptyRegion)`")
    fn = model.func(RG, "MeshVolumeRegion.intersects")
    exh = [r for r in lib.returns_of(fn) if r.value is not None and "self.intersect(" in unparse(r.value)]
    if exh and all(unparse(r.value) == f"not isinstance(self.intersect({fn.args.args[1].arg}), EmptyRegion)" for r in exh):
        ctx.ok(R, exh[0], "intersects: exhaustive answer is `intersection is not empty`")
    else:
        ctx.finding(R, fn, "MeshVolumeRegion.intersects exhaustive", "the exhaustive pass of MeshVolumeRegion.intersects is not `not isinstance(self.intersect(other), EmptyRegion)`")


def check_computed(ctx, R="C04.computed"):
    ctx.rule(
        R,
        "computed early answers are exact: every non-constant `return` of the multi-pass overlap / containment tests is one of the "
        "recognised exact predicates for the case its guards select (frozen table, one reason each): delegation to the general test, "
        "emptiness of the boolean intersection / difference, the exact collision query, the exact polygon containment of the exact "
        "footprint, all vertices inside a CONVEX container, and -- for single-body solids without surface contact -- the SYMMETRIC "
        "interior-point test (either solid contains an interior point of the other).  A one-sided or sampled test answers wrongly for some "
        "configurations",
    )
    model = ctx.model
    n = 0
    for mod, q, role in TARGETS:
        fn = model.func(mod, q)
        a, b = fn.args.args[0].arg, fn.args.args[1].arg
        for r in sorted(lib.returns_of(fn), key=lambda x: x.lineno):
            if r.value is None or isinstance(r.value, ast.Constant):
                continue
            n += 1
            t = lib.role_text(fn, r.value)
            conds = lib.flatten_conditions(lib.guard_tests(r, fn))
            guards = " && ".join(unparse(g) if p else f"not ({unparse(g)})" for g, p in conds)
            why = None
            if t.startswith(("super().intersects(", f"{a}.intersects(", "super().containsObject(")):
                why = "delegation to the general test"
            elif t in (f"not isinstance({a}.intersect({b}), EmptyRegion)", f"isinstance({b}.occupiedSpace.difference({a}), EmptyRegion)", f"isinstance({b}.difference({a}), EmptyRegion)"):
                why = "emptiness of the exact boolean operation"
            elif "in_collision_internal" in t or "fcl.collide" in t or ("collision" in t and "surface" in t):
                # the surface query as the final answer (so also as `False`) is exact only between two convex solids: a solid
                # strictly inside a non-convex one does not touch its surface
                if role == "intersects" and q.startswith("MeshVolumeRegion") and not lib.holds(conds, f"{a}.isConvex and {b}.isConvex"):
                    why = None
                    t = t + "  [returned as the final answer although not both operands are known to be convex]"
                else:
                    why = "exact surface collision query (both operands convex)" if q.startswith("MeshVolumeRegion") else "exact surface collision query"
            elif t in (f"{a}.polygons.contains({b}._boundingPolygon)", f"{a}.polygons.covers({b}._boundingPolygon)"):
                why = "exact polygon containment of the object's exact footprint"
            elif "signed_distance" in t and ".all(" in t.replace("numpy.all(", ".all(") and lib.holds(conds, f"{a}.isConvex"):
                why = "all vertices strictly inside a convex container"
            elif t == f"{a}.containsPoint({b}.mesh.vertices[0])" and lib.holds(conds, f"isinstance({b}, MeshSurfaceRegion)"):
                why = "a connected surface without contact is wholly inside or outside: one vertex decides"
            else:
                # the symmetric interior-point test
                parts = sorted(unparse(v) for v in r.value.values) if isinstance(r.value, ast.BoolOp) and isinstance(r.value.op, ast.Or) else []
                parts = sorted(lib.role_text(fn, v) for v in r.value.values) if parts else []
                if parts == sorted([f"{a}._containsPointExact({b}._interiorPoint)", f"{b}._containsPointExact({a}._interiorPoint)"]) and lib.holds(conds, f"{a}._bodyCount == 1 and {b}._bodyCount == 1"):
                    why = "single-body solids without surface contact: one contains the other iff it contains an interior point of the other (tested both ways)"
            if why:
                ctx.ok(R, r, f"{q}: `{norm_text(r.value, 60)}` is exact here: {why}")
            else:
                ctx.finding(
                    R,
                    r,
                    f"{q}: inexact computed answer {t[:70]}",
                    f"{q}: under `{guards or 'no guard'}` the test answers `{norm_text(r.value, 90)}`, which is none of the exact predicates for that case (e.g. a one-sided interior-point test misses a solid "
                    f"lying inside the other; 'all vertices inside' is containment only for a convex container): some configurations get a wrong overlap / containment verdict",
                )
    ctx.floor(R, n, 8, "computed returns of the overlap / containment tests")


def check_transforms(ctx, R="C04.transform"):
    ctx.rule(
        R,
        "precomputed geometry is moved with the transform it was computed for: data of the unit-sized shape (`self._shape.*`) is mapped by "
        "`_shapeTransform` (scale + rotation + translation); data of the already scaled shape (`self._scaledShape.*`) only by "
        "`_rigidTransform` (rotation + translation).  Applying the scaling transform to already scaled data scales it twice, so the interior "
        "point the overlap shortcuts rely on lies outside the solid",
    )
    model = ctx.model
    n = 0
    PAIR = {"_scaledShape": "_rigidTransform", "_shape": "_shapeTransform"}
    for ci in model.classes.values():
        if ci.module.name != RG:
            continue
        for mn, fn in ci.methods.items():
            uses = [a for a in walk_local(fn) if isinstance(a, ast.Attribute) and a.attr in ("_rigidTransform", "_shapeTransform") and isinstance(a.ctx, ast.Load) and unparse(a.value) == "self"]
            for u in uses:
                st = lib.statement_of(u)
                # the data the transform is applied to: precomputed-shape attributes read in the statement (through locals)
                txt = unparse(st)
                # follow locals to their nearest preceding definition (the two branches define `raw` differently)
                frontier, seen_ = [st], set()
                for _ in range(3):
                    nxt = []
                    for node in frontier:
                        for nm in lib.names_loaded(node):
                            defs = [a_ for a_ in walk_local(fn) if isinstance(a_, ast.Assign) and any(isinstance(t_, ast.Name) and t_.id == nm for t_ in a_.targets) and a_.lineno < st.lineno]
                            if defs:
                                d_ = max(defs, key=lambda a_: a_.lineno)
                                if id(d_) not in seen_:
                                    seen_.add(id(d_))
                                    txt += " ; " + unparse(d_.value)
                                    nxt.append(d_.value)
                    frontier = nxt
                srcs = {k for k in PAIR if f"self.{k}." in txt or f"self.{k} " in txt or f"(self.{k} or" in txt or f"or self.{k})" in txt}
                # `self._scaledShape or self._shape` mentions both
                if "self._scaledShape" in txt:
                    srcs.add("_scaledShape")
                if "self._shape." in txt or "self._shape)" in txt or "or self._shape" in txt:
                    srcs.add("_shape")
                if not srcs:
                    continue
                n += 1
                bad = [k for k in srcs if PAIR[k] != u.attr]
                if bad:
                    ctx.finding(
                        R,
                        u,
                        f"{ci.name}.{mn}: {u.attr} applied to data of {bad}",
                        f"{ci.name}.{mn}: `{norm_text(st, 90)}` applies self.{u.attr} to data taken from self.{bad[0]}, which needs self.{PAIR[bad[0]]}: "
                        + ("already scaled data is scaled a second time" if bad[0] == "_scaledShape" else "unit-sized data is not scaled")
                        + ", so the precomputed point / hull no longer belongs to the solid",
                    )
                else:
                    ctx.ok(R, u, f"{ci.name}.{mn}: data of {sorted(srcs)} moved by self.{u.attr}")
    ctx.floor(R, n, 1, "applications of a precomputed-shape transform")


def check_planar(ctx, R="C04.planar"):
    ctx.rule(
        R,
        "planar-box fast paths of Object.intersects are taken only when self (and the other object) is a planar box; the height test is "
        "|Δz| > (h1 + h2)/2 => False (exact for axis-aligned-in-z boxes), the polygon fast path requires |Δz| <= h/2; everything else "
        "reaches occupiedSpace.intersects",
    )
    model = ctx.model
    fn = model.func(OT, "Object.intersects")
    other = fn.args.args[1].arg
    n = 0
    final = None
    for r in lib.returns_of(fn):
        if r.value is None:
            continue
        guards = [(unparse(t), p) for t, p in lib.guard_tests(r, fn)]
        txt = unparse(r.value)
        if txt.startswith("self.occupiedSpace.intersects("):
            final = r
            continue
        n += 1
        gall = " && ".join(("" if p else "not ") + g for g, p in guards)
        planar_self = "self._isPlanarBox" in gall
        if not planar_self:
            ctx.finding(R, r, f"Object.intersects fast path {norm_text(r, 60)}", f"Object.intersects: `{norm_text(r, 80)}` is a fast path not guarded by self._isPlanarBox")
            continue
        if isinstance(r.value, ast.Constant):
            # height test
            inner = [t for t, p in lib.guard_tests(r, fn) if p and isinstance(t, ast.Compare)]
            good = False
            for t in inner:
                # |dz| > bound, written in either direction
                big, small = (t.left, t.comparators[0]) if len(t.ops) == 1 and isinstance(t.ops[0], (ast.Gt, ast.GtE)) else (t.comparators[0], t.left) if len(t.ops) == 1 and isinstance(t.ops[0], (ast.Lt, ast.LtE)) else (None, None)
                if big is not None and isinstance(big, ast.Call) and dotted(big.func) == "abs":
                    dz = lin(big.args[0])
                    rhs = lin(small)
                    if (equal(dz, lin_src(f"self.position.z - {other}.position.z")) or equal(dz, lin_src(f"{other}.position.z - self.position.z"))) and equal(
                        rhs, lin_src(f"(self.height + {other}.height) / 2")
                    ):
                        good = r.value.value is False and f"{other}._isPlanarBox" in gall
            if good:
                ctx.ok(R, r, "planar boxes whose z-extents are disjoint do not intersect (|Δz| > (h1+h2)/2)")
            else:
                ctx.finding(R, r, f"Object.intersects constant fast path", f"Object.intersects: `{unparse(r)}` under `{gall}` is not the exact z-extent disjointness test of two planar boxes")
        elif "_boundingPolygon.intersects" in txt or "_poly.intersects" in txt or ".intersects(" in txt:
            if f"{other}._isPlanarBox" in gall:
                ctx.ok(R, r, "two planar boxes overlapping in z intersect iff their bounding polygons do")
            elif f"isinstance({other}, PolygonalRegion)" in gall:
                tests = [t for t, p in lib.guard_tests(r, fn) if p]
                okz = False
                for t in tests:
                    for c in ast.walk(t):
                        if not (isinstance(c, ast.Compare) and len(c.ops) == 1):
                            continue
                        small, big = (c.left, c.comparators[0]) if isinstance(c.ops[0], (ast.LtE, ast.Lt)) else (c.comparators[0], c.left) if isinstance(c.ops[0], (ast.GtE, ast.Gt)) else (None, None)
                        if small is not None and isinstance(small, ast.Call) and dotted(small.func) == "abs":
                            dz = lin(small.args[0])
                            if (equal(dz, lin_src(f"self.position.z - {other}.z")) or equal(dz, lin_src(f"{other}.z - self.position.z"))) and equal(
                                lin(big), lin_src("self.height / 2")
                            ):
                                okz = True
                if okz:
                    ctx.ok(R, r, "planar box vs polygon at a height within the box's z-extent: polygon test is exact")
                else:
                    ctx.finding(R, r, "Object.intersects polygon fast path z test", f"Object.intersects: polygon fast path `{gall}` does not require |Δz| <= height/2")
            else:
                ctx.finding(R, r, f"Object.intersects fast path {norm_text(r, 60)}", f"Object.intersects: 2-D fast path under `{gall}` does not require the other operand to be planar")
    if final is None:
        ctx.finding(R, fn, "Object.intersects default", "Object.intersects no longer falls back to occupiedSpace.intersects")
    else:
        ctx.ok(R, final, "default case delegates to the occupied spaces' exact test")
    ctx.floor(R, n, 3, "fast-path returns of Object.intersects")
    # _isPlanarBox definition: box shape and no pitch/roll
    f = model.func(OT, "Object._isPlanarBox")
    t = unparse(f)
    need = ["isinstance(self.shape, BoxShape)", "self.orientation.pitch == 0", "self.orientation.roll == 0"]
    rets = [r for r in lib.returns_of(f) if r.value is not None]
    if len(rets) == 1 and isinstance(rets[0].value, ast.BoolOp) and isinstance(rets[0].value.op, ast.And) and all(any(lib.ctext(v) == lib.ctext_of(x) for v in rets[0].value.values) for x in need):
        ctx.ok(R, f, "_isPlanarBox = box shape and zero pitch and zero roll")
    else:
        ctx.finding(R, f, "_isPlanarBox definition", "_isPlanarBox no longer requires BoxShape and pitch == 0 and roll == 0 (conjunction)")



def check_distance(ctx, R="C04.distance"):
    ctx.rule(
        R,
        "the minimum distance between two solids is never positive when they overlap: the surface-to-surface query (fcl.distance) "
        "is exact for two convex operands only -- a solid strictly inside a non-convex one has a positive surface gap -- so in "
        "MeshVolumeRegion.minimumDistanceTo a positive result of that query is returned only when both operands are convex or the "
        "exact overlap test (self.intersects(other)) denies an overlap; the planar fast path of Object.minimumDistanceTo applies only "
        "to two planar boxes at the same height",
    )
    model = ctx.model
    fn = model.func(RG, "MeshVolumeRegion.minimumDistanceTo")
    a, b = fn.args.args[0].arg, fn.args.args[1].arg
    q = [c for c in walk_local(fn) if isinstance(c, ast.Call) and dotted(c.func) == "fcl.distance"]
    if not q:
        raise AnalysisError("shape not recognised: the distance query of MeshVolumeRegion.minimumDistanceTo")
    dvars = set(lib.locals_assigned(fn, lambda v: isinstance(v, ast.Call) and dotted(v.func) == "fcl.distance"))
    n = 0
    for r in lib.returns_of(fn):
        if r.value is None:
            continue
        direct = isinstance(r.value, ast.Call) and dotted(r.value.func) == "fcl.distance"
        via = isinstance(r.value, ast.Name) and r.value.id in dvars
        if not (direct or via):
            continue
        n += 1
        d = unparse(r.value)
        # is this return reachable with: the surface gap positive, an operand non-convex, the solids overlapping?
        reachable = False
        for nonconvex in (f"{a}.isConvex", f"{b}.isConvex"):
            env = {nonconvex: False, f"{a}.intersects({b})": True, f"{b}.intersects({a})": True}
            for txt in (f"{d} > 0", f"0 < {d}"):
                env[txt] = True
            for txt in (f"{d} <= 0", f"0 >= {d}"):
                env[txt] = False
            conds = lib.guard_tests(r, fn)
            blocked = any((lambda v: v is not None and v != p)(lib.tri_eval(t, env)) for t, p in conds)
            if not blocked:
                reachable = True
        if reachable:
            ctx.finding(
                R,
                r,
                f"surface gap returned for non-convex overlap {norm_text(r, 40)}",
                f"MeshVolumeRegion.minimumDistanceTo returns the surface-to-surface distance `{d}` also when it is positive, an operand is non-convex and the solids overlap: a solid "
                f"lying strictly inside a non-convex solid (no surface contact) is reported at a positive distance although the two overlap",
            )
        else:
            ctx.ok(R, r, "a positive surface gap is returned only for two convex operands or after the exact overlap test denied an overlap")
    ctx.floor(R, n, 1, "returns of the surface distance query")
    od = model.func(OT, "Object.minimumDistanceTo")
    o1, o2 = od.args.args[0].arg, od.args.args[1].arg
    for r in lib.returns_of(od):
        if r.value is None or "_boundingPolygon" not in unparse(r.value):
            continue
        conds = lib.guard_tests(r, od)
        if lib.holds(conds, f"{o1}._isPlanarBox and {o2}._isPlanarBox and {o1}.z == {o2}.z", f"{o1}._isPlanarBox and {o2}._isPlanarBox and {o1}.position.z == {o2}.position.z"):
            ctx.ok(R, r, "the footprint distance answers only for two planar boxes at the same height")
        else:
            ctx.finding(R, r, "planar distance fast path", f"Object.minimumDistanceTo answers `{norm_text(r.value, 60)}` without requiring both objects to be planar boxes at the same height: the distance of their footprints is not the distance of the solids")


def check(ctx):
    from .c03 import check_cache

    ctx.run(check_cache, R="C04.cache")  # footprint containment / overlap is answered from the cached bounded prism
    ctx.run(check_distance)
    ctx.run(check_computed)
    ctx.run(check_transforms)
    ctx.run(check_polarity)
    ctx.run(check_fallthrough)
    ctx.run(check_planar)
