"""C19 -- `do choose/shuffle` and run-time random values follow the stated probabilities (structural part)."""

import ast

from .. import lib
from ..model import AnalysisError, ancestors, dotted, norm_text, parent, unparse, walk_local

IV = "scenic.core.dynamics.invocables"
DI = "scenic.core.distributions"
CO = "scenic.syntax.compiler"


def check_enabled(ctx, R="C19.enabled"):
    ctx.rule(
        R,
        "enabled set and weights: every key inserted into the dict handed to Options in _invokeSubBehavior is dominated by a true "
        "_isEnabledForAgent(agent) of that same item and carries the caller's own weight (dict form) or the constant 1 (sequence form) "
        "unchanged; an empty enabled set rejects the simulation; the pick is Options(enabled) (or the single enabled item)",
    )
    model = ctx.model
    fn = model.func(IV, "Invocable._invokeSubBehavior")
    pick = [f for f in ast.walk(fn) if isinstance(f, ast.FunctionDef) and f is not fn and any(isinstance(c, ast.Call) and dotted(c.func) == "Options" for c in ast.walk(f))]
    if not pick:
        raise AnalysisError("shape not recognised: pickEnabledInvocable")
    pk = pick[0]
    agentp = fn.args.args[1].arg
    # the enabled set: the mapping handed to Options(...) -- a local filled by insertions / built in one expression, or the
    # building expression itself
    optc = [c for c in ast.walk(pk) if isinstance(c, ast.Call) and dotted(c.func) == "Options" and len(c.args) == 1]
    if len(optc) != 1:
        raise AnalysisError("shape not recognised: Options(<enabled set>) in pickEnabledInvocable")
    marg = optc[0].args[0]
    if isinstance(marg, ast.Name):
        en = marg.id
        stores = [n for n in ast.walk(pk) if isinstance(n, ast.Assign) and isinstance(n.targets[0], ast.Subscript) and unparse(n.targets[0].value) == en]
        built = [(n, n.value) for n in walk_local(pk) if isinstance(n, ast.Assign) and unparse(n.targets[0]) == en and not (isinstance(n.value, ast.Dict) and not n.value.keys) and unparse(n.value) != "dict()"]
    else:
        en = unparse(marg)
        stores = []
        built = [(lib.statement_of(marg), marg)]
    key_lists = set()  # locals holding the eligible items when the mapping is built from parallel sequences
    n_alt = 0
    for b, v in built:
        if isinstance(v, ast.Call) and dotted(v.func) == "dict" and len(v.args) == 1 and isinstance(v.args[0], ast.Call) and dotted(v.args[0].func) == "zip" and len(v.args[0].args) == 2:
            n_alt += 1
            if isinstance(v.args[0].args[0], ast.Name):
                key_lists.add(v.args[0].args[0].id)
            ks, kv, kt = lib.iter_source(pk, v.args[0].args[0])
            ws, wv, wt = lib.iter_source(pk, v.args[0].args[1])
            norm = lambda var, tests: sorted(unparse(lib._Rename({var: "$"}).visit(ast.parse(unparse(t), mode="eval").body)) if var else unparse(t) for t in tests)
            same_filter = norm(kv, kt) == norm(wv, wt)
            if not same_filter:
                ctx.finding(
                    R,
                    b,
                    "enabled keys and weights filtered differently",
                    f"pickEnabledInvocable pairs the items `{unparse(v.args[0].args[0])}` (filters {norm(kv, kt)}) with the weights `{unparse(v.args[0].args[1])}` (filters {norm(wv, wt)}) by position: "
                    f"as soon as one item is not eligible, the eligible items after it get an earlier item's weight, so the pick is not proportional to the weights the program gave",
                )
            else:
                ctx.ok(R, b, "items and weights are filtered alike before being paired")
        elif isinstance(v, ast.DictComp) and len(v.generators) == 1:
            n_alt += 1
            g = v.generators[0]
            key = unparse(v.key)
            tests = [unparse(t) for t in g.ifs]
            if f"{key}._isEnabledForAgent({agentp})" in tests and len(tests) == 1:
                ctx.ok(R, b, "the enabled mapping is a comprehension over the eligible items")
            else:
                ctx.finding(R, b, "enabled comprehension filter", f"pickEnabledInvocable builds the enabled set with filters {tests}, not exactly `{key}._isEnabledForAgent({agentp})`")
        else:
            raise AnalysisError(f"shape not recognised: construction `{norm_text(b, 60)}` of the enabled set")
    ctx.floor(R, len(stores) + n_alt, 1 if n_alt else 2, "insertions into the enabled set")
    for s in stores:
        key = unparse(s.targets[0].slice)
        guards = [unparse(t) for t, p in lib.guard_tests(s, pk) if p]
        loop = next((a for a in ancestors(s) if isinstance(a, ast.For)), None)
        enabled_guard = f"{key}._isEnabledForAgent({agentp})" in guards
        weight_ok = False
        if loop is not None:
            if isinstance(loop.target, ast.Tuple) and isinstance(loop.iter, ast.Call) and unparse(loop.iter).endswith(".items()"):
                k, w = (unparse(e) for e in loop.target.elts)
                weight_ok = key == k and unparse(s.value) == w
            elif isinstance(loop.target, ast.Name):
                weight_ok = key == loop.target.id and lib.const(s.value) == 1
        if enabled_guard and weight_ok:
            ctx.ok(R, s, f"`{unparse(s)}` only for an enabled item, with its own weight")
        else:
            ctx.finding(
                R,
                s,
                f"enabled insertion {norm_text(s, 50)}",
                f"pickEnabledInvocable: `{unparse(s)}` (guards {guards}) does not insert exactly the items whose preconditions hold with the weight the "
                f"program gave them: the choice probabilities differ from weight / sum of eligible weights",
            )
    # eligibility is evaluated at every pick: each `True` answer of _isEnabledForAgent is given only after this call has run the
    # guards (a cached earlier answer keeps an item that is no longer eligible among the candidates)
    ie = model.func(IV, "Invocable._isEnabledForAgent")
    if ie.decorator_list:
        ctx.finding(R, ie, "_isEnabledForAgent decorated", f"_isEnabledForAgent is wrapped by `{unparse(ie.decorator_list[0])}`: eligibility must be evaluated anew at every pick")
    n_true = 0
    for asm, env, ex in lib.enumerate_paths(ie):
        if not (isinstance(ex, ast.Return) and ex.value is not None):
            continue
        v = ex.value
        if isinstance(v, ast.Constant) and v.value is False:
            continue
        n_true += 1
        tr = env.get(lib.TRACE, ())
        ran = any(isinstance(c, ast.Call) and unparse(c.func) in ("self._checkAllPreconditions", "self.checkPreconditions") for st in tr if not isinstance(st, ast.Try) for c in ast.walk(st))
        if ran and isinstance(v, ast.Constant) and v.value is True:
            ctx.ok(R, ex, "`return True` only after the guards were checked in this very call")
        else:
            ctx.finding(
                R,
                ex,
                f"_isEnabledForAgent answers {norm_text(v, 30)} without checking",
                f"_isEnabledForAgent returns `{unparse(v)}` on the path {dict(asm) or '{}'} without having called _checkAllPreconditions in this call: an item that was eligible at an earlier "
                f"pick but no longer is stays a candidate of `do choose` / `do shuffle`, and the simulation is rejected (or the item runs) although its precondition is false",
            )
    ctx.floor(R, n_true, 1, "positive answers of _isEnabledForAgent")
    t = unparse(pk)
    empties = {f"not {x}" for x in {en} | key_lists} | {lib.ctext_of(f"len({x}) == 0") for x in {en} | key_lists}
    empt = [n for n in ast.walk(pk) if isinstance(n, ast.If) and (unparse(n.test) in empties or lib.ctext(n.test) in empties) and any(isinstance(x, ast.Raise) and "RejectSimulationException" in unparse(x) for x in n.body)]
    if empt:
        ctx.ok(R, empt[0], "no eligible item => the simulation is rejected")
    else:
        ctx.finding(R, pk, "deadlock rejection", "pickEnabledInvocable no longer rejects the simulation when no item is eligible")
    opts = [c for c in ast.walk(pk) if isinstance(c, ast.Call) and dotted(c.func) == "Options"]
    if len(opts) == 1 and [unparse(a) for a in opts[0].args] == [en]:
        ctx.ok(R, opts[0], "the pick is drawn from Options(enabled): probability proportional to weight among eligible items")
    else:
        ctx.finding(R, pk, "Options(enabled)", "the pick is no longer Options(enabled)")
    # a single eligible item is taken as it is: Options leaves out entries of weight 0, so Options({item: 0}) would reject the
    # simulation although an item is eligible (the last item of a shuffle may well have weight 0)
    oi = model.func(DI, "Options.__init__")
    drops_zero = any(isinstance(i, ast.If) and lib.holds([(i.test, True)], "prob == 0", "weight == 0", "w == 0", "not prob") and any(isinstance(x, ast.Continue) for x in i.body) for i in ast.walk(oi)) or any(
        isinstance(i, ast.If) and isinstance(i.test, ast.Compare) and len(i.test.ops) == 1 and isinstance(i.test.ops[0], ast.Eq) and lib.const(i.test.comparators[0]) == 0 and any(isinstance(x, ast.Continue) for x in i.body) for i in ast.walk(oi)
    )
    if drops_zero:
        conds_o = lib.guard_tests(optc[0], pk)
        names_ = {en} | key_lists
        if any(lib.holds(conds_o, f"len({x}) != 1", f"len({x}) > 1", f"len({x}) >= 2", f"1 < len({x})") for x in names_):
            ctx.ok(R, optc[0], "Options(...) is built only when several items are eligible; a single one is taken as it is")
        else:
            ctx.finding(
                R,
                optc[0],
                "single eligible item goes through Options",
                "pickEnabledInvocable builds Options(...) also when exactly one item is eligible: Options leaves out entries of weight 0, so a single eligible item of weight 0 (e.g. the last "
                "item left in a `do shuffle`) gives an empty distribution and the simulation is rejected although an item is eligible",
            )
    single = [n for n in ast.walk(pk) if isinstance(n, ast.If) and lib.ctext(n.test) == lib.ctext_of(f"len({en}) == 1")]
    if single and isinstance(lib.core(single[0].body)[0], ast.Assign) and unparse(lib.core(single[0].body)[0].value) == f"list({en})[0]":
        ctx.ok(R, single[0], "a single eligible item is taken deterministically")
    rets = [r for r in lib.returns_of(pk) if r.value is not None]
    picked = set(lib.locals_assigned(pk, lambda v: isinstance(v, ast.Call) and dotted(v.func) == "Options")) | {f"Options({en})"}
    singles = {f"list({x})[0]" for x in {en} | key_lists} | {f"{x}[0]" for x in key_lists} | {f"next(iter({x}))" for x in {en} | key_lists}
    if rets and any(unparse(r.value) in picked for r in rets) and all(unparse(r.value) in picked | singles for r in rets):
        ctx.ok(R, rets[0], "the picked item is returned")
    else:
        ctx.finding(R, pk, "pick return", "pickEnabledInvocable does not return the picked item")


def check_schedule(ctx, R="C19.schedule"):
    ctx.rule(
        R,
        "`choose` invokes exactly one picked item; `shuffle` loops until the pool is empty, each round picking among the remaining items, "
        "removing exactly the picked one and invoking it; the compiler passes schedule='choose'/'shuffle' for exactly DoChoose/DoShuffle",
    )
    model = ctx.model
    fn = model.func(IV, "Invocable._invokeSubBehavior")
    branches = {}
    for n in walk_local(fn):
        if isinstance(n, ast.If) and isinstance(n.test, ast.Compare) and unparse(n.test.left) == "schedule" and isinstance(n.test.comparators[0], ast.Constant):
            branches[n.test.comparators[0].value] = n
    if set(branches) < {"choose", "shuffle"}:
        raise AnalysisError("shape not recognised: schedule branches of _invokeSubBehavior")
    subsp, agentp = fn.args.args[2].arg, fn.args.args[1].arg
    # the picking helper: the nested function that filters by eligibility (however it then draws)
    pickn = [
        f.name
        for f in ast.walk(fn)
        if isinstance(f, ast.FunctionDef)
        and f is not fn
        and any(isinstance(c, ast.Call) and isinstance(c.func, ast.Attribute) and c.func.attr == "_isEnabledForAgent" for c in ast.walk(f))
        and not any(isinstance(y, (ast.Yield, ast.YieldFrom)) for y in ast.walk(f))  # a helper that answers, not the scheduling generator
    ]
    if len(pickn) != 1:
        raise AnalysisError("shape not recognised: the picking helper of _invokeSubBehavior")
    ch = branches["choose"]
    last = lib.core(ch.body)[-1]
    if pickn and unparse(last) == f"{subsp} = ({pickn[0]}({subsp}),)":
        ctx.ok(R, last, "choose: exactly one picked item is invoked")
    else:
        ctx.finding(R, ch, "choose branch", f"`do choose` no longer reduces the candidates to the single picked item (found `{norm_text(last, 60)}`)")
    sh = branches["shuffle"]
    sched = [f for f in ast.walk(sh) if isinstance(f, ast.FunctionDef) and any(isinstance(n, ast.While) for n in f.body)]
    good = False
    subsp, agentp = fn.args.args[2].arg, fn.args.args[1].arg
    if sched and pickn:
        wl = [n for n in sched[0].body if isinstance(n, ast.While)]
        if wl and unparse(wl[0].test) == subsp:
            body = lib.core(wl[0].body)
            if len(body) == 3 and isinstance(body[0], ast.Assign) and isinstance(body[0].targets[0], ast.Name):
                ch_ = body[0].targets[0].id
                good = [unparse(s) for s in body] == [f"{ch_} = {pickn[0]}({subsp})", f"{subsp}.pop({ch_})", f"yield from self._invokeInner({agentp}, ({ch_},))"]
    if good:
        ctx.ok(R, sched[0], "shuffle: while items remain, pick among them, remove the pick, run it")
    else:
        ctx.finding(R, sh, "shuffle loop", "`do shuffle` is no longer `while subs: choice = pick(subs); subs.pop(choice); yield from invoke(choice)`: an item could run twice or never")
    conv = [n for n in ast.walk(sh) if isinstance(n, ast.Assign) and unparse(n.targets[0]) == "subs" and isinstance(n.value, ast.DictComp)]
    if conv and unparse(conv[0].value) == "{item: 1 for item in subs}":
        ctx.ok(R, conv[0], "the sequence form of shuffle gives every item weight 1")
    else:
        ctx.finding(R, sh, "shuffle default weights", "the sequence form of `do shuffle` no longer gives every item weight 1")
    comp = model.module(CO)
    got = {}
    for q, f in comp.functions.items():
        for c in walk_local(f):
            if isinstance(c, ast.Call) and unparse(c.func) == "self.makeDoLike":
                k = lib.kw(c, "schedule")
                if k is not None:
                    got[q.split(".")[-1]] = lib.const(k)
    want = {"visit_DoChoose": "choose", "visit_DoShuffle": "shuffle"}
    if got == want:
        ctx.ok(R, comp.functions["ScenicToPythonTransformer.visit_DoChoose"], "compiler: DoChoose -> schedule='choose', DoShuffle -> schedule='shuffle', nothing else")
    else:
        ctx.finding(R, comp.functions["ScenicToPythonTransformer.makeDoLike"], f"schedule keywords {got}", f"the compiler passes schedule keywords {got}; expected exactly {want}")
    mk = model.func(CO, "ScenicToPythonTransformer.makeDoLike")
    schp = "schedule"
    kws = [c for c in walk_local(mk) if isinstance(c, ast.Call) and dotted(c.func) == "ast.keyword" and c.args and lib.const(c.args[0]) == "schedule"]
    if len(kws) == 1 and len(kws[0].args) == 2 and unparse(kws[0].args[1]) == f"ast.Constant({schp})":
        conds = [(lib.ctext(t), p) for t, p in lib.path_conditions(kws[0], mk)]
        extra = [(t, p) for t, p in conds if not (t == lib.ctext_of(f"{schp} is not None") and p) and not (t == lib.ctext_of(f"{schp} is None") and not p)]
        if extra:
            ctx.finding(
                R,
                kws[0],
                "schedule keyword conditional",
                f"makeDoLike passes schedule=... only when {extra}: for the other `do choose` / `do shuffle` statements the items are started without the eligibility check, so an "
                f"ineligible item is run (and fails its precondition) instead of the simulation being rejected",
            )
        else:
            ctx.ok(R, mk, "makeDoLike forwards the schedule keyword whenever one was given")
    else:
        ctx.finding(R, mk, "makeDoLike schedule", "makeDoLike no longer forwards schedule=... to _invokeSubBehavior")


def check_runtime_sampling(ctx, R="C19.runtime", recording=None):
    ctx.rule(
        R,
        "run-time random values: during a simulation Distribution.__new__ initialises the distribution with the given parameters, samples "
        "it at once from a fresh identity-keyed map (hence independently of earlier draws) unless a replay supplies the value, records the "
        "value on every path, and returns it",
    )
    model = ctx.model
    fn = model.func(DI, "Distribution.__new__")
    # roles -> canonical names, so that the comparison below does not depend on what the locals are called
    d_ = lib.local_from(fn, "super().__new__(cls)", what="new distribution object")
    s_ = lib.local_from(fn, "veneer.simulation()", what="current simulation")
    m_ = lib.local_from(fn, "DefaultIdentityDict()", what="fresh subsample map")
    # the value: whatever local receives <dist>.sample(...) (its argument is checked below, not assumed here)
    v_ = lib.locals_assigned(fn, lambda v: isinstance(v, ast.Call) and unparse(v.func) == f"{d_}.sample")
    if len(v_) != 1:
        raise AnalysisError("shape not recognised: the sampled value of Distribution.__new__")
    ren = {d_: "dist", s_: "sim", m_: "subsamples", v_[0]: "value"}

    def is_sim_test(t):
        return isinstance(t, ast.Call) and (dotted(t.func) or "").endswith("simulationInProgress") and not t.args

    def decide(test, env, asm):
        # paths of a running simulation only
        if is_sim_test(test):
            return True
        if isinstance(test, ast.UnaryOp) and isinstance(test.op, ast.Not) and is_sim_test(test.operand):
            return False
        return None

    if not any(is_sim_test(n) for n in ast.walk(fn)):
        raise AnalysisError("shape not recognised: Distribution.__new__ simulation branch")
    # C19 is about what is drawn (initialised with the given parameters, from a fresh map, at once); that every value is also
    # written to the recording is C18's clause (`recording=True`, rule C18.record)
    if recording is None:
        recording = R.startswith("C18")
    need = ["dist.__init__(*args, **kwargs)", "subsamples = DefaultIdentityDict()"] + (["subsamples[dist] = value", "sim.recordSampledValue(dist, subsamples)"] if recording else []) + ["return value"]
    npaths = 0
    seq_ok = src_ok = rec_ok = True
    where = fn
    for asm, env, ex in lib.enumerate_paths(fn, decide=decide):
        npaths += 1
        tr = [st for st in env.get(lib.TRACE, ()) if not lib.is_inert(st)]
        txt = [lib.subst_names(st, ren) for st in tr]
        pos = [next((k for k, t in enumerate(txt) if t == n_), None) for n_ in need]
        if isinstance(ex, ast.Raise):
            continue  # a rejected call draws nothing
        if None in pos or pos != sorted(pos) or pos[-1] != len(txt) - 1:
            seq_ok = False
            where = ex or fn
        # the value: the replayed one exactly when the replay can continue, else a fresh sample of the distribution itself
        replay = [v for t, v in lib.assumption_atoms(asm) if lib.subst_names(t, ren) == "sim.replayCanContinue()"]
        vals = [t for t in txt if t.startswith("value = ")]
        want = None if not replay else "value = sim.replaySampledValue(dist, subsamples)" if replay[0] else "value = dist.sample(subsamples)"
        if want is None or vals != [want]:
            src_ok = False
            where = ex or fn
        # recorded before returning
        if recording and isinstance(ex, ast.Return) and "sim.recordSampledValue(dist, subsamples)" not in txt:
            rec_ok = False
            where = ex
    if npaths < 2:
        raise AnalysisError("shape not recognised: Distribution.__new__ run-time paths (replay / fresh)")
    if seq_ok:
        ctx.ok(R, fn, "every run-time path: init -> fresh map -> sample or replay -> record -> return")
    else:
        ctx.finding(R, where, "runtime sampling sequence", f"Distribution.__new__ (simulation branch) no longer runs {need} in order on every path of a running simulation")
    if src_ok:
        ctx.ok(R, fn, "the value is sampled from the distribution itself unless a replay supplies it")
    else:
        ctx.finding(R, where, "runtime sample source", "the run-time value is no longer `dist.sample(subsamples)` (or the replayed value exactly when the replay can continue)")
    if not recording:
        pass
    elif rec_ok:
        ctx.ok(R, fn, "every return of the simulation branch comes after recordSampledValue")
    else:
        ctx.finding(R, where, "unrecorded return", "a return in the simulation branch of Distribution.__new__ precedes recordSampledValue: that draw is missing from the replay")



REWIND_CALLS = {"random.setstate", "random.seed", "numpy.random.set_state", "numpy.random.seed"}
RUNTIME_PREFIXES = ("scenic.core.dynamics", "scenic.core.simulators")


def check_rewind(ctx, R="C19.rewind"):
    ctx.rule(
        R,
        "run-time draws are never rewound: the code that executes while a simulation runs (scenic.core.dynamics.*, "
        "scenic.core.simulators) and the sampling path of distributions never restore or reseed the global generators "
        "(random.setstate / seed, numpy.random.set_state / seed); a restore after some draws makes the next draw repeat them, so "
        "it is not independent of the earlier ones (the one legitimate bracket, around requirement checking in Scenario.generate, is "
        "compile-time code and serves as positive control of the matcher)",
    )
    model = ctx.model
    n_ctrl = 0
    bad = []
    for mod in model.modules.values():
        runtime = mod.name.startswith(RUNTIME_PREFIXES) or mod.name == DI
        control = mod.name == "scenic.core.scenarios"
        if not (runtime or control):
            continue
        for c in ast.walk(mod.tree):
            if not isinstance(c, ast.Call):
                continue
            r = model.resolve_expr(mod, c.func)
            if not (isinstance(r, tuple) and r[0] == "ext" and r[1] in REWIND_CALLS):
                continue
            if control:
                n_ctrl += 1
            else:
                bad.append((mod, c, r[1]))
    for mod, c, name in bad:
        ctx.finding(
            R,
            c,
            f"{lib.qualname_of(c)} calls {name}",
            f"{lib.qualname_of(c)} ({mod.path}) calls `{norm_text(c, 50)}` while a simulation runs: after the generator state is put back, the next run-time draw (the pick of "
            f"`do choose` / `do shuffle`, the first distribution created in a behaviour) repeats the values drawn since the state was saved instead of being independent of them",
        )
    if not bad:
        ctx.ok(R, model.module(DI).tree.body[0], "no restore / reseed of the global generators in run-time code")
    ctx.floor(R, n_ctrl, 1, "setstate / set_state calls found in Scenario.generate (positive control)")


def check(ctx):
    # the weighted pick itself is a weighted DiscreteRange (Options -> makeSelector): its population / weights dataflow is C01's
    # rule, a necessary condition here too
    from .c01 import check_weights

    ctx.run(check_weights, R="C19.weights")
    ctx.run(check_rewind)
    ctx.run(check_enabled)
    ctx.run(check_schedule)
    ctx.run(check_runtime_sampling)
