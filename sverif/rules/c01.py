"""C01 -- scenes are drawn from exactly the program's conditional distribution.

Decided (structural necessary conditions of "one draw per value per scene, conditioned on the checked sample"):
  C01.draw      draw-once discipline in every sampleGiven
  C01.sample    Samplable.sample / sampleAll memoise through the identity-keyed map
  C01.loop      rejection-loop shape of Scenario._generateInner
  C01.clone     clone()/resample rebuild with the constructor's own parameters
  C01.weights   weights travel with their options (Options / DiscreteRange)
"""

import ast

from .. import lib, samplable
from ..lib import tri_eval
from ..model import AnalysisError, ancestors, dotted, norm_text, parent, unparse, walk_local

DI = "scenic.core.distributions"
SN = "scenic.core.scenarios"
VE = "scenic.syntax.veneer"

CORE_PREFIXES = ("src/scenic/core/", "src/scenic/syntax/")


def core_classes_with(model, method):
    out = []
    for ci in model.classes.values():
        if method in ci.methods and ci.module.path.startswith(CORE_PREFIXES):
            out.append(ci)
    out.sort(key=lambda c: (c.module.path, c.node.lineno))
    return out


def check_draw_once(ctx, R="C01.draw"):
    ctx.rule(
        R,
        "in every sampleGiven(self, value): (a) no fresh draw (.sample/.sampleAll/.clone/resample) -- values of dependencies come from "
        "the shared map only; (b) a field that the constructor handed to Samplable.__init__ as a dependency (resolved through the "
        "super().__init__ chain) is used only through value[...] (directly, element-wise, or via a StarredDistribution's own dependency); "
        "a raw use would let an unsampled / separately sampled object into the scene",
    )
    model = ctx.model
    classes = core_classes_with(model, "sampleGiven")
    ctx.floor(R, len(classes), 30, "sampleGiven implementations in core")
    nfields = 0
    for ci in classes:
        fn = ci.methods["sampleGiven"]
        if len(fn.args.args) < 2:
            raise AnalysisError(f"shape not recognised: {ci.name}.sampleGiven signature")
        valuename = fn.args.args[1].arg
        df = samplable.dep_fields(model, ci)
        nfields += len(df)
        fresh = samplable.fresh_draws(fn)
        for c in fresh:
            ctx.finding(
                R,
                c,
                f"fresh draw {norm_text(c)}",
                f"{ci.name}.sampleGiven calls `{unparse(c)}`: a dependency is drawn again instead of being read from `{valuename}[...]` "
                f"(one random value would take two values in one scene)",
            )
        bad, _ = samplable.raw_uses(fn, df, valuename)
        for n, d in bad:
            ctx.finding(R, n, f"raw dependency {unparse(n)}", f"{ci.name}.sampleGiven: {d}")
        if not fresh and not bad:
            ctx.ok(R, fn, f"{ci.name}.sampleGiven reads its dependencies {sorted(df)} only through {valuename}[...] and draws nothing twice")
    ctx.floor(R, nfields, 45, "dependency fields resolved through constructor chains")
    # positive control
    src = (
        "class D:\n"
        "    def __init__(self, low):\n        super().__init__(low)\n        self.low = low\n"
        "    def sampleGiven(self, value):\n        return f(self.low) + self.low.sample()\n"
    )
    t = ast.parse(src)
    _link(t)
    fn = t.body[0].body[1]
    b, _ = samplable.raw_uses(fn, {"low"})
    if len(b) < 1 or not samplable.fresh_draws(fn):
        raise AnalysisError("positive control for C01.draw did not fire")


def _link(tree):
    for n in ast.walk(tree):
        for c in ast.iter_child_nodes(n):
            c._parent = n
    tree._parent = None


def check_sample_memo(ctx, R="C01.sample"):
    ctx.rule(
        R,
        "Samplable.sample and sampleAll: every recursive `.sample(` call receives the shared map, is guarded by `x not in subsamples` "
        "for its own receiver and its result is stored under that receiver; sample() returns sampleGiven of the conditioned value on that map",
    )
    model = ctx.model
    for q in ("Samplable.sampleAll", "Samplable.sample"):
        fn = model.func(DI, q)
        calls = [c for c in ast.walk(fn) if isinstance(c, ast.Call) and isinstance(c.func, ast.Attribute) and c.func.attr == "sample"]
        if not calls:
            ctx.finding(R, fn, f"{q} no recursive sample", f"{q} no longer samples its children")
            continue
        for c in calls:
            recv = unparse(c.func.value)
            args = [unparse(a) for a in c.args]
            mapname = args[0] if args else None
            st = lib.statement_of(c)
            stored = (
                isinstance(st, ast.Assign)
                and len(st.targets) == 1
                and isinstance(st.targets[0], ast.Subscript)
                and unparse(st.targets[0].value) == mapname
                and unparse(st.targets[0].slice) == recv
            )
            guards = [unparse(t) for t, pol in lib.guard_tests(c, fn) if pol]
            guarded = f"{recv} not in {mapname}" in guards
            if mapname and stored and guarded:
                ctx.ok(R, c, f"{q}: `{unparse(c)}` memoised under `{recv}` in `{mapname}`")
            else:
                ctx.finding(
                    R,
                    c,
                    f"{q} memo {norm_text(c)}",
                    f"{q}: `{unparse(st)}` is not of the form `if x not in M: M[x] = x.sample(M)` (stored={stored}, guarded={guarded}); "
                    f"a shared random value could be drawn more than once per scene",
                )
    fn = model.func(DI, "Samplable.sample")
    rets = [r for r in lib.returns_of(fn) if r.value is not None]
    if len(rets) == 1 and unparse(rets[0].value) == "self._conditioned.sampleGiven(subsamples)":
        ctx.ok(R, rets[0], "sample() returns the conditioned value's sampleGiven on the shared map")
    else:
        ctx.finding(R, fn, "Samplable.sample return", "Samplable.sample does not return self._conditioned.sampleGiven(subsamples)")
    loops = [n for n in walk_local(fn) if isinstance(n, ast.For)]
    if loops and all(unparse(l.iter) == "self._conditioned._dependencies" for l in loops):
        ctx.ok(R, loops[0], "sample() visits the dependencies of the conditioned value")
    else:
        ctx.finding(R, fn, "Samplable.sample deps", "Samplable.sample does not iterate self._conditioned._dependencies")
    # sampleAll returns the map
    fa = model.func(DI, "Samplable.sampleAll")
    init = [n for n in walk_local(fa) if isinstance(n, ast.Assign) and isinstance(n.value, ast.Call) and dotted(n.value.func) == "DefaultIdentityDict"]
    rets = [r for r in lib.returns_of(fa) if r.value is not None]
    if init and rets and all(unparse(r.value) == unparse(init[0].targets[0]) for r in rets):
        ctx.ok(R, fa, "sampleAll keys samples by identity (DefaultIdentityDict) and returns that map")
    else:
        ctx.finding(R, fa, "sampleAll map", "sampleAll does not build and return one DefaultIdentityDict")


def rejection_loop_shape(ctx, R):
    """Shared by C01.loop and C02.accept."""
    model = ctx.model
    fn = model.func(SN, "Scenario._generateInner")
    whiles = [n for n in fn.body if isinstance(n, ast.While)]
    if len(whiles) != 1:
        raise AnalysisError("shape not recognised: Scenario._generateInner has no single top-level while loop")
    wl = whiles[0]
    t = wl.test
    if not (isinstance(t, ast.Compare) and len(t.ops) == 1 and isinstance(t.ops[0], ast.IsNot) and isinstance(t.left, ast.Name) and lib.const(t.comparators[0]) is None and isinstance(t.comparators[0], ast.Constant)):
        raise AnalysisError(f"shape not recognised: rejection loop test `{unparse(t)}`")
    verdict = t.left.id
    # statements of the loop body in order; find the checker call
    chk = None
    for i, s in enumerate(wl.body):
        if isinstance(s, ast.Assign) and len(s.targets) == 1 and isinstance(s.targets[0], ast.Name) and s.targets[0].id == verdict:
            if isinstance(s.value, ast.Call) and isinstance(s.value.func, ast.Attribute) and s.value.func.attr == "checkRequirements":
                chk = (i, s)
    if chk is None:
        ctx.finding(
            R,
            wl,
            "rejection loop: no top-level checker verdict",
            f"no top-level `{verdict} = <checker>.checkRequirements(...)` in the rejection loop: the loop can end without the sample having been checked",
        )
        return None
    i, s = chk
    if unparse(s.value.func.value) != "self.checker":
        ctx.finding(R, s, "checker receiver", f"verdict comes from `{unparse(s.value.func.value)}`, not self.checker")
    samplevar = unparse(s.value.args[0]) if s.value.args else None
    ok = True
    # after the checker call nothing may reassign the verdict or the sample, nor exit the loop
    for later in wl.body[i + 1 :]:
        for n in ast.walk(later):
            if isinstance(n, ast.Name) and isinstance(n.ctx, ast.Store) and n.id in (verdict, samplevar):
                ok = False
                ctx.finding(R, n, f"reassign {n.id} after check", f"`{n.id}` is reassigned after the checker ran (`{norm_text(lib.statement_of(n))}`): the accepted sample is not the checked one")
            if isinstance(n, (ast.Break, ast.Return)):
                ok = False
                ctx.finding(R, n, "exit after check", "the rejection loop is left after the check by break/return, bypassing the verdict test")
    # every other path to the loop test: `continue` must have a non-None verdict; break/return forbidden
    for n in walk_local(wl):
        if isinstance(n, (ast.Break,)) or (isinstance(n, ast.Return)):
            if n.lineno <= s.lineno:
                ok = False
                ctx.finding(R, n, f"loop exit {norm_text(n)}", f"`{unparse(n)}` leaves the rejection loop without a checker verdict")
        if isinstance(n, ast.Continue):
            blk = _block_of(n)
            prev = [x for x in blk if x.lineno < n.lineno]
            asg = [x for x in prev if isinstance(x, ast.Assign) and any(isinstance(t, ast.Name) and t.id == verdict for t in x.targets)]
            good = False
            if asg:
                v = asg[-1].value
                h = lib.enclosing_handler(n)
                if h is not None and h.name and isinstance(v, ast.Name) and v.id == h.name:
                    good = True
                if isinstance(v, ast.Constant) and v.value is not None:
                    good = True
            if good:
                ctx.ok(R, n, f"`continue` re-enters the loop with a non-None `{verdict}` (the caught rejection)")
            else:
                ok = False
                ctx.finding(R, n, "continue without rejection", f"a `continue` path reaches the loop test without `{verdict}` being set to the rejection: the loop could exit with an unchecked sample")
    # the sample variable: assigned from sampleAll(self.dependencies) in this iteration before the check
    sa = [
        n
        for n in walk_local(wl)
        if isinstance(n, ast.Assign)
        and any(isinstance(t, ast.Name) and t.id == samplevar for t in n.targets)
    ]
    sa_ok = (
        len(sa) == 1
        and sa[0].lineno < s.lineno
        and isinstance(sa[0].value, ast.Call)
        and dotted(sa[0].value.func) in ("Samplable.sampleAll",)
        and [unparse(a) for a in sa[0].value.args] == ["self.dependencies"]
    )
    if sa_ok:
        ctx.ok(R, sa[0], f"`{samplevar}` = Samplable.sampleAll(self.dependencies), once per iteration, before the check")
    else:
        ok = False
        ctx.finding(R, wl, f"sample variable {samplevar}", f"`{samplevar}` is not assigned exactly once per iteration from Samplable.sampleAll(self.dependencies) before the check")
    # after the loop: scene built from the same variable
    after = fn.body[fn.body.index(wl) + 1 :]
    mk = [c for st in after for c in ast.walk(st) if isinstance(c, ast.Call) and isinstance(c.func, ast.Attribute) and c.func.attr == "_makeSceneFromSample"]
    if len(mk) == 1 and [unparse(a) for a in mk[0].args] == [samplevar] and not any(
        isinstance(n, ast.Name) and isinstance(n.ctx, ast.Store) and n.id == samplevar for st in after for n in ast.walk(st)
    ):
        ctx.ok(R, mk[0], f"the scene is assembled from `{samplevar}`, the sample whose verdict was None")
    else:
        ok = False
        ctx.finding(R, fn, "scene from checked sample", f"the scene is not built from the checked sample `{samplevar}`")
    if ok:
        ctx.ok(R, wl, f"loop exits only through `{verdict} is not None` being false, after `{unparse(s)}`")
    return wl, verdict, samplevar, s


def _block_of(stmt):
    p = parent(stmt)
    for field in ("body", "orelse", "finalbody"):
        seq = getattr(p, field, None)
        if isinstance(seq, list) and any(x is stmt for x in seq):
            return seq
    return []


def check_loop(ctx, R="C01.loop"):
    ctx.rule(
        R,
        "Scenario._generateInner: (a) soft-requirement activation is drawn once per call before the loop, one random.random() per "
        "requirement compared with req.prob so that the true branch activates; (b) the sample that becomes the scene is the one the checker "
        "accepted in the same iteration; (c) each iteration increments the attempt counter exactly once and that counter is returned",
    )
    model = ctx.model
    fn = model.func(SN, "Scenario._generateInner")
    res = rejection_loop_shape(ctx, R)
    if res is None:
        return
    wl, verdict, samplevar, chk = res
    # (a) activation
    pre = fn.body[: fn.body.index(wl)]
    act = [s for s in pre if isinstance(s, ast.For) and unparse(s.iter) == "self.userRequirements"]
    in_loop_draw = [c for c in ast.walk(wl) if isinstance(c, ast.Call) and dotted(c.func) in ("random.random",)]
    for c in in_loop_draw:
        ctx.finding(R, c, "activation draw inside loop", "random.random() inside the rejection loop: soft-requirement activation would be redrawn per attempt")
    if len(act) != 1 or not isinstance(act[0].target, ast.Name):
        ctx.finding(R, fn, "activation loop", "no single `for req in self.userRequirements` activation loop before the rejection loop")
    else:
        lp = act[0]
        v = lp.target.id
        draws = [c for c in ast.walk(lp) if isinstance(c, ast.Call) and dotted(c.func) == "random.random"]
        ifs = [s for s in lp.body if isinstance(s, ast.If)]
        good = False
        lbody = lib.core(lp.body)
        if len(draws) == 1 and len(ifs) == 1 and len(lbody) == 1:
            t = ifs[0].test
            if isinstance(t, ast.Compare) and len(t.ops) == 1:
                l, op, r = unparse(t.left), t.ops[0], unparse(t.comparators[0])
                lt = (l == "random.random()" and r == f"{v}.prob" and isinstance(op, (ast.Lt, ast.LtE))) or (
                    r == "random.random()" and l == f"{v}.prob" and isinstance(op, (ast.Gt, ast.GtE))
                )
                gt = (l == "random.random()" and r == f"{v}.prob" and isinstance(op, (ast.Gt, ast.GtE))) or (
                    r == "random.random()" and l == f"{v}.prob" and isinstance(op, (ast.Lt, ast.LtE))
                )
                body = [unparse(x) for x in ifs[0].body]
                orelse = [unparse(x) for x in ifs[0].orelse]
                T, F = [f"{v}.active = True"], [f"{v}.active = False"]
                if (lt and body == T and orelse == F) or (gt and body == F and orelse == T):
                    good = True
        elif len(draws) == 1 and len(lbody) == 1 and isinstance(lbody[0], ast.Assign):
            a = lbody[0]
            if unparse(a.targets[0]) == f"{v}.active" and isinstance(a.value, ast.Compare) and len(a.value.ops) == 1:
                l, op, r = unparse(a.value.left), a.value.ops[0], unparse(a.value.comparators[0])
                good = (l == "random.random()" and r == f"{v}.prob" and isinstance(op, (ast.Lt, ast.LtE))) or (
                    r == "random.random()" and l == f"{v}.prob" and isinstance(op, (ast.Gt, ast.GtE))
                )
        if good:
            ctx.ok(R, lp, "each soft requirement is activated iff one fresh random.random() falls below its prob, once per call")
        else:
            ctx.finding(
                R,
                lp,
                "activation shape",
                "soft-requirement activation is not `active := (random.random() <[=] req.prob)` with exactly one draw per requirement",
            )
    # (c) attempt counter
    rets = [r for r in lib.returns_of(fn) if r.value is not None]
    counter = None
    if len(rets) == 1 and isinstance(rets[0].value, ast.Tuple) and len(rets[0].value.elts) == 2 and isinstance(rets[0].value.elts[1], ast.Name):
        counter = rets[0].value.elts[1].id
    if counter is None:
        ctx.finding(R, fn, "returned attempt count", "the function does not return (scene, <counter variable>)")
        return
    incs = [n for n in ast.walk(wl) if isinstance(n, ast.AugAssign) and isinstance(n.target, ast.Name) and n.target.id == counter]
    others = [
        n
        for n in ast.walk(fn)
        if isinstance(n, ast.Name) and isinstance(n.ctx, ast.Store) and n.id == counter and not isinstance(parent(n), ast.AugAssign)
    ]
    init_ok = len(others) == 1 and isinstance(parent(others[0]), ast.Assign) and lib.const(parent(others[0]).value) == 0 and parent(others[0]) in pre
    top_level = len(incs) == 1 and incs[0] in wl.body and isinstance(incs[0].op, ast.Add) and lib.const(incs[0].value) == 1
    before_conts = top_level and all(n.lineno > incs[0].lineno for n in walk_local(wl) if isinstance(n, ast.Continue))
    # no continue/sampling before the increment
    samp_after = top_level and all(
        c.lineno > incs[0].lineno for c in ast.walk(wl) if isinstance(c, ast.Call) and dotted(c.func) == "Samplable.sampleAll"
    )
    if init_ok and top_level and before_conts and samp_after:
        ctx.ok(R, incs[0], f"`{counter}` starts at 0 and is incremented exactly once per iteration, before sampling; it is the returned attempt count")
    else:
        ctx.finding(
            R,
            wl,
            f"attempt counter {counter}",
            f"`{counter}` is not incremented exactly once per loop iteration before sampling "
            f"(init={init_ok}, single top-level `+= 1`={top_level}, before every continue={before_conts})",
        )
    # the limit test uses the same counter
    lim = [n for n in wl.body if isinstance(n, ast.If) and counter in lib.names_loaded(n.test) and "maxIterations" in lib.names_loaded(n.test)]
    if lim and any(isinstance(x, ast.Raise) for x in lim[0].body) and lim[0].lineno < incs[0].lineno if incs else False:
        t = lim[0].test
        if isinstance(t, ast.Compare) and unparse(t) in (f"{counter} >= maxIterations", f"maxIterations <= {counter}"):
            ctx.ok(R, lim[0], "the iteration limit rejects exactly when maxIterations attempts were made")
        else:
            ctx.finding(R, lim[0], "iteration limit test", f"iteration limit test `{unparse(t)}` is not `{counter} >= maxIterations` before the increment")
    else:
        ctx.finding(R, wl, "iteration limit", "no `if iterations >= maxIterations: raise` before the increment")


derived_fields = samplable.derived_fields


def check_clone(ctx, R="C01.clone"):
    ctx.rule(
        R,
        "every clone() returns type(self)(...) whose arguments bind to the class's own __init__ and each argument reads only fields "
        "that the constructor derives from the parameter it is bound to (same parameters => same distribution, fresh object); "
        "veneer.resample returns dist.clone() for distributions and the argument itself otherwise",
    )
    model = ctx.model
    classes = [c for c in core_classes_with(model, "clone") if c.name != "Distribution"]
    ctx.floor(R, len(classes), 6, "clone() implementations")
    for ci in classes:
        fn = ci.methods["clone"]
        rets = [r for r in lib.returns_of(fn) if r.value is not None]
        for r in rets:
            call = r.value
            if not (isinstance(call, ast.Call) and unparse(call.func) in ("type(self)", "self.__class__", ci.name)):
                ctx.finding(R, r, f"{ci.name}.clone shape", f"{ci.name}.clone returns `{norm_text(r.value)}`, not a fresh type(self)(...) instance")
                continue
            dmap, init = derived_fields(model, ci)
            if init is None:
                raise AnalysisError(f"{ci.name} has no __init__")
            err = lib.bind_error(call, init, bound=True)
            if err:
                ctx.finding(R, call, f"{ci.name}.clone binding", f"{ci.name}.clone: `{unparse(call)}` does not bind to __init__: {err}")
                continue
            sig = lib.signature(init, bound=True)
            bound = list(zip(sig["pos"], call.args)) + [(k.arg, k.value) for k in call.keywords if k.arg]
            good = True
            required = set(sig["required"])
            for p, a in bound:
                fields = {n.attr for n in ast.walk(a) if isinstance(n, ast.Attribute) and isinstance(n.value, ast.Name) and n.value.id == "self"}
                if not fields:
                    good = False
                    ctx.finding(R, a, f"{ci.name}.clone arg {p}", f"{ci.name}.clone passes `{unparse(a)}` for `{p}`: not one of the object's own parameters")
                    continue
                wrong = {f for f in fields if f not in dmap.get(p, set()) and f != p}
                if wrong:
                    good = False
                    ctx.finding(
                        R,
                        a,
                        f"{ci.name}.clone arg {p}",
                        f"{ci.name}.clone passes `{unparse(a)}` for parameter `{p}`, but the constructor stores `{p}` in {sorted(dmap.get(p, set()))}: "
                        f"the clone has different parameters than the original",
                    )
            # parameters with defaults that the constructor stores must be forwarded too
            given = {p for p, _ in bound}
            for p in sig["pos"]:
                if p not in given and dmap.get(p):
                    good = False
                    ctx.finding(R, call, f"{ci.name}.clone omits {p}", f"{ci.name}.clone does not forward parameter `{p}` (stored in {sorted(dmap[p])}); the clone falls back to the default")
            if good:
                ctx.ok(R, call, f"{ci.name}.clone rebuilds with parameters {[p for p, _ in bound]} from their own fields")
    fn = model.func(VE, "resample")
    rets = [r for r in lib.returns_of(fn) if r.value is not None]
    arg = fn.args.args[0].arg
    ok_clone = any(unparse(r.value) == f"{arg}.clone()" for r in rets)
    other = [r for r in rets if unparse(r.value) not in (f"{arg}.clone()", arg)]
    ident = [r for r in rets if unparse(r.value) == arg]
    ident_ok = all(any(unparse(t) == f"not isinstance({arg}, Distribution)" and pol for t, pol in lib.guard_tests(r, fn)) for r in ident)
    if ok_clone and not other and ident_ok:
        ctx.ok(R, fn, "resample(dist) = dist.clone() for distributions, identity otherwise")
    else:
        ctx.finding(R, fn, "resample shape", "veneer.resample does not return dist.clone() for every Distribution argument")


def check_weights(ctx, R="C01.weights"):
    ctx.rule(
        R,
        "Options.__init__ drops a zero-weight option together with its weight (option and weight appended under the same guards, in the "
        "same loop), hands `len(options) - 1` and the weights to the selector; DiscreteRange keeps cumulativeWeights = accumulate(weights) over "
        "the tuple whose length was checked against high - low + 1 and samples `options` with exactly those cumulative weights",
    )
    model = ctx.model
    fn = model.func(DI, "Options.__init__")
    loops = [n for n in walk_local(fn) if isinstance(n, ast.For) and isinstance(n.iter, ast.Call) and isinstance(n.iter.func, ast.Attribute) and n.iter.func.attr == "items"]
    if len(loops) != 1 or not (isinstance(loops[0].target, ast.Tuple) and len(loops[0].target.elts) == 2):
        raise AnalysisError("shape not recognised: Options.__init__ weight loop")
    lp = loops[0]
    optv, wv = (e.id for e in lp.target.elts)
    apps = [c for c in ast.walk(lp) if isinstance(c, ast.Call) and isinstance(c.func, ast.Attribute) and c.func.attr == "append" and len(c.args) == 1]
    oa = [c for c in apps if unparse(c.args[0]) == optv]
    wa = [c for c in apps if unparse(c.args[0]) == wv]
    if len(oa) == 1 and len(wa) == 1 and len(apps) == 2:
        g1 = [(unparse(t), p) for t, p in lib.guard_tests(oa[0], lp)] + [unparse(t) for t in lib.prior_exit_guards(lib.statement_of(oa[0]), lp)]
        g2 = [(unparse(t), p) for t, p in lib.guard_tests(wa[0], lp)] + [unparse(t) for t in lib.prior_exit_guards(lib.statement_of(wa[0]), lp)]
        # statements between the two appends must not exit
        s1, s2 = lib.statement_of(oa[0]), lib.statement_of(wa[0])
        blk = _block_of(s1)
        adjacent = s2 in blk and abs(blk.index(s1) - blk.index(s2)) == 1
        if g1 == g2 and adjacent:
            ctx.ok(R, lp, f"option and weight are appended together under the same guards {g1}")
        else:
            ctx.finding(R, lp, "Options weight alignment", f"option and weight are appended under different conditions ({g1} vs {g2}): weights shift relative to options")
        olist, wlist = unparse(oa[0].func.value), unparse(wa[0].func.value)
        sel = [c for c in ast.walk(fn) if isinstance(c, ast.Call) and isinstance(c.func, ast.Attribute) and c.func.attr == "makeSelector"]
        sup = samplable._super_init_calls(fn)
        from ..linform import equal, lin, lin_src

        sel_ok = (
            len(sel) == 1
            and len(sel[0].args) == 2
            and equal(lin(sel[0].args[0]), lin_src(f"len({olist}) - 1"))
            and unparse(sel[0].args[1]) == wlist
        )
        sup_ok = len(sup) == 1 and len(sup[0].args) == 2 and unparse(sup[0].args[1]) == olist
        if sel_ok and sup_ok:
            ctx.ok(R, sel[0], "selector ranges over 0..len(options)-1 with the aligned weights; the multiplexer receives the same option list")
        else:
            ctx.finding(
                R,
                fn,
                "Options selector",
                f"Options.__init__ does not build its selector over 0..len({olist})-1 with `{wlist}` and hand `{olist}` to the multiplexer (selector ok={sel_ok}, options ok={sup_ok})",
            )
    else:
        ctx.finding(R, lp, "Options weight alignment", "Options.__init__ no longer appends exactly one option and one weight per kept entry")
    ms = model.func(DI, "Options.makeSelector")
    rets = [r for r in lib.returns_of(ms) if r.value is not None]
    pn = [a.arg for a in ms.args.args]
    good = False
    if len(rets) == 1 and isinstance(rets[0].value, ast.Call) and dotted(rets[0].value.func) == "DiscreteRange" and len(pn) >= 2:
        c = rets[0].value
        di_init = model.func(DI, "DiscreteRange.__init__")
        names = lib.signature(di_init, bound=True)["pos"]
        bound = dict(zip(names, c.args))
        bound.update({k.arg: k.value for k in c.keywords if k.arg})
        good = (
            lib.const(bound.get("low")) == 0
            and isinstance(bound.get("high"), ast.Name)
            and bound["high"].id == pn[-2]
            and isinstance(bound.get("weights"), ast.Name)
            and bound["weights"].id == pn[-1]
        )
    if good:
        ctx.ok(R, ms, "makeSelector(n, weights) = DiscreteRange(0, n, weights)")
    else:
        ctx.finding(R, ms, "makeSelector", "Options.makeSelector(n, weights) is not DiscreteRange(low=0, high=n, weights=weights)")
    # Multiplexer picks options[idx] with idx = value[index]
    mg = model.func(DI, "MultiplexerDistribution.sampleGiven")
    rets = [r for r in lib.returns_of(mg) if r.value is not None]
    env = {}
    for n in walk_local(mg):
        if isinstance(n, ast.Assign) and len(n.targets) == 1 and isinstance(n.targets[0], ast.Name):
            env[n.targets[0].id] = n.value
    def subst(e):
        t = unparse(e)
        for _ in range(3):
            for k, v in env.items():
                t = unparse(lib._Rename({k: f"({unparse(v)})"}).visit(ast.parse(t, mode="eval").body)) if k in lib.names_in(ast.parse(t, mode="eval")) else t
        return unparse(ast.parse(t, mode="eval").body)
    if len(rets) == 1 and subst(rets[0].value) == "value[self.options[value[self.index]]]":
        ctx.ok(R, mg, "the multiplexer returns the sampled value of options[value[index]]")
    else:
        ctx.finding(R, mg, "Multiplexer selection", "MultiplexerDistribution.sampleGiven does not return value[self.options[value[self.index]]]")
    # DiscreteRange: dataflow from the constructor to the weighted draw
    di = model.func(DI, "DiscreteRange.__init__")
    dg = model.func(DI, "DiscreteRange.sampleGiven")
    ch = [c for c in ast.walk(dg) if isinstance(c, ast.Call) and dotted(c.func) == "random.choices"]
    if len(ch) != 1:
        ctx.finding(R, dg, "DiscreteRange weighted draw", "weighted DiscreteRange no longer draws with a single random.choices call")
    else:
        c = ch[0]
        pop = c.args[0] if c.args else lib.kw(c, "population")
        cw, w = lib.kw(c, "cum_weights"), lib.kw(c, "weights") or (c.args[1] if len(c.args) > 1 else None)
        def field(e):
            return e.attr if isinstance(e, ast.Attribute) and isinstance(e.value, ast.Name) and e.value.id == "self" else None
        pf, wf = field(pop), field(cw if cw is not None else w)
        facts = lib.init_facts(model, model.cls(DI, "DiscreteRange"))
        def strip(e):
            e = lib.role_expr(di, e)  # locals of the constructor replaced by their definitions (parameters are kept)
            while isinstance(e, ast.Call) and dotted(e.func) in ("tuple", "list") and len(e.args) == 1:
                e = e.args[0]
            return e
        okp = okw = False
        why = []
        for v in facts["field_of"].get(pf, []):
            v = strip(v)
            if isinstance(v, ast.Call) and dotted(v.func) == "range" and len(v.args) == 2:
                span = lin(ast.BinOp(left=v.args[1], op=ast.Sub(), right=v.args[0]))
                if equal(span, lin_src("high - low + 1")) and unparse(v.args[0]) == "low":
                    okp = True
        wparam = None
        for v in facts["field_of"].get(wf, []):
            v = strip(v)
            if cw is not None and isinstance(v, ast.Call) and dotted(v.func) in ("itertools.accumulate", "accumulate") and len(v.args) == 1 and isinstance(v.args[0], ast.Name):
                okw, wparam = True, v.args[0].id
            if cw is None and isinstance(v, ast.Name):
                okw, wparam = True, v.id
        lens = [s for s in ast.walk(di) if isinstance(s, ast.If) and wparam and f"len({wparam})" in unparse(s.test)]
        okl = False
        for s in lens:
            t = s.test
            if isinstance(t, ast.Compare) and len(t.ops) == 1 and isinstance(t.ops[0], ast.NotEq) and any(isinstance(x, ast.Raise) for x in s.body):
                sides = [t.left, t.comparators[0]]
                other = [x for x in sides if unparse(x) != f"len({wparam})"]
                if len(other) == 1 and equal(lin(other[0]), lin_src("high - low + 1")):
                    okl = True
        if pf and wf and okp and okw and okl:
            ctx.ok(R, c, f"weighted draw: population self.{pf} = low..high inclusive, weights self.{wf} derive from the constructor's `{wparam}` whose length is checked against high - low + 1")
        else:
            ctx.finding(
                R,
                c,
                "DiscreteRange weighted draw",
                f"weighted DiscreteRange: population/weights are not the constructor's aligned data (population low..high ok={okp}, weights dataflow ok={okw}, length check ok={okl})",
            )
    ri = [c for c in ast.walk(dg) if isinstance(c, ast.Call) and dotted(c.func) == "random.randint"]
    env = {}
    for n in walk_local(dg):
        if isinstance(n, ast.Assign) and len(n.targets) == 1:
            t, v = n.targets[0], n.value
            if isinstance(t, ast.Tuple) and isinstance(v, ast.Tuple) and len(t.elts) == len(v.elts):
                for a, b in zip(t.elts, v.elts):
                    if isinstance(a, ast.Name):
                        env[a.id] = b
            elif isinstance(t, ast.Name):
                env[t.id] = v
    def res(e):
        return unparse(env[e.id]) if isinstance(e, ast.Name) and e.id in env else unparse(e)
    if len(ri) == 1 and len(ri[0].args) == 2 and [res(a) for a in ri[0].args] == ["math.ceil(value[self.low])", "math.floor(value[self.high])"]:
        ctx.ok(R, ri[0], "unweighted draw is randint(ceil(low), floor(high)) on the sampled bounds (inclusive both ends)")
    else:
        ctx.finding(R, dg, "DiscreteRange unweighted draw", "unweighted DiscreteRange does not draw random.randint(ceil(value[low]), floor(value[high]))")



def check_soft_probability(ctx, R="C01.soft"):
    ctx.rule(
        R,
        "the probability of a soft requirement reaches the run-time: the compiler's visit_Require passes `prob` on whenever the "
        "statement has one -- the test is `is not None`, not truthiness: `require[0] C` has probability 0 (never enforced), which a "
        "truthiness test would turn into a hard requirement",
    )
    model = ctx.model
    fn = model.func("scenic.syntax.compiler", "ScenicToPythonTransformer.visit_Require")
    npar = fn.args.args[1].arg
    sites = []
    for x in walk_local(fn):
        if isinstance(x, ast.Dict) and any(isinstance(k, ast.Constant) and k.value == "prob" for k in x.keys):
            sites.append(x)
        if isinstance(x, ast.Assign) and any(isinstance(t, ast.Subscript) and lib.const(t.slice) == "prob" for t in x.targets):
            sites.append(x)
        if isinstance(x, ast.keyword) and x.arg == "prob":
            sites.append(x.value)
    if not sites:
        raise AnalysisError("shape not recognised: where visit_Require passes the probability on")
    probs = {npar + ".prob"} | set(lib.locals_assigned(fn, lambda v: unparse(v) == f"{npar}.prob"))
    for site in sites:
        conds = lib.flatten_conditions(lib.guard_tests(site, fn))
        given = any(lib.holds(conds, f"{p} is not None") for p in probs)
        truthy = [unparse(t) for t, pol in conds if pol and unparse(t) in probs]
        if given and not truthy:
            ctx.ok(R, site, "`prob` is passed on exactly when the statement gives one (`is not None`)")
        else:
            ctx.finding(
                R,
                site,
                "soft-requirement probability passed on by truthiness",
                f"visit_Require passes the probability on under {[('' if pol else 'not ') + unparse(t) for t, pol in conds] or 'no condition'}, not under `{npar}.prob is not None`: "
                f"`require[0] C` (probability 0: never enforced) is compiled like a hard `require C`, so scenes violating C are no longer generated",
            )


def check(ctx):
    ctx.run(check_soft_probability)
    ctx.run(check_draw_once)
    ctx.run(check_sample_memo)
    ctx.run(check_loop)
    ctx.run(check_clone)
    ctx.run(check_weights)
    # the lifted operators are part of the prior: an operator shortcut that is not an identity, or an operand that is not
    # lifted, changes the distribution of every scene using it (rules shared with C05, reported under this property)
    from .c05 import check_containers, check_lifting, check_shortcuts

    ctx.run(check_shortcuts, R="C01.shortcut")
    ctx.run(check_lifting, R="C01.lift")
    ctx.run(check_containers, R="C01.containers")
