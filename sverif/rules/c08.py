"""C08 -- pruning never changes which scenes can be generated (structural necessary conditions)."""

import ast

from .. import lib
from ..linform import lin
from ..model import AnalysisError, ancestors, dotted, norm_text, parent, unparse, walk_local
from .c05 import _none_guarded

PR = "scenic.core.pruning"
RL = "scenic.syntax.relations"
RG = "scenic.core.regions"

ALL_CMPOPS = {"Eq", "NotEq", "Lt", "LtE", "Gt", "GtE", "Is", "IsNot", "In", "NotIn"}


# ----------------------------------------------------------------------
# 1. comparison-operator exhaustiveness of the bound extractor


def _refine(test, S, consts):
    """(S if test true, S if test false) for tests over isinstance(op, T)."""
    if isinstance(test, ast.UnaryOp) and isinstance(test.op, ast.Not):
        a, b = _refine(test.operand, S, consts)
        return b, a
    if isinstance(test, ast.Call) and dotted(test.func) == "isinstance" and len(test.args) == 2 and unparse(test.args[0]) == "op":
        t = test.args[1]
        names = {unparse(e) for e in t.elts} if isinstance(t, ast.Tuple) else {unparse(t)}
        names = {n.split(".")[-1] for n in names}
        return S & names, S - names
    if isinstance(test, ast.BoolOp) and isinstance(test.op, ast.And):
        pos = set(S)
        for v in test.values:
            pos, _ = _refine(v, pos, consts)
        # false when any conjunct is false: union of (previous conjuncts true, this one false)
        neg, cur = set(), set(S)
        for v in test.values:
            p, n = _refine(v, cur, consts)
            neg |= n
            cur = p
        return pos, neg
    if isinstance(test, ast.BoolOp) and isinstance(test.op, ast.Or):
        neg = set(S)
        for v in test.values:
            _, neg = _refine(v, neg, consts)
        pos, cur = set(), set(S)
        for v in test.values:
            p, n = _refine(v, cur, consts)
            pos |= p
            cur = n
        return pos, neg
    if isinstance(test, ast.Name) and test.id in consts:
        return (S, set()) if consts[test.id] else (set(), S)
    return set(S), set(S)


def _bound_returns(model, fn, S, consts, depth=0, out=None):
    """Walk fn with the set S of comparison operators still possible; collect (node, S, kind) for every
    return that yields a bound.  kind: 'point' (low == high == const), 'one', 'two'."""
    out = [] if out is None else out
    cls_methods = {}

    def ret(value, S, node):
        if value is None:
            return
        if isinstance(value, ast.IfExp):
            p, n = _refine(value.test, S, consts)
            ret(value.body, p, node)
            ret(value.orelse, n, node)
            return
        if isinstance(value, ast.Tuple) and len(value.elts) == 3:
            lo, hi = value.elts[0], value.elts[1]
            none = lambda e: isinstance(e, ast.Constant) and e.value is None
            if none(lo) and none(hi):
                return
            kind = "point" if unparse(lo) == unparse(hi) else ("one" if none(lo) or none(hi) else "two")
            if S:
                out.append((value, set(S), kind, node))
            return
        if isinstance(value, ast.Call) and isinstance(value.func, ast.Attribute) and value.func.attr in ("matchBoundsInner", "matchAbsBounds") and depth < 3:
            callee = model.func(RL, f"RequirementMatcher.{value.func.attr}")
            params = [a.arg for a in callee.args.args][1:]
            b = dict(zip(params, value.args))
            opa = b.get("op")
            S2 = set(S)
            if isinstance(opa, ast.Call):
                S2 = {unparse(opa.func).split(".")[-1]}
            c2 = {}
            for k, v in b.items():
                if isinstance(v, ast.Constant) and isinstance(v.value, bool):
                    c2[k] = v.value
            if value.func.attr == "matchBoundsInner" and isinstance(opa, ast.Call):
                # reduction of > / >= : handled by analysing the callee from its own entry below
                return
            _bound_returns(model, callee, S2, c2, depth + 1, out)
            return
        if isinstance(value, ast.Name):
            # result of a helper call stored in a local: nearest preceding definition
            defs = [
                n
                for n in ast.walk(fn)
                if isinstance(n, ast.Assign) and any(isinstance(t_, ast.Name) and t_.id == value.id for t_ in n.targets) and n.lineno < node.lineno
            ]
            if defs:
                ret(max(defs, key=lambda n: n.lineno).value, S, node)

    def run(stmts, S):
        for s in stmts:
            if not S:
                return S
            if isinstance(s, ast.Return):
                ret(s.value, S, s)
                return set()
            if isinstance(s, ast.If):
                p, n = _refine(s.test, S, consts)
                rp = run(s.body, p)
                rn = run(s.orelse, n)
                S = rp | rn
            elif isinstance(s, ast.Raise):
                return set()
            elif isinstance(s, (ast.For, ast.While, ast.With, ast.Try)):
                raise AnalysisError(f"shape not recognised: `{norm_text(s, 40)}` in {fn.name}")
        return S

    run(fn.body, set(S))
    return out


def check_cmpops(ctx, R="C08.cmpop"):
    ctx.rule(
        R,
        "comparison-operator exhaustiveness of RequirementMatcher.matchBoundsInner / matchAbsBounds: the set of ast comparison operators "
        "that can reach each return of a bound is propagated through the isinstance(op, ·) tests (abstract interpretation over the 10 "
        "ast.cmpop classes); a one-sided or interval bound may be returned only for Lt/LtE/Eq, a point bound only for Eq; != / is / is not / "
        "in / not in must yield no bound",
    )
    model = ctx.model
    fn = model.func(RL, "RequirementMatcher.matchBoundsInner")
    res = _bound_returns(model, fn, set(ALL_CMPOPS), {})
    ctx.floor(R, len(res), 4, "bound-returning paths of the matcher")
    for value, S, kind, node in res:
        allowed = {"Eq"} if kind == "point" else {"Lt", "LtE", "Eq"}
        extra = sorted(S - allowed)
        q = lib.qualname_of(node) if hasattr(lib, "qualname_of") else ""
        if extra:
            ctx.finding(
                R,
                node,
                f"bound {kind} `{norm_text(value, 50)}` for ops {extra}",
                f"the matcher returns the {kind}-sided bound `{unparse(value)}` also when the comparison operator is {extra}: e.g. `x != c` / `x is c` / "
                f"`x in c` are read as `x < c`, so pruning removes scenes that satisfy the requirement",
            )
        else:
            ctx.ok(R, node, f"`{norm_text(value, 50)}` ({kind}) is returned only for {sorted(S)}")
    # the Gt/GtE reduction swaps the operands
    swaps = [
        r
        for r in lib.returns_of(fn)
        if isinstance(r.value, ast.Call) and isinstance(r.value.func, ast.Attribute) and r.value.func.attr == "matchBoundsInner"
    ]
    params = [a.arg for a in fn.args.args][1:]
    good = 0
    for r in swaps:
        g = [unparse(t) for t, p in lib.guard_tests(r, fn) if p]
        a = [unparse(x) for x in r.value.args]
        if g == ["isinstance(op, Gt)"] and a[:3] == [params[1], params[0], "Lt()"]:
            good += 1
        elif g == ["isinstance(op, GtE)"] and a[:3] == [params[1], params[0], "LtE()"]:
            good += 1
        else:
            ctx.finding(R, r, f"reduction {norm_text(r, 60)}", f"`{unparse(r)}` under {g}: `a > b` must be reduced to `b < a` (operands swapped, strictness kept)")
    if good == 2:
        ctx.ok(R, fn, "`a > b` / `a >= b` are reduced to `b < a` / `b <= a`")
    elif not swaps:
        ctx.note("matchBoundsInner has no Gt/GtE reduction (then > and >= simply yield no bound)")
    # abs-bound algebra:  |q + c| <= C  =>  (-C - c, C - c);  |q - c| <= C  =>  (-C + c, C + c)
    ab = model.func(RL, "RequirementMatcher.matchAbsBounds")
    from ..linform import equal, lin_src

    n_alg = 0
    cpar = ab.args.args[2].arg  # the constant C of `abs(..) <= C`
    inner = set(lib.locals_assigned(ab, lambda v: unparse(v).endswith(".args[0]")))  # the argument of abs(.)

    def _is_add_text(t):
        return any(t == f"isinstance({a}.op, Add)" for a in inner)

    # every path that returns a bound is evaluated symbolically (locals substituted, conditional expressions split) for each
    # operator it can be reached with; |q + c| <= C gives (-C - c, C - c), |q - c| <= C and |c - q| <= C give (-C + c, C + c)
    for asm, env, ex in lib.enumerate_paths(ab):
        if not (isinstance(ex, ast.Return) and isinstance(ex.value, ast.Tuple) and len(ex.value.elts) == 3):
            continue
        addasm = [v for k, v in asm.items() if _is_add_text(k)]
        ops = [addasm[0]] if addasm else [True, False]
        try:
            lo, hi = lin(ex.value.elts[0], env), lin(ex.value.elts[1], env)
        except RecursionError:
            raise AnalysisError("shape not recognised: matchAbsBounds bound expressions")
        others = sorted((set(lo) | set(hi)) - {cpar})
        n_alg += 1
        if not others:
            if lo.get(cpar) == -1 and hi.get(cpar) == 1 and len(lo) == 1 and len(hi) == 1:
                ctx.ok(R, ex, f"abs bound `{unparse(ex.value)}` has the form (-C, C)")
            else:
                ctx.finding(R, ex, "abs bound algebra (-C, C)", f"matchAbsBounds returns `{unparse(ex.value)}`; |q| <= C requires (-C, C)")
            continue
        for is_add in ops:
            sign = -1 if is_add else 1
            shape = "(-C - c, C - c)" if is_add else "(-C + c, C + c)"
            good = lo.get(cpar) == -1 and hi.get(cpar) == 1 and len(others) == 1 and others[0] != "" and lo.get(others[0]) == sign and hi.get(others[0]) == sign
            if good:
                ctx.ok(R, ex, f"abs bound for {'+' if is_add else '-'}: {shape}")
            else:
                from ..linform import fmt

                ctx.finding(
                    R,
                    ex,
                    f"abs bound algebra {shape}",
                    f"matchAbsBounds: on the path {asm or '{}'} the bound is ({fmt(lo)}, {fmt(hi)}) also when the operator inside abs() is "
                    f"{'+' if is_add else '-'}; |q {'+' if is_add else '-'} c| <= C (and |c {'+' if is_add else '-'} q| <= C) requires {shape}",
                )
    ctx.floor(R, n_alg, 3, "abs-bound returns")
    # a matcher that reads a call as f(<one operand>) must refuse calls carrying more operands: the compiler passes the second
    # operand of `relative heading of X from Y` / `distance from X to Y` as a keyword
    from ..compiler_ir import emitted_calls

    mu = model.func(RL, "RequirementMatcher.matchUnaryFunction")
    nodep = mu.args.args[2].arg
    kw_emitted = set()
    try:
        for name, info in emitted_calls(model).items():
            if any(info.get("keywords", [])) if isinstance(info, dict) else False:
                kw_emitted.add(name)
    except Exception:
        kw_emitted = set()
    # every answer other than None is given only for a call with exactly one positional and no keyword operand
    answers_ = [r for r in lib.returns_of(mu) if r.value is not None and not (isinstance(r.value, ast.Constant) and r.value.value is None)]
    if not answers_:
        raise AnalysisError("shape not recognised: matchUnaryFunction has no positive answer")
    K, A = f"{nodep}.keywords", f"{nodep}.args"
    rejects_kw = all(lib.holds(lib.guard_tests(r, mu), f"len({K}) == 0", f"not {K}", f"len({K}) < 1", f"{K} == []") for r in answers_)
    rejects_args = all(lib.holds(lib.guard_tests(r, mu), f"len({A}) == 1") for r in answers_)
    if rejects_kw and rejects_args:
        ctx.ok(R, mu, "matchUnaryFunction refuses calls with another positional or any keyword operand")
    else:
        ctx.finding(
            R,
            mu,
            "matchUnaryFunction accepts calls with further operands",
            f"RequirementMatcher.matchUnaryFunction no longer returns None for a call with {'keyword arguments' if not rejects_kw else 'more than one positional argument'}: the compiler emits the two-operand forms as "
            f"`RelativeHeading(X, Y=Y)` / `DistanceFrom(X, Y=Y)`, so `relative heading of X from Y` is read as a bound relative to the ego and feasible scenes are pruned away",
        )
    # merging keeps the tightest bounds
    mb = model.func(RL, "RequirementMatcher.matchBounds")
    # roles: (lower, upper, target) unpacked from matchBoundsInner(..); (bestLower, bestUpper) unpacked from the table
    inner_u = [n for n in walk_local(mb) if isinstance(n, ast.Assign) and isinstance(n.targets[0], ast.Tuple) and len(n.targets[0].elts) == 3 and isinstance(n.value, ast.Call) and unparse(n.value.func).endswith("matchBoundsInner")]
    best_u = [n for n in walk_local(mb) if isinstance(n, ast.Assign) and isinstance(n.targets[0], ast.Tuple) and len(n.targets[0].elts) == 2 and isinstance(n.value, ast.Subscript)]
    merged = False
    if len(inner_u) == 1 and len(best_u) == 1 and all(isinstance(e, ast.Name) for e in inner_u[0].targets[0].elts + best_u[0].targets[0].elts):
        lo_, hi_, _t = (e.id for e in inner_u[0].targets[0].elts)
        bl, bh = (e.id for e in best_u[0].targets[0].elts)
        upd = {}
        for n in walk_local(mb):
            if isinstance(n, ast.If) and len(n.body) == 1 and isinstance(n.body[0], ast.Assign) and isinstance(n.body[0].targets[0], ast.Name):
                upd[(n.body[0].targets[0].id, unparse(n.body[0].value))] = lib.ctext(n.test)
        t1 = upd.get((bl, lo_), "")
        t2 = upd.get((bh, hi_), "")
        merged = lib.ctext_of(f"{lo_} > {bl}") in t1 and f"{lo_} is not None" in t1 and lib.ctext_of(f"{hi_} < {bh}") in t2 and f"{hi_} is not None" in t2
    if merged:
        ctx.ok(R, mb, "chained comparisons keep the greatest lower and the least upper bound")
    else:
        ctx.finding(R, mb, "matchBounds merge", "matchBounds no longer keeps the greatest lower / least upper bound of a chained comparison")


# ----------------------------------------------------------------------
# 2. bound polarity


def _tags(fn):
    """{name: 'LOWER'|'UPPER'} from `a, b = supportInterval(...)` unpackings."""
    tags = {}
    for n in walk_local(fn):
        if isinstance(n, ast.Assign) and isinstance(n.targets[0], ast.Tuple) and len(n.targets[0].elts) == 2 and isinstance(n.value, ast.Call) and dotted(n.value.func) == "supportInterval":
            lo, hi = n.targets[0].elts
            for e, tg in ((lo, "LOWER"), (hi, "UPPER")):
                if isinstance(e, ast.Name) and e.id != "_":
                    if tags.get(e.id, tg) != tg:
                        tags[e.id] = "MIXED"
                    else:
                        tags[e.id] = tg
    return tags


def _terms(e, fn, depth=0):
    """[(sign, atom expr)] of an additive expression, following single-assignment locals and walrus."""
    if isinstance(e, ast.NamedExpr):
        return _terms(e.value, fn, depth)
    if isinstance(e, ast.BinOp) and isinstance(e.op, ast.Add):
        return _terms(e.left, fn, depth) + _terms(e.right, fn, depth)
    if isinstance(e, ast.BinOp) and isinstance(e.op, ast.Sub):
        return _terms(e.left, fn, depth) + [(-s, a) for s, a in _terms(e.right, fn, depth)]
    if isinstance(e, ast.UnaryOp) and isinstance(e.op, ast.USub):
        return [(-s, a) for s, a in _terms(e.operand, fn, depth)]
    if isinstance(e, ast.Name) and depth < 5:
        defs = [n.value for n in ast.walk(fn) if isinstance(n, (ast.Assign,)) and any(isinstance(t, ast.Name) and t.id == e.id for t in n.targets)]
        defs += [n.value for n in ast.walk(fn) if isinstance(n, ast.NamedExpr) and isinstance(n.target, ast.Name) and n.target.id == e.id]
        defs += [n.value for n in ast.walk(fn) if isinstance(n, ast.AugAssign) and isinstance(n.target, ast.Name) and n.target.id == e.id]
        if len(defs) == 1 and isinstance(defs[0], (ast.BinOp, ast.NamedExpr)):
            return _terms(defs[0], fn, depth + 1)
    return [(1, e)]


def check_polarity(ctx, R="C08.polarity"):
    ctx.rule(
        R,
        "bound polarity: a variable unpacked from the first / second component of supportInterval(·) is a LOWER / UPPER bound. An erosion "
        "amount (buffer(-x), _erodeOverapproximate(x, ·)) must be a sum of LOWER bounds minus UPPER bounds; a growth amount (buffer(x), "
        "_bufferOverapproximate(x, ·)) and a maximal distance must be a sum of UPPER bounds (minus LOWER bounds); offsets of heading bounds "
        "add LOWER to lower and UPPER to upper",
    )
    model = ctx.model
    m = model.module(PR)
    n = 0
    for q, fn in m.functions.items():
        from ..model import enclosing_function

        top = enclosing_function(fn)
        if top is not None:
            tags = {**_tags(top), **_tags(fn)}
            scope = top
        else:
            tags = _tags(fn)
            scope = fn
        for c in walk_local(fn):
            if not (isinstance(c, ast.Call) and isinstance(c.func, ast.Attribute)):
                continue
            a = c.func.attr
            if a == "buffer" and c.args:
                amt = c.args[0]
                erosion = isinstance(amt, ast.UnaryOp) and isinstance(amt.op, ast.USub)
                expr = amt.operand if erosion else amt
                if isinstance(expr, ast.Constant):
                    continue
            elif a == "_erodeOverapproximate" and c.args:
                erosion, expr = True, c.args[0]
            elif a == "_bufferOverapproximate" and c.args:
                erosion, expr = False, c.args[0]
            else:
                continue
            terms = _terms(expr, scope)
            bad = []
            tagged = 0
            for sgn, atom in terms:
                tg = tags.get(atom.id) if isinstance(atom, ast.Name) else None
                if tg is None:
                    continue
                tagged += 1
                want = ("LOWER" if sgn > 0 else "UPPER") if erosion else ("UPPER" if sgn > 0 else "LOWER")
                if tg != want:
                    bad.append((sgn, unparse(atom), tg, want))
            if not tagged:
                # the quantity may come from a helper (maxDist): checked at its definition below
                continue
            n += 1
            if bad:
                for sgn, nm, tg, want in bad:
                    ctx.finding(
                        R,
                        c,
                        f"{q} {'erosion' if erosion else 'growth'} by {nm}",
                        f"{q}: `{norm_text(c, 80)}` {'erodes' if erosion else 'grows'} by an amount in which `{nm}` (a {tg} bound from supportInterval) "
                        f"enters with sign {'+' if sgn > 0 else '-'}; soundness needs a {want} bound there, otherwise feasible positions are pruned away",
                    )
            else:
                ctx.ok(R, c, f"{q}: {'erosion' if erosion else 'growth'} amount `{unparse(expr)}` = " + " ".join(f"{'+' if s > 0 else '-'}{unparse(a)}[{tags.get(getattr(a, 'id', None), 'exact')}]" for s, a in terms))
    ctx.floor(R, n, 3, "erosion / growth sites with tagged bounds")
    ctx.note(f"polarity sites: {n}")
    # heading offsets
    fn = model.func(PR, "matchPolygonalField")
    tags = _tags(fn)
    done = False
    for r in lib.returns_of(fn):
        if isinstance(r.value, ast.Tuple) and len(r.value.elts) == 3 and isinstance(r.value.elts[1], ast.BinOp):
            done = True
            lo, hi = r.value.elts[1], r.value.elts[2]
            tl = [tags.get(a.id) for s, a in _terms(lo, fn) if isinstance(a, ast.Name) and a.id in tags]
            th = [tags.get(a.id) for s, a in _terms(hi, fn) if isinstance(a, ast.Name) and a.id in tags]
            names_lo = [unparse(a) for s, a in _terms(lo, fn)]
            names_hi = [unparse(a) for s, a in _terms(hi, fn)]
            rec = [n_ for n_ in walk_local(fn) if isinstance(n_, ast.Assign) and isinstance(n_.targets[0], ast.Tuple) and len(n_.targets[0].elts) == 3 and isinstance(n_.value, ast.Call) and dotted(n_.value.func) == fn.name]
            rl = rec[0].targets[0].elts[1].id if rec and isinstance(rec[0].targets[0].elts[1], ast.Name) else None
            rh = rec[0].targets[0].elts[2].id if rec and isinstance(rec[0].targets[0].elts[2], ast.Name) else None
            if tl == ["LOWER"] and th == ["UPPER"] and rl in names_lo and rh in names_hi:
                ctx.ok(R, r, "heading disturbance bounds: lower + LOWER(offset), upper + UPPER(offset)")
            else:
                ctx.finding(R, r, "matchPolygonalField offsets", f"matchPolygonalField returns `{unparse(r.value)}`: the offset's lower bound must be added to `lower` and its upper bound to `upper`")
    if not done:
        raise AnalysisError("shape not recognised: matchPolygonalField offset return")
    # maximal distances
    for q in ("visibilityBound", "maxDistanceBetween"):
        fn = model.func(PR, q)
        tags = _tags(fn)
        bad = [k for k, v in tags.items() if v != "UPPER"]
        if bad:
            ctx.finding(R, fn, f"{q} uses lower bounds {bad}", f"{q} upper-bounds a distance but takes {bad} from the LOWER component of supportInterval")
        elif tags:
            ctx.ok(R, fn, f"{q}: all support bounds used ({sorted(tags)}) are UPPER components")
    fn = model.func(PR, "maxDistanceBetween")
    infs = lib.locals_assigned(fn, lambda v: unparse(v) in ("float('inf')", "math.inf", "numpy.inf", "inf"))
    rets_ = [r for r in lib.returns_of(fn) if r.value is not None]
    good_ = False
    if len(infs) == 2 and len(rets_) == 1 and isinstance(rets_[0].value, ast.Call) and dotted(rets_[0].value.func) == "min" and sorted(unparse(a) for a in rets_[0].value.args) == sorted(infs):
        # one accumulator is tightened with visibilityBound(..) through min; the other with the relations' `.upper`
        vis = [v for v in infs if any(isinstance(n_, ast.Assign) and unparse(n_.targets[0]) == v and isinstance(n_.value, ast.Call) and dotted(n_.value.func) == "min" and "visibilityBound" in unparse(n_.value) and v in lib.names_loaded(n_.value) for n_ in walk_local(fn))]
        req = [v for v in infs if v not in vis]
        if len(vis) == 1 and len(req) == 1:
            rq = req[0]
            for n_ in walk_local(fn):
                if isinstance(n_, ast.Assign) and unparse(n_.targets[0]) == rq and isinstance(n_.value, ast.Attribute) and n_.value.attr == "upper":
                    # `rq = rel.upper` taken only when it tightens the bound
                    want_ = lib.ctext_of(f"{unparse(n_.value)} < {rq}")
                    if any(p_ and lib.ctext(t_) == want_ for t_, p_ in lib.flatten_conditions(lib.guard_tests(n_, fn))):
                        good_ = True
                if isinstance(n_, ast.Assign) and unparse(n_.targets[0]) == rq and isinstance(n_.value, ast.Call) and dotted(n_.value.func) == "min" and rq in lib.names_loaded(n_.value) and any(isinstance(a, ast.Attribute) and a.attr == "upper" for a in n_.value.args):
                    good_ = True
    if good_:
        ctx.ok(R, fn, "maxDistanceBetween takes the least of the upper bounds implied by visibility and by distance requirements")
    else:
        ctx.finding(R, fn, "maxDistanceBetween min", "maxDistanceBetween no longer returns the minimum of the visibility bound and the requirements' *upper* distance bounds")
    # who sees whom: visibilityBound(viewer, seen) bounds the distance by the VIEWER's visible distance
    vb = model.func(PR, "visibilityBound")
    viewer_p = vb.args.args[0].arg
    if not any(isinstance(a, ast.Attribute) and a.attr == "visibleDistance" and unparse(a.value) == viewer_p for a in ast.walk(vb)):
        raise AnalysisError("shape not recognised: visibilityBound no longer reads the visibleDistance of its first parameter")
    egos = set(lib.locals_assigned(fn, lambda v: isinstance(v, ast.Attribute) and v.attr == "egoObject"))
    n_vb = 0
    for i in walk_local(fn):
        if not isinstance(i, ast.If):
            continue
        calls = [c for s_ in i.body for c in ast.walk(s_) if isinstance(c, ast.Call) and dotted(c.func) == "visibilityBound" and len(c.args) == 2]
        if not calls:
            continue
        conj = i.test.values if isinstance(i.test, ast.BoolOp) and isinstance(i.test.op, ast.And) else [i.test]
        want = None
        for t in conj:
            if isinstance(t, ast.Compare) and len(t.ops) == 1 and isinstance(t.ops[0], ast.Is):
                l, r = t.left, t.comparators[0]
                if isinstance(l, ast.Attribute) and l.attr == "_observingEntity":
                    want = (unparse(r), unparse(l.value))  # r observes l.value
                elif isinstance(r, ast.Attribute) and r.attr == "_observingEntity":
                    want = (unparse(l), unparse(r.value))
        if want is None:
            # `<x> is ego and <y>.requireVisible`: the ego must see y
            who = [unparse(t.left) if unparse(t.comparators[0]) in egos else unparse(t.comparators[0]) for t in conj if isinstance(t, ast.Compare) and len(t.ops) == 1 and isinstance(t.ops[0], ast.Is) and (unparse(t.left) in egos or unparse(t.comparators[0]) in egos)]
            seen = [unparse(t.value) for t in conj if isinstance(t, ast.Attribute) and t.attr == "requireVisible"]
            if len(who) == 1 and len(seen) == 1:
                want = (who[0], seen[0])
        if want is None:
            raise AnalysisError(f"shape not recognised: guard `{norm_text(i.test, 60)}` of a visibilityBound call in maxDistanceBetween")
        for c in calls:
            n_vb += 1
            got = (unparse(c.args[0]), unparse(c.args[1]))
            same = lambda a, b: a == b or (a in egos and b in egos)
            # the ego may be named through either alias (`ego` or the parameter tested to be the ego)
            alias = {want[0]} | (egos if any(unparse(t.left) == want[0] and unparse(t.comparators[0]) in egos or unparse(t.comparators[0]) == want[0] and unparse(t.left) in egos for t in conj if isinstance(t, ast.Compare) and len(t.ops) == 1) else set())
            if (got[0] in alias or same(got[0], want[0])) and got[1] == want[1]:
                ctx.ok(R, c, f"under `{norm_text(i.test, 50)}` the viewer is {want[0]} and the bound uses its visible distance")
            else:
                ctx.finding(
                    R,
                    c,
                    f"visibilityBound roles under {norm_text(i.test, 50)}",
                    f"maxDistanceBetween: under `{unparse(i.test)}` it is {want[0]} that must see {want[1]}, but the bound is `{unparse(c)}`, i.e. computed from "
                    f"{got[0]}'s visible distance: when the viewer sees farther than the object it observes, feasible positions are pruned",
                )
    ctx.floor(R, n_vb, 4, "visibilityBound calls in maxDistanceBetween")
    # the fast path of the buffered view region grows the bounding box by the amount on BOTH sides of every axis
    bo = model.func(RG, "MeshVolumeRegion._bufferOverapproximate")
    amt_p = bo.args.args[1].arg
    boxes = [c for c in walk_local(bo) if isinstance(c, ast.Call) and dotted(c.func) == "BoxRegion" and lib.kw(c, "dimensions") is not None]
    for c in boxes:
        pos_ = lib.kw(c, "position")
        ptxt = lib.role_text(bo, pos_) if pos_ is not None else ""
        if "bounds" in ptxt or "bounding_box" in ptxt:
            ctx.ok(R, c, "the buffered box is centred on the mesh's bounding box")
        else:
            ctx.finding(R, c, "buffered box not centred on the bounds", f"_bufferOverapproximate places its box at `{ptxt or '?'}`, not at the centre of the mesh's bounding box: a region whose position is not the centre of its mesh (a view cone, whose position is the camera) gets a shifted box that does not cover it")
        d = ast.parse(lib.role_text(bo, lib.kw(c, "dimensions")), mode="eval").body
        while isinstance(d, ast.Call) and dotted(d.func) in ("list", "tuple", "numpy.array") and d.args:
            d = d.args[0]
        f = lin(d)
        if f.get(amt_p, 0) >= 2:
            ctx.ok(R, c, f"buffered bounding box: extent + {f.get(amt_p)} * {amt_p} (the amount on each side)")
        else:
            ctx.finding(R, c, "buffered box grows by less than twice the amount", f"_bufferOverapproximate's box has dimensions `{unparse(d)}`: the extent grows by {f.get(amt_p, 0)} * {amt_p} in total, i.e. by less than {amt_p} on each side, so the result is not an over-approximation of the buffered region")
    ctx.floor(R, len(boxes), 1, "bounding-box fast path of _bufferOverapproximate")
    # containment radius: planarInradius only for flat polygonal bases
    fn = model.func(PR, "pruneContainment")
    for n_ in walk_local(fn):
        if isinstance(n_, ast.Assign) and isinstance(n_.value, ast.Call) and dotted(n_.value.func) == "supportInterval" and "planarInradius" in unparse(n_.value):
            g = " && ".join(unparse(t) for t, p in lib.guard_tests(n_, fn) if p)
            if "PolygonalRegion)" in g and "isinstance(" in g and ".pitch" in g and ".roll" in g and "(0, 0)" in g:
                ctx.ok(R, n_, "planar inradius is used only for polygonal bases with pitch and roll fixed at 0")
            else:
                ctx.finding(R, n_, "planarInradius guard", f"planarInradius is used under `{g}`; it bounds the object's extent only when pitch and roll are exactly 0 in a polygonal base")


# ----------------------------------------------------------------------
# 3. pruned region is a subset of the original


def check_subset(ctx, R="C08.subset"):
    ctx.rule(
        R,
        "pruned ⊆ original: every value passed to obj.position.conditionTo(·) in pruning.py is uniformPointIn(R) (plus the matched offset) "
        "where R derives from the matched base region only through .intersect(·) / & (and PolygonalRegion(polygon=P) rebuilt from such a P "
        "at the base's own height and orientation); only `position` is conditioned; prune() runs only under usePruning",
    )
    model = ctx.model
    m = model.module(PR)
    sites = []
    for q, fn in m.functions.items():
        for c in walk_local(fn):
            if isinstance(c, ast.Call) and isinstance(c.func, ast.Attribute) and c.func.attr == "conditionTo":
                sites.append((q, fn, c))
    ctx.floor(R, len(sites), 3, "conditionTo sites in pruning.py")
    for q, fn, c in sites:
        recv = unparse(c.func.value)
        if not (isinstance(c.func.value, ast.Attribute) and c.func.value.attr == "position" and isinstance(c.func.value.value, ast.Name)):
            ctx.finding(R, c, f"{q} conditions {recv}", f"{q}: `{unparse(c)}` conditions `{recv}`; pruning may only replace an object's position")
            continue
        problems = []
        _value_ok(fn, c.args[0], problems, set(), at=c.lineno)
        if problems:
            for p in sorted(set(problems)):
                ctx.finding(R, c, f"{q} conditionTo: {p[:90]}", f"{q}: the value of `{unparse(c)}` is not a restriction of the original position: {p}")
        else:
            ctx.ok(R, c, f"{q}: `{unparse(c)}` draws from the base region restricted only by intersections (+ the original offset)")
    tr = model.module("scenic.syntax.translator")
    calls = [c for c in ast.walk(tr.tree) if isinstance(c, ast.Call) and dotted(c.func) == "pruning.prune"]
    if calls and all(any(unparse(t) == "usePruning" and p for t, p in lib.guard_tests(c, None)) for c in calls):
        ctx.ok(R, calls[0], "prune() is called only under `if usePruning`")
    else:
        ctx.finding(R, "src/scenic/syntax/translator.py", "prune switch", "pruning.prune is not called exclusively under `if usePruning`", qualname="constructScenarioFrom")


def check_sources(ctx, R="C08.sources"):
    ctx.rule(
        R,
        "pruning bounds come from hard requirements only: the call that infers distance / relative-heading relations from the condition "
        "of a requirement-like statement is reached only when the statement is a `require` (not `terminate when`, `terminate simulation when`, "
        "`record`, `require monitor`) with probability 1 -- a soft requirement or a termination condition does not have to hold in the "
        "generated scene, so pruning with it removes scenes the program allows",
    )
    model = ctx.model
    fn = model.func("scenic.core.requirements", "PendingRequirement.compile")
    calls = [c for c in walk_local(fn) if isinstance(c, ast.Call) and (dotted(c.func) or "").endswith("inferRelationsFrom")]
    if not calls:
        raise AnalysisError("shape not recognised: PendingRequirement.compile no longer infers relations")
    for c in calls:
        conds = []
        for t, p in lib.path_conditions(c, fn):
            if p:
                conds.extend(t.values if isinstance(t, ast.BoolOp) and isinstance(t.op, ast.And) else [t])
        # follow a local flag to its definition
        flat = []
        for t in conds:
            if isinstance(t, ast.Name):
                v = lib.local_value(fn, t.id)
                if v is not None:
                    flat.extend(v.values if isinstance(v, ast.BoolOp) and isinstance(v.op, ast.And) else [v])
                    continue
            flat.append(t)
        txt = [lib.role_text(fn, t) for t in flat]
        hard_kind = any(x in (lib.role_text(None, "self.ty is RequirementType.require"), lib.role_text(None, "self.ty == RequirementType.require")) for x in txt)
        hard_prob = any(x in (lib.role_text(None, "self.prob == 1"), lib.role_text(None, "self.prob >= 1"), lib.role_text(None, "not self.prob < 1")) for x in txt)
        if hard_kind and hard_prob:
            ctx.ok(R, c, "relations are inferred only from `require` statements with probability 1")
        else:
            miss = [w for w, ok_ in (("the statement is a `require`", hard_kind), ("its probability is 1", hard_prob)) if not ok_]
            ctx.finding(
                R,
                c,
                "relations inferred from non-binding statements",
                f"PendingRequirement.compile calls `{norm_text(c, 60)}` under {txt or 'no condition'}, without checking that {' and that '.join(miss)}: `require[0.5] C`, `terminate when C` or `record C` then bound "
                f"distances / relative headings for pruning as if C held in every scene, and scenes the program allows can no longer be generated",
            )


def _defs(fn, name, at):
    out = []
    for n in ast.walk(fn):
        if isinstance(n, ast.Assign):
            for t in n.targets:
                if isinstance(t, ast.Name) and t.id == name:
                    out.append(n.value)
                elif isinstance(t, ast.Tuple):
                    for i, e in enumerate(t.elts):
                        if isinstance(e, ast.Name) and e.id == name:
                            out.append(("tuple", n.value, i))
        elif isinstance(n, ast.AugAssign) and isinstance(n.target, ast.Name) and n.target.id == name:
            out.append(("aug", n))
    return out


def _offset_names(fn):
    """Locals holding the offset matched by matchInRegion (second component of its result), whatever they are called."""
    out = set()
    for n in ast.walk(fn):
        if isinstance(n, ast.Assign) and isinstance(n.targets[0], ast.Tuple) and len(n.targets[0].elts) == 3 and isinstance(n.value, ast.Call) and dotted(n.value.func) == "matchInRegion":
            e = n.targets[0].elts[1]
            if isinstance(e, ast.Name):
                out.add(e.id)
    return out


def _value_ok(fn, e, problems, seen, at, depth=0):
    """position value: uniformPointIn(R) | V + offset | Name thereof"""
    if depth > 10:
        return
    if isinstance(e, ast.Name):
        if ("v", e.id) in seen:
            return
        seen.add(("v", e.id))
        ds = _defs(fn, e.id, at)
        if not ds:
            problems.append(f"`{e.id}` has no definition")
        for d in ds:
            if isinstance(d, tuple) and d[0] == "aug":
                if not (isinstance(d[1].op, ast.Add) and unparse(d[1].value) in _offset_names(fn)):
                    problems.append(f"`{unparse(d[1])}` changes the position by something other than the matched offset")
            elif isinstance(d, tuple):
                if not (dotted(d[1].func) == "matchInRegion" if isinstance(d[1], ast.Call) else False):
                    problems.append(f"`{e.id}` comes from `{unparse(d[1])}`")
            elif isinstance(d, ast.Call) and dotted(d.func) == "currentPropValue":
                pass
            else:
                _value_ok(fn, d, problems, seen, at, depth + 1)
        return
    if isinstance(e, ast.BinOp) and isinstance(e.op, ast.Add):
        if unparse(e.right) in _offset_names(fn):
            return _value_ok(fn, e.left, problems, seen, at, depth + 1)
        problems.append(f"`{unparse(e)}` adds something other than the matched offset")
        return
    if isinstance(e, ast.Call) and dotted(e.func) in ("regions.Region.uniformPointIn", "Region.uniformPointIn") and len(e.args) == 1:
        return _region_ok(fn, e.args[0], problems, seen, at, depth + 1)
    problems.append(f"`{norm_text(e, 60)}` is not uniformPointIn(<restricted base>)")


def _region_ok(fn, e, problems, seen, at, depth=0):
    """R: base | R.intersect(..) | PolygonalRegion(polygon=P, ...) | Name thereof"""
    if depth > 12:
        return
    if isinstance(e, ast.Name):
        if ("r", e.id) in seen:
            return
        seen.add(("r", e.id))
        ds = _defs(fn, e.id, at)
        if not ds:
            problems.append(f"region `{e.id}` has no definition")
        for d in ds:
            if isinstance(d, tuple) and d[0] == "tuple":
                if not (isinstance(d[1], ast.Call) and dotted(d[1].func) == "matchInRegion" and d[2] == 0):
                    problems.append(f"region `{e.id}` is unpacked from `{unparse(d[1])}`")
            elif isinstance(d, tuple):
                problems.append(f"region `{e.id}` is updated in place")
            else:
                _region_ok(fn, d, problems, seen, at, depth + 1)
        return
    if isinstance(e, ast.Call) and isinstance(e.func, ast.Attribute) and e.func.attr == "intersect":
        return _region_ok(fn, e.func.value, problems, seen, at, depth + 1)
    if isinstance(e, ast.Call) and dotted(e.func) in ("regions.PolygonalRegion", "PolygonalRegion"):
        p = lib.kw(e, "polygon")
        if p is None:
            problems.append(f"`{norm_text(e, 60)}` is not built from a polygon of the base")
            return
        _poly_ok(fn, p, problems, seen, at, depth + 1)
        z = lib.kw(e, "z")
        if z is None:
            problems.append(f"`{norm_text(e, 70)}` rebuilds the pruned region without `z=`: for a base region at height h != 0 the object is moved to z = 0")
        elif "base" not in unparse(z):
            problems.append(f"`{norm_text(e, 70)}` takes its height from `{unparse(z)}`, not from the base region")
        return
    problems.append(f"region `{norm_text(e, 60)}` is not derived from the base by intersection")


def _poly_ok(fn, e, problems, seen, at, depth=0):
    if depth > 14:
        return
    if isinstance(e, ast.Name):
        if ("p", e.id) in seen:
            return
        seen.add(("p", e.id))
        for d in _defs(fn, e.id, at):
            if isinstance(d, tuple):
                problems.append(f"polygon `{e.id}` is updated in place")
            else:
                _poly_ok(fn, d, problems, seen, at, depth + 1)
        return
    if isinstance(e, ast.BinOp) and isinstance(e.op, ast.BitAnd):
        return _poly_ok(fn, e.left, problems, seen, at, depth + 1)
    if isinstance(e, ast.Call) and dotted(e.func) in ("regions.toPolygon", "toPolygon") and len(e.args) == 1:
        return _region_ok(fn, e.args[0], problems, seen, at, depth + 1)
    problems.append(f"polygon `{norm_text(e, 60)}` is not the base polygon restricted by `&`")


# ----------------------------------------------------------------------
# 4. retry loops make progress


def check_progress(ctx, R="C08.progress"):
    ctx.rule(
        R,
        "G13 loop-variant liveness: in a retry loop `while x is None:` every variable that the body updates from its own previous value must "
        "be read by the computation that is retried; a variant that is only written makes the retried call loop-invariant, so a first failure "
        "repeats for ever; and the two voxel over-approximations convert amounts to voxel counts with the voxel size (target_pitch)",
    )
    model = ctx.model
    m = model.module(PR)
    n = 0
    for q, fn in m.functions.items():
        for w in walk_local(fn):
            if not (isinstance(w, ast.While) and isinstance(w.test, ast.Compare) and len(w.test.ops) == 1 and isinstance(w.test.ops[0], ast.Is) and isinstance(w.test.left, ast.Name)):
                continue
            x = w.test.left.id
            n += 1
            variants = []
            for s in ast.walk(w):
                if isinstance(s, ast.Assign) and len(s.targets) == 1 and isinstance(s.targets[0], ast.Name):
                    v = s.targets[0].id
                    if v != x and v in lib.names_loaded(s.value):
                        variants.append((v, s))
            retried = [s for s in ast.walk(w) if isinstance(s, ast.Assign) and any(isinstance(t, ast.Name) and t.id == x for t in s.targets) and isinstance(s.value, ast.Call)]
            if not variants:
                ctx.finding(R, w, f"{q} retry loop without variant", f"{q}: `while {x} is None` retries `{norm_text(retried[0], 60) if retried else '?'}` but nothing changes between attempts")
                continue
            for v, s in variants:
                used = any(v in lib.names_loaded(r.value) for r in retried)
                if used:
                    ctx.ok(R, w, f"{q}: retry loop on `{x}` varies `{v}`, which the retried call reads")
                else:
                    ctx.finding(
                        R,
                        w,
                        f"{q} dead loop variant {v}",
                        f"{q}: `while {x} is None` updates `{v}` (`{norm_text(s, 50)}`) but the retried call `{norm_text(retried[0].value, 70) if retried else '?'}` "
                        f"never reads it: if the first attempt yields None the loop cannot terminate",
                    )
    ctx.floor(R, n, 2, "voxel retry loops")
    # unit consistency of the two voxel over-approximations
    for q, need in (("MeshVolumeRegion._erodeOverapproximate", "floor"), ("MeshVolumeRegion._bufferOverapproximate", "ceil")):
        fn = model.func(RG, q)
        amt = fn.args.args[1].arg
        # the pass count is whatever local feeds `.dilation(iterations=...)`; the voxel size is whatever local is computed
        # from the mesh extents -- neither is recognised by its name
        its = []  # (reporting node, expression of the pass count)
        for c in ast.walk(fn):
            if isinstance(c, ast.Call) and isinstance(c.func, ast.Attribute) and c.func.attr == "dilation":
                a = lib.kw(c, "iterations") or (c.args[0] if c.args else None)
                while isinstance(a, ast.UnaryOp) and isinstance(a.op, (ast.USub, ast.UAdd)):
                    a = a.operand
                if isinstance(a, ast.Name):
                    v_ = lib.local_value(fn, a.id)
                    if v_ is None:
                        raise AnalysisError(f"shape not recognised: {q} iterations")
                    its.append((lib.statement_of(v_), v_))
                elif a is not None:
                    its.append((lib.statement_of(a), a))
        if not its:
            raise AnalysisError(f"shape not recognised: {q} iterations")
        voxel_size = set(lib.locals_assigned(fn, lambda v: "self.mesh.extents" in unparse(v) and fn.args.args[2].arg in lib.names_loaded(v)))
        for s, sval in its:
            calls = [c for c in ast.walk(sval) if isinstance(c, ast.Call) and dotted(c.func) in ("math.floor", "math.ceil")]
            if len(calls) != 1 or not isinstance(calls[0].args[0], ast.BinOp) or not isinstance(calls[0].args[0].op, ast.Div):
                raise AnalysisError(f"shape not recognised: {q} iteration count")
            c = calls[0]
            rounding = dotted(c.func).split(".")[-1]
            div = c.args[0].right
            num = c.args[0].left
            if rounding != need:
                ctx.finding(R, s, f"{q} rounding {rounding}", f"{q}: the number of voxel passes is rounded with {rounding}; an over-approximation needs {need}")
            elif unparse(num) != amt:
                ctx.finding(R, s, f"{q} numerator", f"{q}: passes are computed from `{unparse(num)}`, not from the requested amount `{amt}`")
            elif not (voxel_size & lib.names_loaded(div)) and "self.mesh.extents" not in unparse(div):
                ctx.finding(
                    R,
                    s,
                    f"{q} divisor {unparse(div)}",
                    f"{q}: the amount (a length) is divided by `{unparse(div)}`, the relative pitch, not by the voxel size `target_pitch = pitch * max(extents)`; "
                    f"for meshes with extents < 1 too few passes are made and the result is not an over-approximation (its sibling divides by the voxel size)",
                )
            else:
                adj = lin(sval)
                ctx.ok(R, s, f"{q}: passes = {need}({amt} / f(target_pitch)) {'- 1' if need == 'floor' else '+ 1'}")
            # safety margin direction
            other = [t for t in _terms(sval, fn) if isinstance(t[1], ast.Constant)]
            if other:
                sgn = other[0][0] * (1 if other[0][1].value > 0 else -1)
                if (need == "floor" and sgn > 0) or (need == "ceil" and sgn < 0):
                    ctx.finding(R, s, f"{q} margin sign", f"{q}: the safety margin of one voxel pass has the wrong sign for an over-approximation")


def check_room(ctx, R="C08.room"):
    ctx.rule(
        R,
        "growth needs room: scipy.ndimage.binary_dilation returns an array of the input's shape, so VoxelRegion.dilation must pad the dense "
        "grid (and move the grid origin) before dilating; otherwise a 'buffered' region is clipped to the original bounding grid and is not an "
        "over-approximation",
    )
    model = ctx.model
    fn = model.func(RG, "VoxelRegion.dilation")
    morph = set(lib.locals_assigned(fn, lambda v: isinstance(v, ast.Attribute) and v.attr in ("binary_dilation", "binary_erosion")))
    itp = fn.args.args[1].arg
    calls = [c for c in ast.walk(fn) if isinstance(c, ast.Call) and isinstance(c.func, ast.Name) and c.func.id in morph]
    uses_dil = any(isinstance(n, ast.Attribute) and n.attr == "binary_dilation" for n in ast.walk(fn))
    if not calls or not uses_dil:
        raise AnalysisError("shape not recognised: VoxelRegion.dilation")
    for c in calls:
        a = c.args[0] if c.args else None
        padded = False
        if isinstance(a, ast.Name):
            for n in ast.walk(fn):
                if isinstance(n, ast.Assign) and any(isinstance(t_, ast.Name) and t_.id == a.id for t_ in n.targets) and isinstance(n.value, ast.Call) and dotted(n.value.func) in ("numpy.pad", "np.pad"):
                    g = " ".join(unparse(t_) for t_, p_ in lib.guard_tests(n, fn) if p_)
                    gc = " ".join(lib.ctext(t_) for t_, p_ in lib.guard_tests(n, fn) if p_)
                    if "binary_dilation" in g or lib.ctext_of(f"{itp} > 0") in gc:
                        padded = True
        elif isinstance(a, ast.Call) and dotted(a.func) in ("numpy.pad", "np.pad"):
            padded = True
        if padded:
            # the transform must move with the padding
            tr = [n for n in ast.walk(fn) if isinstance(n, ast.Call) and dotted(n.func) == "trimesh.voxel.VoxelGrid"]
            same = any(lib.kw(x, "transform") is not None and unparse(lib.kw(x, "transform")) == "self.voxelGrid.transform" for x in tr)
            if same:
                ctx.finding(R, c, "dilation keeps old transform", "VoxelRegion.dilation pads the grid but keeps the unpadded grid's transform: the dilated region is shifted")
            else:
                ctx.ok(R, c, "dilation pads the dense grid and shifts the grid origin before growing")
        else:
            ctx.finding(
                R,
                c,
                "dilation without padding",
                "VoxelRegion.dilation applies binary_dilation to the unpadded dense grid: the result cannot extend beyond the original grid, so "
                "_bufferOverapproximate returns a region no larger than the original (visibility pruning then removes feasible positions)",
            )


# ----------------------------------------------------------------------
# 5. None flows


def check_none(ctx, R="C08.none"):
    ctx.rule(
        R,
        "G18: the result of a pruning helper that has an explicit `return None` path (a bound that is unknown) must not reach min/max, "
        "arithmetic or an ordering comparison without a dominating `is None` test",
    )
    model = ctx.model
    m = model.module(PR)
    noneable = set()
    for q, fn in m.functions.items():
        if "." in q:
            continue
        for r in lib.returns_of(fn):
            if r.value is None or (isinstance(r.value, ast.Constant) and r.value.value is None):
                # ignore procedures (no value-returning return at all)
                if any(x.value is not None and not (isinstance(x.value, ast.Constant) and x.value.value is None) for x in lib.returns_of(fn)):
                    noneable.add(q)
    ctx.floor(R, len(noneable), 2, "helpers that may return None")
    n = 0
    for q, fn in m.functions.items():
        for c in walk_local(fn):
            if not (isinstance(c, ast.Call) and isinstance(c.func, ast.Name) and c.func.id in noneable):
                continue
            n += 1
            p = parent(c)
            direct = (isinstance(p, ast.Call) and dotted(p.func) in ("min", "max", "abs", "math.hypot")) or isinstance(p, (ast.BinOp,)) or (
                isinstance(p, ast.Compare) and any(isinstance(o, (ast.Lt, ast.LtE, ast.Gt, ast.GtE)) for o in p.ops)
            )
            if direct:
                ctx.finding(
                    R,
                    c,
                    f"{q}: {c.func.id}() result used unchecked",
                    f"{q}: `{norm_text(lib.statement_of(c), 80)}` feeds `{c.func.id}(...)`, which returns None when a bound is unknown, straight into "
                    f"`{dotted(p.func) if isinstance(p, ast.Call) else type(p).__name__}`: TypeError at compile time instead of 'no bound'",
                )
                continue
            st = lib.statement_of(c)
            if isinstance(st, ast.Assign) and st.value is c and isinstance(st.targets[0], ast.Name):
                v = st.targets[0].id
                bad = []
                for u in walk_local(fn):
                    if isinstance(u, ast.Name) and u.id == v and isinstance(u.ctx, ast.Load) and u.lineno > st.lineno:
                        pu = parent(u)
                        risky = (isinstance(pu, ast.Call) and dotted(pu.func) in ("min", "max", "abs")) or isinstance(pu, ast.BinOp) or (
                            isinstance(pu, ast.Compare) and any(isinstance(o, (ast.Lt, ast.LtE, ast.Gt, ast.GtE)) for o in pu.ops)
                        ) or (isinstance(pu, ast.Attribute))
                        if risky and not _none_guarded(u, fn):
                            bad.append(u)
                if bad:
                    ctx.finding(R, bad[0], f"{q}: {v} from {c.func.id}() used unchecked", f"{q}: `{v} = {unparse(c)}` may be None but `{norm_text(lib.statement_of(bad[0]), 70)}` uses it without an `is None` test")
                else:
                    ctx.ok(R, c, f"{q}: result of {c.func.id}() is tested for None before use")
            else:
                ctx.ok(R, c, f"{q}: result of {c.func.id}() is not used arithmetically")
    ctx.floor(R, n, 3, "calls of None-returning helpers")


_MEMO_WITNESS = """
def f(field, dist):
    cells = getattr(field, "_cells", None)
    if cells is None:
        cells = [c.buffer(dist) for c in field.cells]
        field._cells = cells
    return cells
"""


def _memo_findings(fn):
    """[(node, obj, attr, params)] for memos `v = getattr(o, 'a', None) / o.a` ... `o.a = v` in fn whose stored value depends on
    parameters of fn other than o"""
    params = {a.arg for a in fn.args.args + fn.args.kwonlyargs} | ({fn.args.vararg.arg} if fn.args.vararg else set())
    assigns = [a for a in walk_local(fn) if isinstance(a, ast.Assign) and len(a.targets) == 1]
    out = []
    stores = [a for a in assigns if isinstance(a.targets[0], ast.Attribute) and isinstance(a.targets[0].value, ast.Name) and a.targets[0].value.id in params and a.targets[0].attr.startswith("_")]
    for st in stores:
        obj, attr = st.targets[0].value.id, st.targets[0].attr
        # it is a memo when the same function also reads the attribute back (getattr / hasattr / attribute load)
        reads = [
            n
            for n in walk_local(fn)
            if (isinstance(n, ast.Call) and dotted(n.func) in ("getattr", "hasattr") and len(n.args) >= 2 and unparse(n.args[0]) == obj and isinstance(n.args[1], ast.Constant) and n.args[1].value == attr)
            or (isinstance(n, ast.Attribute) and isinstance(n.ctx, ast.Load) and n.attr == attr and isinstance(n.value, ast.Name) and n.value.id == obj)
        ]
        if not reads:
            continue
        # names the stored value depends on, through local assignments
        seen, todo, deps = set(), [st.value], set()
        while todo:
            e = todo.pop()
            for nm in ast.walk(e):
                if isinstance(nm, ast.Name) and isinstance(nm.ctx, ast.Load) and nm.id not in seen:
                    seen.add(nm.id)
                    if nm.id in params:
                        deps.add(nm.id)
                    for a in assigns:
                        if isinstance(a.targets[0], ast.Name) and a.targets[0].id == nm.id and not (isinstance(a.value, ast.Call) and dotted(a.value.func) == "getattr"):
                            todo.append(a.value)
        extra = sorted(deps - {obj})
        # a key that includes the other parameters (dict memo o._a[key]) is not this shape: the store target is a plain attribute
        if extra:
            out.append((st, obj, attr, extra))
    return out


def check_memo(ctx, R="C08.memo"):
    ctx.rule(
        R,
        "no under-keyed memo in the pruning code: a value a pruning function stores on one of its arguments (`o._x = v`) and reads back on a later "
        "call must depend on that argument only; if it also depends on another parameter (a distance bound, a tolerance) the second call with a larger "
        "bound re-uses the cells expanded for the first one and prunes feasible positions away",
    )
    model = ctx.model
    w = ast.parse(_MEMO_WITNESS).body[0]
    for n_ in ast.walk(w):
        for ch in ast.iter_child_nodes(n_):
            ch._parent = n_
    try:
        wf = _memo_findings(w)
    except Exception:
        wf = None
    if not wf or wf[0][1:] != ("field", "_cells", ["dist"]):
        # the witness must be analysable with the same machinery
        from ..model import Module

        wm = Module("memo_witness", "memo_witness.py", _MEMO_WITNESS)
        wf = _memo_findings(wm.functions["f"])
        if not wf or wf[0][1:] != ("field", "_cells", ["dist"]):
            raise AnalysisError("the built-in positive example of C08.memo is no longer matched")
    n = 0
    for mod in (PR,):
        m = model.module(mod)
        for q, fn in m.functions.items():
            n += 1
            for st, obj, attr, extra in _memo_findings(fn):
                ctx.finding(
                    R,
                    st,
                    f"{q} memo {obj}.{attr} ignores {extra}",
                    f"pruning.{q} stores `{norm_text(st, 70)}` and re-uses it on later calls, but the stored value also depends on the parameter(s) {extra}: "
                    f"a later call with another value of {extra[0]} gets the result computed for the first one (e.g. target cells buffered by a smaller maxDistance), so "
                    f"positions that are feasible for the second object are pruned",
                )
    ctx.ok(R, m.rel if hasattr(m, "rel") else "src/scenic/core/pruning.py", f"{n} functions of scenic.core.pruning: no memo stored on an argument depends on another parameter (positive example matched)")
    ctx.floor(R, n, 15, "functions of the pruning module")


def check(ctx):
    # pruning erodes containers / bounds distances by the support intervals of sizes and offsets: an interval that excludes an
    # attainable value prunes feasible scenes away (rule shared with C05, reported here as C08.support)
    from .c05 import check_support

    ctx.run(check_support, R="C08.support")
    ctx.run(check_sources)
    ctx.run(check_cmpops)
    ctx.run(check_polarity)
    ctx.run(check_subset)
    ctx.run(check_progress)
    ctx.run(check_room)
    ctx.run(check_none)
    ctx.run(check_memo)
