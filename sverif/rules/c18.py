"""C18 -- encoded scenes and simulations decode and replay to the same thing (structural part)."""

import ast
import struct

from .. import lib
from ..model import AnalysisError, ClassInfo, ancestors, dotted, norm_text, parent, unparse, walk_local
from .c01 import core_classes_with

SE = "scenic.core.serialization"
DI = "scenic.core.distributions"
SI = "scenic.core.simulators"
VC = "scenic.core.vectors"

RNG_PREFIXES = ("random.", "numpy.random.", "np.random.", "trimesh.sample.")


def _formats(fn, which):
    out = []
    for c in ast.walk(fn):
        if isinstance(c, ast.Call) and dotted(c.func) == f"struct.{which}" and c.args and isinstance(c.args[0], ast.Constant):
            out.append((c.lineno, c.col_offset, c.args[0].value))
    return [f for _, _, f in sorted(out)]  # in source order


def _reads(fn):
    """[(call node, size expr)] for stream.read(n) / self.stream.read(n)"""
    out = []
    for c in ast.walk(fn):
        if isinstance(c, ast.Call) and isinstance(c.func, ast.Attribute) and c.func.attr == "read" and unparse(c.func.value) in ("stream", "self.stream") and len(c.args) == 1:
            out.append(c)
    return out


def check_symmetry(ctx, R="C18.symmetry"):
    ctx.rule(
        R,
        "writer/reader symmetry: every registered codec and every encodeTo/decodeFrom pair packs and unpacks the same struct formats, reads "
        "exactly calcsize(format) bytes, uses the same byte order / signedness / widths for integers and the same tag thresholds "
        "(252/253/254/255); writeScene and readScene, writeReplayHeader and readReplayHeader handle the same fields in the same order",
    )
    model = ctx.model
    m = model.module(SE)
    regs = [c for c in ast.walk(m.tree) if isinstance(c, ast.Call) and dotted(c.func) == "Serializer.addCodec" and len(c.args) == 3]
    ctx.floor(R, len(regs), 6, "registered codecs")
    pairs = []
    for c in regs:
        enc, dec = m.functions.get(unparse(c.args[1])), m.functions.get(unparse(c.args[2]))
        if enc is None or dec is None:
            raise AnalysisError(f"codec functions of {unparse(c.args[0])} not found")
        pairs.append((f"codec {unparse(c.args[0])}", enc, dec))
    for ci in model.classes.values():
        if ci.module.path.startswith("src/scenic/") and "encodeTo" in ci.methods:
            if "decodeFrom" not in ci.methods:
                ctx.finding(R, ci.methods["encodeTo"], f"{ci.name} lacks decodeFrom", f"{ci.name} defines encodeTo but no decodeFrom: its values cannot be decoded")
            else:
                pairs.append((f"{ci.name}.encodeTo/decodeFrom", ci.methods["encodeTo"], ci.methods["decodeFrom"]))
    for name, enc, dec in pairs:
        fw, fr = _formats(enc, "pack"), _formats(dec, "unpack")
        problems = []
        if sorted(fw) != sorted(fr):
            problems.append(f"writer packs {fw} but reader unpacks {fr}")
        for c in ast.walk(dec):
            if isinstance(c, ast.Call) and dotted(c.func) == "struct.unpack" and len(c.args) == 2 and isinstance(c.args[0], ast.Constant):
                rd = [r for r in _reads(c.args[1])] if not isinstance(c.args[1], ast.Name) else []
                for r in rd:
                    n = lib.const(r.args[0])
                    try:
                        need = struct.calcsize(c.args[0].value)
                    except struct.error:
                        need = None
                    if n != need:
                        problems.append(f"reader reads {n} bytes for format {c.args[0].value!r} (needs {need})")
        # integer payloads
        tb = [(lib.const(lib.kw(c, "length")), lib.const(lib.kw(c, "byteorder")), lib.const(lib.kw(c, "signed"))) for c in ast.walk(enc) if isinstance(c, ast.Call) and isinstance(c.func, ast.Attribute) and c.func.attr == "to_bytes"]
        fb = []
        for c in ast.walk(dec):
            if isinstance(c, ast.Call) and dotted(c.func) == "int.from_bytes":
                src = c.args[0]
                if isinstance(src, ast.Name):
                    v_ = lib.local_value(dec, src.id) if hasattr(lib, "local_value") else None
                    src = v_ if v_ is not None else src
                # the number of bytes handed to int.from_bytes: the size argument of the outermost read of the buffer expression
                size = None
                if isinstance(src, ast.Call) and (dotted(src.func) or "").endswith("eadExactly") and src.args:
                    size = lib.const(src.args[-1])
                elif isinstance(src, ast.Call) and src in _reads(src):
                    size = lib.const(src.args[0])
                fb.append((size, lib.const(lib.kw(c, "byteorder")), lib.const(lib.kw(c, "signed"))))
        if tb or fb:
            if sorted(map(str, tb)) != sorted(map(str, fb)):
                problems.append(f"integer payloads written as (length, byteorder, signed) {tb} but read as {fb}")
        # tag thresholds
        wtags = sorted({b.elts[0].value for c in ast.walk(enc) if isinstance(c, ast.Call) and dotted(c.func) == "bytes" and c.args and isinstance(c.args[0], ast.List) for b in [c.args[0]] if b.elts and isinstance(b.elts[0], ast.Constant)})
        firsts = set(lib.locals_assigned(dec, lambda v: isinstance(v, ast.Subscript) and lib.const(v.slice) == 0))  # the tag byte, whatever it is called
        rtags, small_r = set(), []
        for c in ast.walk(dec):
            cp = lib.cmp_parts(c)
            if cp is None:
                continue
            l_, op_, r_ = cp
            if op_ is ast.Eq and ((l_ in firsts and r_.isdigit()) or (r_ in firsts and l_.isdigit())):
                rtags.add(int(r_ if l_ in firsts else l_))
            elif op_ is ast.LtE and l_ in firsts and r_.isdigit():
                small_r.append(int(r_))
            elif op_ is ast.Lt and l_ in firsts and r_.isdigit():
                small_r.append(int(r_) - 1)
        rtags = sorted(rtags)
        if wtags or rtags:
            # values written directly as the tag byte: `bytes([value])` is reached only under 0 <= value <= K
            small_w = []
            vpar = enc.args.args[0].arg if enc.args.args else None
            for c in ast.walk(enc):
                if isinstance(c, ast.Call) and dotted(c.func) == "bytes" and c.args and isinstance(c.args[0], ast.List) and len(c.args[0].elts) == 1 and isinstance(c.args[0].elts[0], ast.Name) and c.args[0].elts[0].id == vpar:
                    conds_ = lib.flatten_conditions(lib.guard_tests(c, enc))
                    ks = []
                    for t_, p_ in conds_:
                        cp_ = lib.cmp_parts(t_) if p_ else None
                        if cp_ and cp_[0] == vpar and cp_[2].lstrip("-").isdigit() and cp_[1] in (ast.LtE, ast.Lt):
                            ks.append(int(cp_[2]) - (1 if cp_[1] is ast.Lt else 0))
                    if ks and lib.holds(conds_, f"0 <= {vpar}", f"-1 < {vpar}"):
                        small_w.append(min(ks))
                    else:
                        small_w.append(None)
            # the reader's last tag is the else branch
            if not (set(rtags) <= set(wtags) and len(wtags) - len(rtags) <= 1 and small_w == small_r):
                problems.append(f"tag bytes: writer uses {wtags} / direct values <= {small_w}, reader tests {rtags} / direct values <= {small_r}")
        if problems:
            for p in problems:
                ctx.finding(R, dec, f"{name}: {p[:80]}", f"{name}: {p}: encoded values decode to something else")
        else:
            ctx.ok(R, dec, f"{name}: formats {fw or '(delegating)'} symmetric, sizes match")
    # scene / replay headers
    ser = model.cls(SE, "Serializer")
    ws, rs = ser.methods["writeScene"], ser.methods["readScene"]

    def seq_w(fn):
        out = []
        for s in fn.body:
            t = unparse(s)
            if "self.stream.write(" in t:
                out.append(("bytes", t))
            if "self.writeSample(" in t:
                out.append(("sample", t))
        return out

    w = seq_w(ws)
    r_reads = [lib.const(c.args[0]) for c in sorted(_reads(rs), key=lambda c: c.lineno)]
    fw = _formats(ws, "pack")
    asserts_w = {lib.role_text(ws, a.test) for a in walk_local(ws) if isinstance(a, ast.Assert)}
    written = [lib.role_text(ws, c.args[0]) for c in sorted((c for c in walk_local(ws) if isinstance(c, ast.Call) and unparse(c.func) == "self.stream.write" and c.args), key=lambda c: (c.lineno, c.col_offset))]
    okw = (
        [k for k, _ in w] == ["bytes", "bytes", "bytes", "sample"]
        and fw == ["<H"]
        and {lib.role_text(None, "len(scenario.astHash) == 4"), lib.role_text(None, "len(scenario.compileOptions.hash) == 4")} <= asserts_w
        and written == [lib.role_text(None, "struct.pack('<H', self.sceneFormatVersion())"), "scenario.astHash", "scenario.compileOptions.hash"]
    )
    okr = r_reads == [2, 4, 4] and _formats(rs, "unpack") == ["<H"] and "self.readSample(scenario.dependencies)" in unparse(rs) and "self.writeSample(scenario.dependencies, scene.sample)" in unparse(ws)
    if okw and okr:
        ctx.ok(R, rs, "scene: version(<H, 2 bytes) + AST hash(4) + options hash(4) + sample of scenario.dependencies, same order both ways")
    else:
        ctx.finding(R, rs, "scene header symmetry", f"writeScene writes {[k for k, _ in w]} with formats {fw}; readScene reads sizes {r_reads}: field sequence / widths differ")
    t = unparse(rs)
    checks = ["struct.unpack('<H', self.stream.read(2))[0] != self.sceneFormatVersion()", "verify and self.stream.read(4) != scenario.astHash", "verify and self.stream.read(4) != scenario.compileOptions.hash"]
    raising = {lib.role_text(rs, i.test) for i in walk_local(rs) if isinstance(i, ast.If) and any(isinstance(x, ast.Raise) and x.exc is not None and "SerializationError" in unparse(x.exc) for x in i.body)}
    miss = [c for c in checks if lib.role_text(None, c) not in raising]
    if not miss and t.count("raise SerializationError") >= 4:
        ctx.ok(R, rs, "readScene refuses another format version, another program (AST hash) and other compile options")
    else:
        ctx.finding(R, rs, "readScene verification", f"readScene no longer refuses {miss or 'mismatching headers'} with a SerializationError")
    wh, rh = ser.methods["writeReplayHeader"], ser.methods["readReplayHeader"]
    if _formats(wh, "pack") == ["<H", "<I"] and _formats(rh, "unpack") == ["<H", "<I"] and [lib.const(c.args[0]) for c in sorted(_reads(rh), key=lambda c: c.lineno)] == [2, 4]:
        ctx.ok(R, rh, "replay header: version(<H) + flags(<I) symmetric")
    else:
        ctx.finding(R, rh, "replay header symmetry", "writeReplayHeader / readReplayHeader no longer agree on version(<H) + flags(<I)")
    # Multiplexer / Samplable / Distribution (de)serialisation mirror each other
    for cname in ("Samplable", "Distribution", "MultiplexerDistribution"):
        ci = model.cls(DI, cname)
        s_, d_ = ci.methods.get("serializeValue"), ci.methods.get("deserializeValue")
        if s_ is None or d_ is None:
            continue
        ws_ = [lib.role_text(s_, c.args[0]) for c in sorted([c for c in ast.walk(s_) if isinstance(c, ast.Call) and isinstance(c.func, ast.Attribute) and c.func.attr == "writeSamplable"], key=lambda c: c.lineno)]
        rs_ = [lib.role_text(d_, c.args[0]) for c in sorted([c for c in ast.walk(d_) if isinstance(c, ast.Call) and isinstance(c.func, ast.Attribute) and c.func.attr == "readSamplable"], key=lambda c: c.lineno)]
        wv = [unparse(c.args[1]) for c in ast.walk(s_) if isinstance(c, ast.Call) and isinstance(c.func, ast.Attribute) and c.func.attr == "writeValue"]
        rv = [unparse(c.args[0]) for c in ast.walk(d_) if isinstance(c, ast.Call) and isinstance(c.func, ast.Attribute) and c.func.attr == "readValue"]
        loops_w = [unparse(l.iter) for l in ast.walk(s_) if isinstance(l, ast.For)]
        loops_r = [unparse(l.iter) for l in ast.walk(d_) if isinstance(l, ast.For)]
        if ws_ == rs_ and wv == rv and loops_w == loops_r:
            ctx.ok(R, d_, f"{cname}: serializeValue / deserializeValue visit {ws_ or wv} in the same order")
        else:
            ctx.finding(R, d_, f"{cname} (de)serializeValue order", f"{cname}.serializeValue writes {ws_}/{wv} over {loops_w} but deserializeValue reads {rs_}/{rv} over {loops_r}")


def check_fail_closed(ctx, R="C18.failclosed"):
    ctx.rule(
        R,
        "G14 fail-closed decode: the result of every stream.read(n) in a decoder flows into a consumer that raises on short input "
        "(struct.unpack, a length check raising SerializationError, a comparison against the expected header when verifying, subscript "
        "[0]); int.from_bytes(...), .decode() and a bare return accept truncated data silently and decode it to a different value",
    )
    model = ctx.model
    n = 0
    targets = []
    m = model.module(SE)
    for q, fn in m.functions.items():
        targets.append((q, fn))
    for ci in model.classes.values():
        if ci.module.path.startswith("src/scenic/") and "decodeFrom" in ci.methods and ci.module.name != SE:
            targets.append((f"{ci.name}.decodeFrom", ci.methods["decodeFrom"]))
    for q, fn in targets:
        for r in _reads(fn):
            if lib.enclosing_function(r) is not fn:
                continue
            n += 1
            p = parent(r)
            ok, why = False, ""
            if isinstance(p, ast.Call) and dotted(p.func) == "struct.unpack":
                ok, why = True, "struct.unpack raises on a short buffer"
            elif isinstance(p, ast.Subscript) and lib.const(p.slice) == 0:
                ok, why = True, "[0] raises on an empty read"
            elif isinstance(p, ast.Assign) and isinstance(p.targets[0], ast.Name):
                # every use of the buffer either raises on short input by itself or is reached only when its length was checked
                v = p.targets[0].id
                want_n = unparse(r.args[0]) if r.args else None
                uses = [x for x in walk_local(fn) if isinstance(x, ast.Name) and x.id == v and isinstance(x.ctx, ast.Load)]
                loose = []
                for u in uses:
                    up = parent(u)
                    if isinstance(up, ast.Call) and dotted(up.func) == "len":
                        continue  # the check itself
                    if any(isinstance(a, ast.Call) and dotted(a.func) == "struct.unpack" for a in ancestors(u) if a is not fn):
                        continue
                    if isinstance(up, ast.Compare) and all(isinstance(o, (ast.Eq, ast.NotEq)) for o in up.ops):
                        continue  # compared with the expected content
                    if isinstance(up, ast.Subscript) and lib.const(up.slice) == 0:
                        continue
                    if want_n is not None and lib.holds(lib.guard_tests(u, fn), f"len({v}) == {want_n}", f"len({v}) >= {want_n}"):
                        continue
                    loose.append(u)
                if uses and not loose:
                    ok, why = True, "every use is length-checked, compared with the expected content or unpacked with struct"
            elif isinstance(p, ast.Compare):
                ok, why = True, "length / content comparison"
            if ok:
                ctx.ok(R, r, f"{q}: `{norm_text(p, 60)}` fails closed ({why})")
            else:
                ctx.finding(
                    R,
                    r,
                    f"{q}: unchecked read {norm_text(p, 60)}",
                    f"{q}: `{norm_text(lib.statement_of(r), 80)}` uses the result of `{unparse(r)}` without checking that {unparse(r.args[0])} bytes arrived: "
                    f"truncated data is accepted and silently decodes to a different value (e.g. a 2-byte integer cut to 1 byte)",
                )
    ctx.floor(R, n, 10, "stream.read sites in decoders")


def check_errors(ctx, R="C18.errors"):
    ctx.rule(
        R,
        "decoding errors are serialization errors: everything Serializer.readScene does after the header (reading the sample, which indexes "
        "option lists by decoded integers, and assembling the scene, which asserts on decoded data) sits inside a handler that converts any "
        "exception into SerializationError; readValue wraps its codec calls likewise",
    )
    model = ctx.model
    ser = model.cls(SE, "Serializer")
    rs = ser.methods["readScene"]
    for needle in ("self.readSample(", "scenario._makeSceneFromSample("):
        calls = [c for c in ast.walk(rs) if isinstance(c, ast.Call) and unparse(c).startswith(needle)]
        if not calls:
            ctx.finding(R, rs, f"readScene lacks {needle}", f"readScene no longer calls {needle}...)")
            continue
        c = calls[0]
        wrapped = False
        for a in ancestors(c):
            if isinstance(a, ast.Try) and any(x is c for b in a.body for x in ast.walk(b)):
                for h in a.handlers:
                    broad = h.type is None or unparse(h.type) in ("Exception", "BaseException")
                    if broad and any(isinstance(x, ast.Raise) and x.exc is not None and "SerializationError" in unparse(x.exc) for x in ast.walk(h)):
                        wrapped = True
        if wrapped:
            ctx.ok(R, c, f"readScene: `{needle}...)` failures are reported as SerializationError")
        else:
            ctx.finding(
                R,
                c,
                f"readScene: unwrapped {needle}",
                f"Serializer.readScene calls `{unparse(c)[:60]}` outside any `except Exception -> raise SerializationError`: corrupted bytes that decode to an "
                f"out-of-range option index or violate an assertion escape as IndexError / AssertionError / KeyError",
            )
    rv = ser.methods["readValue"]
    tr = [t for t in ast.walk(rv) if isinstance(t, ast.Try)]
    decs = set()
    for n_ in walk_local(rv):
        if isinstance(n_, ast.Assign) and isinstance(n_.targets[0], ast.Tuple) and len(n_.targets[0].elts) == 2 and "self.codecs[" in unparse(n_.value) and isinstance(n_.targets[0].elts[1], ast.Name):
            decs.add(n_.targets[0].elts[1].id)
    if tr and any(h.type is not None and unparse(h.type) == "Exception" and "raise SerializationError" in unparse(h) for h in tr[0].handlers) and any(f"{d}(self.stream)" in unparse(tr[0]) for d in decs | {"self.codecs[ty][1]"}):
        ctx.ok(R, rv, "readValue converts any codec failure into SerializationError")
    else:
        ctx.finding(R, rv, "readValue wrapping", "Serializer.readValue no longer wraps decoder calls in `except Exception -> SerializationError`")


def check_deterministic(ctx, R="C18.deterministic"):
    ctx.rule(
        R,
        "deterministic nodes are RNG-free: a node that is serialised through its dependencies only (Distribution with _deterministic = True, "
        "or a Samplable that is not a Distribution: regions, objects) must recompute the same value from the decoded dependencies, so the "
        "call closure of its sampleGiven (same-class helpers, and methods it calls by name on its fields) contains no random.* / "
        "numpy.random.* / trimesh.sample.*",
    )
    model = ctx.model
    dist = model.cls(DI, "Distribution")
    classes = core_classes_with(model, "sampleGiven")
    n = 0
    by_method = {}
    for ci in model.classes.values():
        if ci.module.path.startswith("src/scenic/core/"):
            for mn, f in ci.methods.items():
                by_method.setdefault(mn, []).append((ci, f))

    def rng_calls(fn):
        return [c for c in ast.walk(fn) if isinstance(c, ast.Call) and (dotted(c.func) or "").startswith(RNG_PREFIXES)]

    for ci in classes:
        is_dist = dist in model.mro(ci)
        det = False
        for c in model.mro(ci):
            if "_deterministic" in c.class_attrs:
                det = lib.const(c.class_attrs["_deterministic"].value) is True
                break
        if is_dist and not det:
            continue
        if ci.name in ("Samplable",):
            continue
        n += 1
        fn = ci.methods["sampleGiven"]
        direct = rng_calls(fn)
        via = []
        for c in ast.walk(fn):
            if isinstance(c, ast.Call) and isinstance(c.func, ast.Attribute) and not (isinstance(c.func.value, ast.Name) and c.func.value.id in ("value", "self", "super")):
                mname = c.func.attr
                if mname in ("appliedTo",):
                    for oc, of in by_method.get(mname, []):
                        rc = rng_calls(of)
                        if rc:
                            via.append((c, oc, rc[0]))
            if isinstance(c, ast.Call) and isinstance(c.func, ast.Attribute) and isinstance(c.func.value, ast.Name) and c.func.value.id == "self":
                found = model.find_method(ci, c.func.attr)
                if found and found[1] is not fn:
                    rc = rng_calls(found[1])
                    if rc:
                        via.append((c, found[0], rc[0]))
        if direct:
            ctx.finding(R, direct[0], f"{ci.name}.sampleGiven draws {unparse(direct[0].func)}", f"{ci.name} is decoded by recomputing sampleGiven from its dependencies, but sampleGiven calls `{unparse(direct[0])[:50]}`: a decoded scene differs from the encoded one")
        elif via:
            c, oc, rc = via[0]
            ctx.finding(
                R,
                c,
                f"{ci.name}.sampleGiven -> {oc.name}.{c.func.attr} draws {unparse(rc.func)}",
                f"{ci.name} is serialised through its dependencies only, but its sampleGiven calls `{unparse(c)[:50]}`, implemented by {oc.name}.{c.func.attr} with "
                f"`{unparse(rc)[:50]}`: the noise is drawn again when decoding, so a mutated scene decodes to a different scene",
            )
        else:
            ctx.ok(R, fn, f"{ci.name}.sampleGiven is a deterministic function of its dependencies")
    ctx.floor(R, n, 18, "dependency-serialised Samplable classes")
    # primitive distributions: value type has a codec or encodeTo
    codecs = set()
    m = model.module(SE)
    for c in ast.walk(m.tree):
        if isinstance(c, ast.Call) and dotted(c.func) == "Serializer.addCodec":
            codecs.add(unparse(c.args[0]))
    enc = {ci.name for ci in model.classes.values() if "encodeTo" in ci.methods}
    for ci in classes:
        if dist not in model.mro(ci):
            continue
        det = any(lib.const(c.class_attrs["_deterministic"].value) is True for c in model.mro(ci) if "_deterministic" in c.class_attrs)
        if det:
            continue
        init = ci.methods.get("__init__")
        vt = None
        if init is not None:
            for c in ast.walk(init):
                if isinstance(c, ast.Call) and "super().__init__" in unparse(c.func):
                    v = lib.kw(c, "valueType")
                    if v is not None:
                        vt = unparse(v)
        if vt is None:
            continue
        if vt in codecs or vt in enc or vt in ("valueType",):
            ctx.ok(R, init, f"{ci.name}: sampled value of type {vt} has a codec")
        else:
            ctx.finding(R, init, f"{ci.name} valueType {vt} has no codec", f"primitive distribution {ci.name} samples values of type `{vt}`, for which no codec / encodeTo exists")



RUNTIME_MODULE_PREFIXES = ("scenic.core.dynamics", "scenic.core.simulators")
NOT_DRAWS = {"getstate", "setstate", "get_state", "set_state", "default_rng", "seed", "Random", "RandomState", "Generator"}
RUNTIME_RNG_OK = {}  # qualname -> reason (none on the current tree)


def check_recorded(ctx, R="C18.recorded"):
    ctx.rule(
        R,
        "every run-time draw is recorded: the code that executes while a simulation runs (scenic.core.dynamics.*, scenic.core.simulators) "
        "never calls the global generators (random.*, numpy.random.*) itself; its random choices are made by constructing distribution "
        "objects, whose Distribution.__new__ records the value during a simulation and takes it from the replay when one is followed "
        "(C19.runtime checks that path).  A direct draw is invisible to the replay: the replayed run takes another branch whenever the "
        "generator state differs.  Positive control: the same matcher must find the draws of the primitive distributions",
    )
    model = ctx.model

    def rng_target(mod, c):
        r = model.resolve_expr(mod, c.func)
        if isinstance(r, tuple) and r[0] == "ext" and (r[1].startswith(("random.", "numpy.random.")) or r[1] in ("random", "numpy.random")):
            if r[1].rsplit(".", 1)[-1] in NOT_DRAWS:
                return None  # reading or restoring the generator state draws nothing (that is C19.rewind's question)
            return r[1]
        return None

    n_rt = n_ctrl = 0
    for mod in model.modules.values():
        runtime = mod.name.startswith(RUNTIME_MODULE_PREFIXES)
        control = mod.name == DI
        if not (runtime or control):
            continue
        for c in ast.walk(mod.tree):
            if not isinstance(c, ast.Call):
                continue
            tgt = rng_target(mod, c)
            if tgt is None:
                continue
            if control:
                n_ctrl += 1
                continue
            n_rt += 1
            q = lib.qualname_of(c)
            if q in RUNTIME_RNG_OK:
                ctx.ok(R, c, f"{q}: `{tgt}` allowed: {RUNTIME_RNG_OK[q]}")
            else:
                ctx.finding(
                    R,
                    c,
                    f"{q} draws {tgt} at run time",
                    f"{q} ({mod.path}) calls `{norm_text(c, 60)}` ({tgt}) while a simulation runs: the draw is neither written to the recording nor taken from a replay, so replaying "
                    f"the simulation (Simulator.replay / simulationFromBytes) follows a different branch; run-time choices must be made through a distribution object (e.g. Options)",
                )
    if n_rt == 0:
        ctx.ok(R, model.module(SI).tree.body[0], "no direct use of random / numpy.random in the modules that run during a simulation")
    ctx.floor(R, n_ctrl, 4, "global-generator draws found in scenic.core.distributions (positive control of the matcher)")
    # the run-time choice of `do choose` / `do shuffle` is an Options object
    iv = model.module("scenic.core.dynamics.invocables")
    pick = [f for q, f in iv.functions.items() if q.endswith("pickEnabledInvocable")]
    if pick:
        rets = [r for r in lib.returns_of(pick[0]) if r.value is not None]
        vals = []
        for r in rets:
            if isinstance(r.value, ast.Name):
                # every value the returned local may hold
                vals.extend(n.value for n in walk_local(pick[0]) if isinstance(n, ast.Assign) and any(isinstance(t, ast.Name) and t.id == r.value.id for t in n.targets))
            else:
                vals.append(r.value)
        multi = [v for v in vals if isinstance(v, ast.Call)]
        if any(dotted(v.func) == "Options" for v in multi):
            ctx.ok(R, pick[0], "a choice among several enabled alternatives is an Options object (sampled, recorded and replayed by Distribution.__new__)")
        else:
            ctx.finding(R, pick[0], "pickEnabledInvocable choice", f"pickEnabledInvocable no longer chooses among several enabled alternatives by building Options(...) (returns {[unparse(v)[:50] for v in vals]}): the choice is not recorded for replay")



INJECTIVE_CONVERSIONS = {"str", "repr", "bytes"}  # distinct values (of one type) give distinct text / bytes
INJECTIVE_METHODS = {"encode", "hex", "to_bytes"}


def check_options_hash(ctx, R="C18.options"):
    ctx.rule(
        R,
        "different options give different header bytes: in deterministicHash (the compile-options / parameter hash stored in the scene "
        "header) every key and every supported value reaches hasher.update only through conversions that keep distinct values distinct "
        "(str / repr / bytes and .encode()); a lossy conversion (struct.pack as a double, float(), int(), round(), hash(), a format "
        "specification) makes different option values hash alike, so data from other compile options is accepted instead of refused",
    )
    model = ctx.model
    fn = model.func(SE, "deterministicHash")
    mp = fn.args.args[0].arg
    # the value variable: the local bound to <mapping>[key]
    vnames = set(lib.locals_assigned(fn, lambda v: isinstance(v, ast.Subscript) and unparse(v.value) == mp))
    keyvars = {n.target.id for n in ast.walk(fn) if isinstance(n, ast.For) and isinstance(n.target, ast.Name) and mp in lib.names_loaded(n.iter)}
    ups = [c for c in walk_local(fn) if isinstance(c, ast.Call) and isinstance(c.func, ast.Attribute) and c.func.attr == "update" and c.args]

    def deref(e):
        for _ in range(4):
            if isinstance(e, ast.Name) and e.id not in vnames | keyvars:
                v = lib.local_value(fn, e.id)
                if v is None:
                    break
                e = v
            else:
                break
        return e

    n = 0
    for c in ups:
        arg = deref(c.args[0])  # a local holding the converted value stands for the conversion
        used = lib.names_loaded(arg) & (vnames | keyvars)
        if not used:
            continue
        n += 1
        bad = None
        for x in ast.walk(arg):
            if isinstance(x, ast.Call):
                cn = dotted(x.func) or ""
                if cn in INJECTIVE_CONVERSIONS:
                    continue
                if isinstance(x.func, ast.Attribute) and x.func.attr in INJECTIVE_METHODS and not cn.startswith("struct."):
                    continue
                bad = x
            elif isinstance(x, (ast.JoinedStr, ast.BinOp, ast.Subscript)):
                bad = x
        if bad is None:
            ctx.ok(R, c, f"`{norm_text(arg, 40)}` keeps distinct values distinct")
        else:
            ctx.finding(
                R,
                c,
                f"lossy conversion {norm_text(bad, 40)} in the options hash",
                f"deterministicHash feeds `{norm_text(arg, 60)}` to the hash: `{norm_text(bad, 40)}` is not one of the conversions that keep distinct values distinct (str / repr / "
                f".encode()); e.g. packing a number as a double maps 2**53 and 2**53 + 1 (and 1 and 1.0) to the same bytes, so a scene encoded under other options is accepted",
            )
    ctx.floor(R, n, 2, "hasher.update calls fed from the option keys / values")
    # every option contributes: nothing skips an iteration of the loop over the keys, and the key is fed unconditionally
    loops = [l for l in walk_local(fn) if isinstance(l, ast.For) and mp in lib.names_loaded(l.iter)]
    if len(loops) != 1:
        raise AnalysisError("shape not recognised: the loop over the options in deterministicHash")
    lp = loops[0]
    skips = [x for x in ast.walk(lp) if isinstance(x, (ast.Continue, ast.Break)) or (isinstance(x, ast.Return) and x is not None)]
    key_updates = [c for c in ups if lib.names_loaded(deref(c.args[0])) & keyvars and any(c is y for y in ast.walk(lp))]
    conditional = [c for c in key_updates if lib.enclosing_tests(c, lp)]
    if skips or conditional or not key_updates:
        where = skips[0] if skips else (conditional[0] if conditional else lp)
        ctx.finding(
            R,
            where,
            "an option can be left out of the hash",
            f"deterministicHash does not feed every key of the mapping to the hash (`{norm_text(where, 50)}` skips some): an option given with such a value (e.g. None / False) hashes like "
            f"an option that was not given at all, so a cache or an encoded scene produced under other options is accepted",
        )
    else:
        ctx.ok(R, lp, "every key of the mapping contributes to the hash, whatever its value")


def check_divergence(ctx, R="C18.divergence"):
    ctx.rule(
        R,
        "G11 sign domain: the quantity compared with divergenceTolerance in Simulation.valuesHaveDiverged is non-negative by construction "
        "(abs(...), a norm, a distance) on every path, so a recorded value that is larger than the replayed one diverges just like a smaller one",
    )
    model = ctx.model
    fn = model.func(SI, "Simulation.valuesHaveDiverged")
    if len(fn.args.args) < 5:
        raise AnalysisError("shape not recognised: parameters of valuesHaveDiverged")
    exp_p, act_p = fn.args.args[3].arg, fn.args.args[4].arg  # (self, obj, prop, expected, actual)

    def decide(test, env, asm):
        # truthiness of a local whose value on this path is the constant None
        if isinstance(test, ast.Name) and isinstance(env.get(test.id), ast.Constant) and env[test.id].value is None:
            return False
        return None

    def resolve(e, env, depth=0):
        if depth > 6:
            return e

        class T(ast.NodeTransformer):
            def visit_Name(self, n):
                v = env.get(n.id)
                if isinstance(v, ast.AST) and isinstance(n.ctx, ast.Load) and not (isinstance(v, ast.Name) and v.id.startswith("<")):
                    return resolve(v, env, depth + 1)
                return n

        return T().visit(lib._clone(e))

    def magnitude_of_difference(e):
        """e is |actual - expected| written as abs(a - e), (a - e).norm(), a.distanceTo(e), math.dist(a, e) ... (either order)"""
        pair = {exp_p, act_p}
        if isinstance(e, ast.Call):
            cn = dotted(e.func) or ""
            if cn in ("abs", "math.fabs", "numpy.linalg.norm", "np.linalg.norm") and len(e.args) == 1:
                d = e.args[0]
                return isinstance(d, ast.BinOp) and isinstance(d.op, ast.Sub) and {unparse(d.left), unparse(d.right)} == pair
            if isinstance(e.func, ast.Attribute) and e.func.attr == "norm" and not e.args:
                d = e.func.value
                return isinstance(d, ast.BinOp) and isinstance(d.op, ast.Sub) and {unparse(d.left), unparse(d.right)} == pair
            if isinstance(e.func, ast.Attribute) and e.func.attr == "distanceTo" and len(e.args) == 1:
                return {unparse(e.func.value), unparse(e.args[0])} == pair
            if cn == "math.dist" and len(e.args) == 2:
                return {unparse(e.args[0]), unparse(e.args[1])} == pair
        return False

    def verdict(v):
        """None when `v` decides divergence soundly, else what is wrong with it"""
        # exact comparison: the strictest possible answer
        if isinstance(v, ast.Compare) and len(v.ops) == 1 and isinstance(v.ops[0], ast.NotEq) and {unparse(v.left), unparse(v.comparators[0])} == {exp_p, act_p}:
            return None
        if isinstance(v, ast.UnaryOp) and isinstance(v.op, ast.Not) and isinstance(v.operand, ast.Compare) and len(v.operand.ops) == 1 and isinstance(v.operand.ops[0], ast.Eq) and {unparse(v.operand.left), unparse(v.operand.comparators[0])} == {exp_p, act_p}:
            return None
        if isinstance(v, ast.Compare) and len(v.ops) == 1 and isinstance(v.ops[0], (ast.Gt, ast.GtE, ast.Lt, ast.LtE)):
            l_, r_ = v.left, v.comparators[0]
            if isinstance(v.ops[0], (ast.Lt, ast.LtE)):
                l_, r_ = r_, l_
            # now: l_ > r_  or  l_ >= r_
            if unparse(r_) != "self.divergenceTolerance":
                return f"`{unparse(v)}` does not compare a difference with self.divergenceTolerance from above"
            if not magnitude_of_difference(l_):
                return (
                    f"`{unparse(v)}` compares `{unparse(l_)}`, which is not the magnitude of the difference of `{act_p}` and `{exp_p}` (abs / norm / distance), with the tolerance: "
                    f"a replay whose value is smaller than the recording by more than the tolerance is reported as not diverged"
                )
            return None
        return f"`{unparse(v)}` is neither `|{act_p} - {exp_p}| > self.divergenceTolerance` nor the exact comparison `{act_p} != {exp_p}` (e.g. math.isclose adds a relative tolerance: small deviations of large values pass unreported even with tolerance 0)"

    n = 0
    for asm, env, ex in lib.enumerate_paths(fn, decide=decide):
        if not isinstance(ex, ast.Return):
            if ex is None:
                ctx.finding(R, fn, "valuesHaveDiverged falls off its end", "a path of valuesHaveDiverged returns None (read as: not diverged)")
            continue
        n += 1
        v = resolve(ex.value, env) if ex.value is not None else ast.Constant(None)
        why = verdict(v)
        # a magnitude of 0 may also be sent to the exact comparison (`if diff:`): nothing to check there beyond the verdict
        if why is None:
            ctx.ok(R, ex, f"`{norm_text(v, 70)}` decides divergence from the magnitude of the difference, or exactly")
        else:
            ctx.finding(R, ex, f"divergence verdict {norm_text(v, 50)}", f"valuesHaveDiverged: on the path {dict(asm) or '{}'} the answer is {why}")
    ctx.floor(R, n, 2, "result paths of valuesHaveDiverged")


def _sign(e):
    if isinstance(e, ast.Call):
        cn = dotted(e.func) or ""
        if cn in ("abs", "math.fabs", "math.hypot", "math.dist", "numpy.linalg.norm", "np.linalg.norm"):
            return "NONNEG"
        if isinstance(e.func, ast.Attribute) and e.func.attr in ("norm", "distanceTo"):
            return "NONNEG"
    return "ANY"


def check_streams(ctx, R="C18.streams"):
    ctx.rule(
        R,
        "record and replay are independent streams: in Simulation, whether a value is READ from the replay being followed depends only "
        "on the input side (replaying / replayCanContinue() / the recorded header's flags), and whether it is WRITTEN to the new recording "
        "only on the output side; a read that is skipped because a write happened (elif) leaves the input stream out of step, and every "
        "later value is decoded from the wrong bytes.  The divergence data are written and read over the same collection with the same "
        "types.  Samplable.serializeValue / deserializeValue / sample all go through the same (conditioned) object",
    )
    model = ctx.model
    sim = model.cls(SI, "Simulation")
    IN = ("_replayIn", "replaying", "replayCanContinue", "_checkDivergence")
    OUT = ("_replayOut", "_writeDivergenceData")
    n = 0
    loops = {"in": [], "out": []}
    for mname, fn in sim.methods.items():
        if mname in ("initializeReplay", "__init__"):
            continue
        for c in walk_local(fn):
            if not (isinstance(c, ast.Call) and isinstance(c.func, ast.Attribute)):
                continue
            recv = unparse(c.func.value)
            side = "in" if recv == "self._replayIn" and c.func.attr.startswith(("read", "deserialize")) else "out" if recv == "self._replayOut" and c.func.attr.startswith(("write", "serialize")) else None
            if side is None:
                for a in c.args:
                    if unparse(a) == "self._replayIn" and "deserialize" in c.func.attr:
                        side = "in"
                    elif unparse(a) == "self._replayOut" and "serialize" in c.func.attr:
                        side = "out"
            if side is None:
                continue
            n += 1
            other = OUT if side == "in" else IN
            conds = lib.path_conditions(c, fn)
            bad = [(t, p) for t, p in conds if any(k in unparse(t) for k in other)]
            lp = next((a for a in ancestors(c) if isinstance(a, ast.For)), None)
            if lp is not None:
                loops[side].append((fn, lp, c))
            if bad:
                t, p = bad[0]
                ctx.finding(
                    R,
                    c,
                    f"Simulation.{mname}: {side}put stream depends on the other side",
                    f"Simulation.{mname}: `{norm_text(c, 60)}` ({'reads the replay' if side == 'in' else 'writes the recording'}) is reached only when "
                    f"`{unparse(t)}` is {p}: a run that both records and replays skips it, so the {'replay is read out of step and later values are decoded from the wrong bytes' if side == 'in' else 'recording misses values'}",
                )
            else:
                ctx.ok(R, c, f"Simulation.{mname}: `{norm_text(c, 50)}` depends only on the {side}put side")
    ctx.floor(R, n, 4, "replay stream operations in Simulation")
    # divergence data: same collection, same types both ways
    for (f1, l1, c1) in loops["out"]:
        for (f2, l2, c2) in loops["in"]:
            if f1 is f2:
                ty1 = unparse(c1.args[1]) if len(c1.args) > 1 else None
                ty2 = unparse(c2.args[0]) if c2.args else None
                if unparse(l1.iter) == unparse(l2.iter) and unparse(l1.target) == unparse(l2.target) and ty1 == ty2:
                    ctx.ok(R, l2, f"divergence data written and read over `{unparse(l1.iter)}` with the same types")
                else:
                    ctx.finding(R, l2, "divergence data symmetry", f"divergence data are written over `{unparse(l1.iter)}` (type `{ty1}`) but read over `{unparse(l2.iter)}` (type `{ty2}`)")
    # the conditioned object
    sa = model.cls(DI, "Samplable")
    recv = {}
    for mname in ("sample", "serializeValue", "deserializeValue"):
        fn = sa.methods.get(mname)
        if fn is None:
            raise AnalysisError(f"Samplable.{mname} missing")
        rs = set()
        for node in walk_local(fn):
            if isinstance(node, ast.Call) and isinstance(node.func, ast.Attribute) and node.func.attr == "sampleGiven":
                rs.add(("value", unparse(node.func.value)))
            if isinstance(node, ast.Attribute) and node.attr == "_dependencies":
                rs.add(("deps", unparse(node.value)))
        recv[mname] = rs
    objs = {o for rs in recv.values() for _, o in rs}
    if objs == {"self._conditioned"} and recv["deserializeValue"] >= {("value", "self._conditioned"), ("deps", "self._conditioned")}:
        ctx.ok(R, sa.methods["deserializeValue"], "sample / serializeValue / deserializeValue all use self._conditioned: a conditioned value is encoded and decoded as the value that was sampled")
    else:
        ctx.finding(
            R,
            sa.methods["deserializeValue"],
            "conditioned object not used consistently",
            f"Samplable.sample / serializeValue / deserializeValue use {dict((k, sorted(v)) for k, v in recv.items())}: the children are read for `self._conditioned` but the value is "
            f"recomputed from another object, so after conditionOn / pruning the decoded scene holds unsampled distributions",
        )


def check_record(ctx, R="C18.record"):
    from .c19 import check_runtime_sampling

    check_runtime_sampling(ctx, R)


def check_dispatch(ctx, R="C18.dispatch"):
    ctx.rule(
        R,
        "nested values go through the serializer's dispatcher: inside an implementation of serializeValue / deserializeValue a nested samplable is "
        "written / read with serializer.writeSamplable / readSamplable (which skips values that need no sampling and writes a value that is referenced "
        "several times ONCE, recording it in `values`); a direct call of another object's serializeValue / deserializeValue bypasses that bookkeeping, so "
        "a value shared between the nested object and the rest of the scene is written twice (or not read back into `values`) and the two sides go out of step",
    )
    model = ctx.model
    n = 0
    for mname in sorted(model._paths):
        if not mname.startswith("scenic.core"):
            continue
        try:
            src = model.read(model._paths[mname])
        except Exception:
            continue
        if "serializeValue" not in src:
            continue
        m = model.module(mname)
        for q, fn in m.functions.items():
            if q.split(".")[-1] not in ("serializeValue", "deserializeValue"):
                continue
            n += 1
            bad = []
            for c in walk_local(fn):
                if isinstance(c, ast.Call) and isinstance(c.func, ast.Attribute) and c.func.attr in ("serializeValue", "deserializeValue"):
                    recv = c.func.value
                    if isinstance(recv, ast.Call) and dotted(recv.func) == "super":
                        continue
                    bad.append(c)
            for c in bad:
                ctx.finding(
                    R,
                    c,
                    f"{q} calls {c.func.attr} directly",
                    f"{mname}:{q} calls `{norm_text(c, 60)}` instead of serializer.{'writeSamplable' if c.func.attr == 'serializeValue' else 'readSamplable'}: the nested value is "
                    f"encoded again even when it was already written for another object that refers to it (and `values` is not consulted), so encoder and decoder disagree "
                    f"about the layout for scenes in which the selected option is shared",
                )
            if not bad:
                ctx.ok(R, fn, f"{mname}:{q}: nested values only through the dispatcher")
    ctx.floor(R, n, 6, "serializeValue / deserializeValue implementations")


def check(ctx):
    ctx.run(check_symmetry)
    ctx.run(check_fail_closed)
    ctx.run(check_errors)
    ctx.run(check_deterministic)
    ctx.run(check_divergence)
    ctx.run(check_streams)
    ctx.run(check_record)
    ctx.run(check_recorded)
    ctx.run(check_options_hash)
    ctx.run(check_dispatch)
