"""C06 -- specifier resolution follows the documented priorities, whatever the order."""

import ast
import itertools

from .. import lib, specs
from ..docs import specifier_entries
from ..model import AnalysisError, dotted, norm_text, parent, unparse, walk_local

OT = "scenic.core.object_types"
VE = specs.VENEER

# manual heading -> (veneer functions, variant selector).  Frozen; completeness is checked both ways.
DOC_MAP = [
    ("with *property*", ["With"], None),
    ("at *vector*", ["At"], None),
    ("in *region*", ["In"], None),
    ("contained in *region*", ["ContainedIn"], None),
    ("on (", ["On"], None),
    ("offset by", ["OffsetBy"], None),
    ("offset along", ["OffsetAlongSpec"], None),
    ("beyond", ["Beyond"], None),
    ("visible [from", ["VisibleFrom", "VisibleSpec"], None),
    ("not visible [from", ["NotVisibleFrom", "NotVisibleSpec"], None),
    ("(left | right) of (*vector*)", ["LeftSpec", "RightSpec"], "vector"),
    ("(left | right) of *OrientedPoint*", ["LeftSpec", "RightSpec"], "op"),
    ("(left | right) of *Object*", ["LeftSpec", "RightSpec"], "object"),
    ("(ahead of | behind) *vector*", ["Ahead", "Behind"], "vector"),
    ("(ahead of | behind) *OrientedPoint*", ["Ahead", "Behind"], "op"),
    ("(ahead of | behind) *Object*", ["Ahead", "Behind"], "object"),
    ("(above | below) *vector*", ["Above", "Below"], "vector"),
    ("(above | below) *OrientedPoint*", ["Above", "Below"], "op"),
    ("(above | below) *Object*", ["Above", "Below"], "object"),
    ("following", ["Following"], None),
    ("facing *orientation*", ["Facing"], "nofield"),
    ("facing *vectorField*", ["Facing"], "field"),
    ("facing (toward | away from)", ["FacingToward", "FacingAwayFrom"], None),
    ("facing directly (toward | away from)", ["FacingDirectlyToward", "FacingDirectlyAwayFrom"], None),
    ("apparently facing", ["ApparentlyFacing"], None),
]
HELPERS = {"directionalSpecHelper"}  # reached only through the six directional functions


def select(variants, sel):
    if sel is None:
        return variants
    out = []
    for v in variants:
        if sel == "object" and v.cond_true("isA(pos, Object)"):
            out.append(v)
        elif sel == "op" and v.cond_false("isA(pos, Object)") and v.cond_true("isA(pos, OrientedPoint)"):
            out.append(v)
        elif sel == "vector" and v.cond_false("isA(pos, Object)") and v.cond_false("isA(pos, OrientedPoint)"):
            out.append(v)
        elif sel == "field" and v.cond_true("isA(heading, VectorField)"):
            out.append(v)
        elif sel == "nofield" and v.cond_false("isA(heading, VectorField)"):
            out.append(v)
    return out


def public(pr):
    return {k: v[0] for k, v in pr.items() if not (isinstance(k, str) and k.startswith("_"))}


def all_variants(ctx):
    if getattr(ctx, "_spec_variants", None) is not None:
        return ctx._spec_variants
    ctx._spec_variants = _all_variants(ctx)
    return ctx._spec_variants


def _all_variants(ctx):
    model = ctx.model
    names = specs.spec_function_names(model)
    table = {}
    for n in names:
        table[n] = specs.extract_variants(model, n)
    return names, table


def check_docs_table(ctx, R="C06.table"):
    ctx.rule(
        R,
        "manual <-> code: for every specifier heading of docs/reference/specifiers.rst the set of (property -> priority), the "
        "'modifies' flag and the dependency set read from the manual equal what the corresponding veneer function passes to "
        "Specifier/ModifyingSpecifier/DelayedArgument on every path (conditional entries: on some path with that priority, on no path with another)",
    )
    model = ctx.model
    entries = specifier_entries(model)
    ctx.floor(R, len(entries), 25, "specifier entries in the manual")
    names, table = all_variants(ctx)
    ctx.floor(R, len(names), 25, "specifier-building functions in veneer")
    covered = set()
    m = model.module(VE)
    for e in entries:
        match = [x for x in DOC_MAP if e["heading"].startswith(x[0])]
        if len(match) != 1:
            raise AnalysisError(f"manual entry '{e['heading']}' (specifiers.rst:{e['line']}) is not in the checker's heading table")
        _, funcs, sel = match[0]
        for f in funcs:
            if f not in table:
                ctx.finding(R, "src/scenic/syntax/veneer.py", f"missing spec function {f}", f"manual entry '{e['heading']}' has no veneer function `{f}`", qualname=f)
                continue
            covered.add(f)
            vs = select(table[f], sel)
            if not vs:
                raise AnalysisError(f"shape not recognised: no path of veneer.{f} matches the manual variant '{e['heading']}'")
            fn = m.functions[f]
            doc_pr = {k: v["priority"] for k, v in e["specifies"].items()}
            doc_cond = {k for k, v in e["specifies"].items() if v["conditional"]}
            problems = []
            seen_cond = {k: False for k in doc_cond}
            for v in vs:
                pr = public(v.priorities)
                if e["given"]:
                    if list(pr.items()) != [("$prop", e["given"])]:
                        problems.append(f"specifies {pr}, manual: the given property with priority {e['given']}")
                    continue
                for k, p in pr.items():
                    if k not in doc_pr:
                        problems.append(f"specifies `{k}` (priority {p}), which the manual does not list")
                    elif doc_pr[k] != p:
                        problems.append(f"specifies `{k}` with priority {p}, manual says {doc_pr[k]}")
                    if k in seen_cond:
                        seen_cond[k] = True
                for k in doc_pr:
                    if k not in pr and k not in doc_cond:
                        problems.append(f"does not specify `{k}` on the path {[c for c in v.conds][-2:]}, manual lists it unconditionally with priority {doc_pr[k]}")
                deps = {d for d in v.deps}
                if deps != e["deps"]:
                    problems.append(f"declares dependencies {sorted(deps)}, manual says {sorted(e['deps'])}")
                doc_mod = {k for k, vv in e["specifies"].items() if vv["modifies"]}
                code_mod = v.modifiable if v.modifying else set()
                if doc_mod != code_mod:
                    problems.append(f"modifiable properties {sorted(code_mod)}, manual says {sorted(doc_mod)}")
            for k, ok in seen_cond.items():
                if not ok:
                    problems.append(f"never specifies `{k}`, which the manual lists conditionally")
            problems = sorted(set(problems))
            if problems:
                for p in problems:
                    ctx.finding(R, fn, f"{f} vs manual '{e['heading'][:40]}': {p[:80]}", f"veneer.{f} {p} (specifiers.rst:{e['line']} '{e['heading']}')")
            else:
                ctx.ok(R, fn, f"veneer.{f} [{sel or 'all paths'}] = manual '{e['heading']}': {doc_pr or 'given property'} deps {sorted(e['deps'])}")
    for n in names:
        if n not in covered and n not in HELPERS:
            ctx.finding(R, m.functions[n], f"undocumented specifier {n}", f"veneer.{n} builds a Specifier but no manual entry is mapped to it")


def _context_reads(helper, bindings, depth=0):
    """Attributes read from the context (first parameter) of a helper function / lambda, following the
    context when it is passed on to a lambda bound in `bindings`.  Returns (reads, guarded)."""
    if helper is None or depth > 3:
        return set(), set()
    if isinstance(helper, ast.Lambda):
        params = [a.arg for a in helper.args.args]
        body = [helper.body]
    elif isinstance(helper, ast.FunctionDef):
        params = [a.arg for a in helper.args.args]
        body = helper.body
    else:
        return None, None
    if not params:
        return set(), set()
    c = params[0]
    reads, guarded = set(), set()
    for s in body:
        for n in ast.walk(s):
            if isinstance(n, ast.Attribute) and isinstance(n.value, ast.Name) and n.value.id == c and isinstance(n.ctx, ast.Load):
                g = any(f"hasattr({c}, '{n.attr}')" in unparse(t) and p for t, p in lib.guard_tests(n, helper))
                (guarded if g else reads).add(n.attr)
            if isinstance(n, ast.Call) and isinstance(n.func, ast.Name) and n.func.id in (bindings or {}) and isinstance(bindings[n.func.id], ast.Lambda):
                for i, a in enumerate(n.args):
                    if isinstance(a, ast.Name) and a.id == c:
                        lam = bindings[n.func.id]
                        lp = [x.arg for x in lam.args.args]
                        if i < len(lp):
                            sub = ast.Lambda(args=ast.arguments(posonlyargs=[], args=[ast.arg(arg=lp[i])], kwonlyargs=[], kw_defaults=[], defaults=[]), body=lam.body)
                            r2, g2 = _context_reads(sub, bindings, depth + 1)
                            reads |= r2 or set()
                            guarded |= g2 or set()
    return reads, guarded


def final_closure(model):
    """{final property: its declared dependencies} from the PropertyDefault tables of object_types.py."""
    out = {}
    for site in property_defaults(model):
        if "final" in site["attrs"]:
            out[site["prop"]] = set(site["deps"])
    return out


def property_defaults(model):
    m = model.module(OT)
    sites = []
    for n in ast.walk(m.tree):
        if isinstance(n, ast.Dict):
            for k, v in zip(n.keys, n.values):
                if isinstance(k, ast.Constant) and isinstance(v, ast.Call) and dotted(v.func) == "PropertyDefault" and len(v.args) == 3:
                    try:
                        deps = set(ast.literal_eval(v.args[0]))
                        attrs = set(ast.literal_eval(v.args[1])) if not (isinstance(v.args[1], ast.Call)) else set()
                    except Exception:
                        raise AnalysisError(f"shape not recognised: PropertyDefault for {k.value}")
                    sites.append({"prop": k.value, "deps": deps, "attrs": attrs, "helper": v.args[2], "node": v})
    return sites


def check_deps_cover(ctx, R="C06.deps"):
    ctx.rule(
        R,
        "declared dependencies cover what the helper reads: for every DelayedArgument(deps, helper) of a built-in specifier and every "
        "PropertyDefault(deps, attrs, lambda self: ...) the attributes read from the object under construction (also through lambdas the "
        "context is passed to) are within deps plus the dependencies of *final* properties in deps; reads under hasattr(context, p) are exempt",
    )
    model = ctx.model
    finals = final_closure(model)

    def closure(deps):
        out = set(deps)
        for _ in range(4):
            for d in list(out):
                out |= finals.get(d, set())
        return out

    names, table = all_variants(ctx)
    n = 0
    seen = set()
    for f, vs in table.items():
        if f in HELPERS:
            continue
        for v in vs:
            if v.helper is None:
                continue
            key = (f, id(v.helper), tuple(sorted(v.deps)))
            if key in seen:
                continue
            seen.add(key)
            reads, guarded = _context_reads(v.helper, getattr(v, "bindings", {}))
            if reads is None:
                raise AnalysisError(f"shape not recognised: helper of veneer.{f}")
            n += 1
            allowed = closure(v.deps)
            miss = sorted(r for r in reads if r not in allowed)
            if miss and not v.extra_deps:
                ctx.finding(
                    R,
                    v.node,
                    f"{f} reads undeclared {miss}",
                    f"veneer.{f}: the value helper reads {miss} from the object under construction but the specifier declares only {sorted(v.deps)}; "
                    f"the specifier may be evaluated before those properties are final",
                )
            else:
                ctx.ok(R, v.node, f"veneer.{f}: helper reads {sorted(reads)} ⊆ declared {sorted(v.deps)} (+final closure)")
    sites = property_defaults(model)
    for s in sites:
        reads, _ = _context_reads(s["helper"], {})
        if reads is None:
            raise AnalysisError(f"shape not recognised: default of {s['prop']}")
        n += 1
        miss = sorted(r for r in reads if r not in closure(s["deps"]))
        if miss:
            ctx.finding(R, s["node"], f"default {s['prop']} reads undeclared {miss}", f"default of `{s['prop']}` reads {miss} but declares dependencies {sorted(s['deps'])}")
        else:
            ctx.ok(R, s["node"], f"default of `{s['prop']}` reads {sorted(reads)} ⊆ {sorted(s['deps'])} (+final closure)")
    ctx.floor(R, n, 40, "DelayedArgument / PropertyDefault sites")
    # compiler side: the dependency set of a property default is AttributeFinder.find('self', value), unfiltered
    comp = model.module("scenic.syntax.compiler")
    fn = None
    for q, f in comp.functions.items():
        if q.endswith("transformPropertyDef"):
            fn = f
    if fn is None:
        raise AnalysisError("anchor compiler.transformPropertyDef not found")
    calls = [c for c in ast.walk(fn) if isinstance(c, ast.Call) and dotted(c.func) == "AttributeFinder.find"]
    if len(calls) == 1 and [unparse(a) for a in calls[0].args][:1] == ["'self'"]:
        st = lib.statement_of(calls[0])
        tgt = None
        if isinstance(st, ast.Assign):
            t0 = st.targets[0]
            if isinstance(t0, ast.Name):
                tgt = t0.id
            elif isinstance(t0, ast.Tuple) and t0.elts and isinstance(t0.elts[0], ast.Name):
                tgt = t0.elts[0].id
        uses = [x for x in ast.walk(fn) if isinstance(x, ast.Name) and x.id == tgt and isinstance(x.ctx, ast.Load)]
        filt = [u for u in uses if isinstance(parent(u), (ast.comprehension,)) and parent(u).ifs]
        feeds = [u for u in uses if isinstance(parent(u), ast.comprehension) and "_scenic_default" in unparse(lib.statement_of(u))]
        if tgt and feeds and not filt:
            ctx.ok(R, calls[0], "compiler: user property defaults get their dependency set from AttributeFinder.find('self', value), unfiltered")
        else:
            ctx.finding(R, calls[0], "transformPropertyDef dependency set", "the compiler filters or drops the dependency set computed by AttributeFinder for a property default")
    else:
        ctx.finding(R, fn, "transformPropertyDef AttributeFinder", "transformPropertyDef no longer computes dependencies with AttributeFinder.find('self', value)")
    # the finder itself is complete: on every path on which visit_Attribute does not record `target.attr`, it descends into the
    # value of the attribute, whatever kind of expression that is (`f(self.width).x`, `self.shape[0].y`, `(self.a + self.b).z`)
    af = model.cls("scenic.syntax.compiler", "AttributeFinder")
    va = af.methods.get("visit_Attribute")
    if va is None:
        ctx.ok(R, af.node, "AttributeFinder has no visit_Attribute: generic traversal reaches every sub-expression")
    else:
        npar = va.args.args[1].arg
        descents = []
        for c in walk_local(va):
            if not (isinstance(c, ast.Call) and isinstance(c.func, ast.Attribute) and isinstance(c.func.value, ast.Name) and c.func.value.id == "self"):
                continue
            if c.func.attr in ("visit", "generic_visit", "visit_Attribute") and len(c.args) == 1:
                a_ = lib.role_text(va, c.args[0])
                if a_ in (lib.role_text(None, f"{npar}.value"), npar):
                    descents.append(c)
        narrowed = []
        free = []
        for c in descents:
            pos = [t for t, pol in lib.guard_tests(c, va) if pol and any(isinstance(x, ast.Call) and dotted(x.func) == "isinstance" for x in ast.walk(t))]
            (narrowed if pos else free).append((c, pos))
        if free:
            ctx.ok(R, free[0][0], "AttributeFinder.visit_Attribute descends into the value of every attribute access it does not record")
        else:
            where = narrowed[0][0] if narrowed else va
            ctx.finding(
                R,
                where,
                "AttributeFinder.visit_Attribute does not descend into every value",
                "AttributeFinder.visit_Attribute visits the value of an attribute access "
                + (f"only under `{norm_text(narrowed[0][1][0], 60)}`" if narrowed else "on no path")
                + ": for `f(self.width).x`, `self.shape[0].y` or `(self.a + self.b).z` the reads of `self.<prop>` inside the value are not recorded, so the default is "
                "evaluated before those properties are final (or fails with an attribute error on the lazily evaluated object)",
            )


def check_errors(ctx, R="C06.errors"):
    ctx.rule(
        R,
        "error discipline of _resolveSpecifiers: every raise constructs SpecifierError, every name in the message (and in assert messages) "
        "resolves (G1), and each documented error situation (same priority, final property, cyclic dependency, missing dependency, modified "
        "twice, specifier repeated) has a raising path",
    )
    model = ctx.model
    fn = model.func(OT, "Constructible._resolveSpecifiers")
    raises = [n for n in ast.walk(fn) if isinstance(n, ast.Raise)]
    ctx.floor(R, len(raises), 6, "raise statements in _resolveSpecifiers")
    for r in raises:
        if isinstance(r.exc, ast.Call) and dotted(r.exc.func) == "SpecifierError":
            ctx.ok(R, r, f"raises SpecifierError: {norm_text(r.exc, 70)}")
        else:
            ctx.finding(R, r, f"raise {norm_text(r, 60)}", f"_resolveSpecifiers raises `{norm_text(r, 80)}`, not a SpecifierError")
    bad = lib.unresolved_names(model, fn)
    for b in bad:
        st = lib.statement_of(b)
        ctx.finding(
            R,
            b,
            f"unbound {b.id} in {norm_text(st, 50)}",
            f"_resolveSpecifiers: `{b.id}` in `{norm_text(st, 90)}` is bound nowhere; reaching this error path raises NameError instead of the intended error",
        )
    if not bad:
        ctx.ok(R, fn, "every name used in _resolveSpecifiers resolves")
    msgs = " | ".join(unparse(r.exc) for r in raises if r.exc is not None)
    for needle, what in (
        ("same priority", "two specifiers of equal priority"),
        ("cannot be directly specified", "specifying a final property"),
        ("depends on itself", "cyclic dependencies"),
        ("is not specified", "missing dependency"),
        ("modified twice", "a property modified twice"),
        ("to modify itself", "a specifier used twice"),
    ):
        if needle in msgs:
            ctx.ok(R, fn, f"error path present for {what}")
        else:
            ctx.finding(R, fn, f"missing error path: {what}", f"_resolveSpecifiers has no raising path for {what}")


# ----------------------------------------------------------------------
# G17: abstract interpretation of the priority folds


class _Err(Exception):
    def __init__(self, kind):
        self.kind = kind


class _Continue(Exception):
    pass


class _Break(Exception):
    pass


class _Spec:
    def __init__(self, ident, priorities, modifying=False, modifiable=()):
        self.ident, self.priorities, self.modifying, self.modifiable_props = ident, priorities, modifying, set(modifiable)
        self.name = ident

    def __repr__(self):
        return self.ident


def _interp(stmts, env):
    """Interpret the restricted statement language of the two priority loops."""

    def ev(e):
        if isinstance(e, ast.Name):
            if e.id not in env:
                raise AnalysisError(f"shape not recognised: name {e.id} in the priority fold")
            return env[e.id]
        if isinstance(e, ast.Constant):
            return e.value
        if isinstance(e, ast.Attribute):
            return getattr(ev(e.value), e.attr)
        if isinstance(e, ast.Subscript):
            return ev(e.value)[ev(e.slice)]
        if isinstance(e, ast.Compare) and len(e.ops) == 1:
            a, b = ev(e.left), ev(e.comparators[0])
            op = e.ops[0]
            if isinstance(op, ast.Eq):
                return a == b
            if isinstance(op, ast.NotEq):
                return a != b
            if isinstance(op, ast.Lt):
                return a < b
            if isinstance(op, ast.LtE):
                return a <= b
            if isinstance(op, ast.Gt):
                return a > b
            if isinstance(op, ast.GtE):
                return a >= b
            if isinstance(op, ast.In):
                return a in b
            if isinstance(op, ast.NotIn):
                return a not in b
        if isinstance(e, ast.BoolOp):
            vals = [ev(v) for v in e.values]
            return all(vals) if isinstance(e.op, ast.And) else any(vals)
        if isinstance(e, ast.UnaryOp) and isinstance(e.op, ast.Not):
            return not ev(e.operand)
        if isinstance(e, ast.Call) and dotted(e.func) == "isinstance":
            return True
        if isinstance(e, ast.Call) and isinstance(e.func, ast.Attribute) and e.func.attr in ("items", "keys", "values", "get", "setdefault") and not e.keywords:
            recv = ev(e.func.value)
            if isinstance(recv, dict):
                args = [ev(a) for a in e.args]
                if e.func.attr in ("items", "keys", "values") and not args:
                    return list(getattr(recv, e.func.attr)())
                if e.func.attr == "get" and 1 <= len(args) <= 2:
                    return recv.get(*args)
                if e.func.attr == "setdefault" and len(args) == 2:
                    return recv.setdefault(*args)
        if isinstance(e, (ast.Tuple, ast.List)):
            return [ev(x) for x in e.elts]
        raise AnalysisError(f"shape not recognised: expression `{unparse(e)}` in the priority fold")

    def bind(t, v):
        if isinstance(t, ast.Name):
            env[t.id] = v
        elif isinstance(t, (ast.Tuple, ast.List)) and len(t.elts) == len(list(v)):
            for tt, vv in zip(t.elts, list(v)):
                bind(tt, vv)
        else:
            raise AnalysisError(f"shape not recognised: loop / assignment target `{unparse(t)}` in the priority fold")

    for s in stmts:
        if isinstance(s, ast.For):
            it = ev(s.iter)
            for x in list(it):
                bind(s.target, x)
                try:
                    _interp(s.body, env)
                except _Continue:
                    continue
                except _Break:
                    break
        elif isinstance(s, ast.Continue):
            raise _Continue()
        elif isinstance(s, ast.Break):
            raise _Break()
        elif isinstance(s, ast.Assign) and len(s.targets) == 1 and isinstance(s.targets[0], (ast.Name, ast.Tuple)):
            bind(s.targets[0], ev(s.value))
        elif isinstance(s, ast.Expr) and isinstance(s.value, ast.Call) and isinstance(s.value.func, ast.Attribute) and s.value.func.attr in ("setdefault", "update"):
            if s.value.func.attr == "setdefault":
                ev(s.value)
            else:
                raise AnalysisError(f"shape not recognised: statement `{norm_text(s, 60)}` in the priority fold")
        elif isinstance(s, ast.If):
            _interp(s.body if ev(s.test) else s.orelse, env)
        elif isinstance(s, ast.Raise):
            msg = unparse(s.exc)
            kind = "tie" if "same priority" in msg else "final" if "directly specified" in msg else "modified-twice" if "modified twice" in msg else "error"
            raise _Err(kind)
        elif isinstance(s, ast.Assign) and len(s.targets) == 1 and isinstance(s.targets[0], ast.Subscript):
            t = s.targets[0]
            ev(t.value)[ev(t.slice)] = ev(s.value)
        elif isinstance(s, (ast.Assert, ast.Expr, ast.Pass)):
            continue
        else:
            raise AnalysisError(f"shape not recognised: statement `{norm_text(s, 60)}` in the priority fold")


def check_fold(ctx, R="C06.fold"):
    ctx.rule(
        R,
        "G17 order independence of the priority fold: the normal- and modifying-specifier loops of _resolveSpecifiers, which touch "
        "priorities only through ==, < and dict updates, are interpreted over an abstract domain (one property, priorities drawn from "
        "{1,2,3}, up to 3 normal specifiers and one modifying specifier) and must give the same outcome (winner, modifier, or kind of "
        "error) for every ordering of the same specifiers",
    )
    model = ctx.model
    fn = model.func(OT, "Constructible._resolveSpecifiers")
    # Roles are recovered from the code, never from the names of the locals.
    # (1) the split must be a pure partition by isinstance(spec, ModifyingSpecifier) of the specifier list
    spec_src = {"specifiers"} | set(lib.locals_assigned(fn, lambda v: unparse(v) in ("list(specifiers)", "tuple(specifiers)")))

    def _partition(v, negated):
        if not (isinstance(v, ast.ListComp) and len(v.generators) == 1):
            return False
        g = v.generators[0]
        if not (isinstance(g.target, ast.Name) and isinstance(v.elt, ast.Name) and v.elt.id == g.target.id and unparse(g.iter) in spec_src and len(g.ifs) == 1):
            return False
        t = g.ifs[0]
        neg = False
        while isinstance(t, ast.UnaryOp) and isinstance(t.op, ast.Not):
            t, neg = t.operand, not neg
        return unparse(t) == f"isinstance({g.target.id}, ModifyingSpecifier)" and neg == negated

    normal = lib.locals_assigned(fn, lambda v: _partition(v, True))
    modif = lib.locals_assigned(fn, lambda v: _partition(v, False))
    if len(normal) != 1 or len(modif) != 1:
        raise AnalysisError("shape not recognised: the partition of the specifiers into normal and modifying ones in _resolveSpecifiers")
    normal, modif = normal[0], modif[0]
    loops = [s for s in fn.body if isinstance(s, ast.For) and isinstance(s.iter, ast.Name) and s.iter.id in (normal, modif)]
    if len(loops) != 2 or loops[0].iter.id != normal or loops[1].iter.id != modif:
        raise AnalysisError("shape not recognised: the two priority loops of _resolveSpecifiers")
    # (2) the dictionaries and the set of final properties
    dicts = lib.locals_assigned(fn, lambda v: unparse(v) in ("dict()", "{}"))
    finals = lib.locals_assigned(fn, lambda v: unparse(v) == "cls._finalProperties")

    def _stores(loop):
        """{dict name: set of stored-value kinds} for `D[<prop>] = <value>` inside the loop."""
        var = loop.target.id if isinstance(loop.target, ast.Name) else None
        out = {}
        for n in ast.walk(loop):
            if isinstance(n, ast.Assign) and len(n.targets) == 1 and isinstance(n.targets[0], ast.Subscript) and isinstance(n.targets[0].value, ast.Name):
                d = n.targets[0].value.id
                kind = "spec" if unparse(n.value) == var else "priority" if unparse(n.value).startswith(f"{var}.priorities[") else "other"
                out.setdefault(d, set()).add(kind)
        return out

    st0, st1 = _stores(loops[0]), _stores(loops[1])
    properties_d = [d for d, k in st0.items() if k == {"spec"} and d in dicts]
    # the priority table: the other dictionary the first loop writes (by item stores or setdefault)
    touched0 = set(st0) | {
        c.func.value.id
        for c in ast.walk(loops[0])
        if isinstance(c, ast.Call) and isinstance(c.func, ast.Attribute) and c.func.attr in ("setdefault", "update") and isinstance(c.func.value, ast.Name)
    }
    priorities_d = sorted(d for d in touched0 if d in dicts and d not in properties_d)
    modifying_d = [d for d, k in st1.items() if k == {"spec"} and d in dicts and d not in properties_d]
    if len(properties_d) != 1 or len(priorities_d) != 1 or len(modifying_d) != 1 or len(finals) != 1:
        raise AnalysisError("shape not recognised: the winner / priority / modifier dictionaries of _resolveSpecifiers")
    properties_d, priorities_d, modifying_d, finals = properties_d[0], priorities_d[0], modifying_d[0], finals[0]

    def outcome(seq):
        env = {d: {} for d in dicts}
        env[finals] = set()
        env[normal] = [s for s in seq if not s.modifying]
        env[modif] = [s for s in seq if s.modifying]
        try:
            _interp(loops, env)
        except _Err as e:
            return ("error", e.kind)
        return ("ok", repr(env[properties_d].get("p")), repr(env[modifying_d].get("p")), env[priorities_d].get("p"))

    n_multisets = 0
    n_orders = 0
    bad = {}
    for k in (1, 2, 3):
        for pris in itertools.combinations_with_replacement((1, 2, 3), k):
            for mod in (None, 1, 2, 3):
                specs_ = [_Spec(f"n{i}@{p}", {"p": p}) for i, p in enumerate(pris)]
                if mod is not None:
                    specs_.append(_Spec(f"m@{mod}", {"p": mod}, True, {"p"}))
                n_multisets += 1
                outs = {}
                for perm in itertools.permutations(specs_):
                    n_orders += 1
                    o = outcome(list(perm))
                    # identify winners by priority, not by identity of equal-priority twins
                    o2 = tuple((x.split("@")[1] if isinstance(x, str) and "@" in x else x) for x in o)
                    outs.setdefault(o2, perm)
                if len(outs) > 1:
                    bad[(pris, mod)] = outs
    ctx.floor(R, n_orders, 200, "orderings interpreted")
    if not bad:
        ctx.ok(R, loops[0], f"{n_multisets} specifier multisets x all orderings ({n_orders}) give order-independent outcomes")
    # report minimal witnesses: drop multisets that contain a smaller bad multiset
    keys = sorted(bad, key=lambda k: (len(k[0]) + (k[1] is not None), k))
    minimal = []
    for k in keys:
        if not any(set_leq(m, k) for m in minimal):
            minimal.append(k)
    reported = set()
    for pris, mod in minimal:
        ranks = sorted(set(pris) | ({mod} if mod else set()))
        pattern = ([ranks.index(p) for p in pris], ranks.index(mod) if mod else None)
        if str(pattern) in reported:
            continue
        reported.add(str(pattern))
        outs = bad[(pris, mod)]
        desc = "; ".join(f"order {[repr(s) for s in perm]} -> {o}" for o, perm in outs.items())
        ctx.finding(
            R,
            loops[0],
            f"order-dependent fold: rank pattern normal {pattern[0]} modifying {pattern[1]}",
            f"_resolveSpecifiers: for one property with normal specifiers of priorities {list(pris)}"
            + (f" and a modifying specifier of priority {mod}" if mod else "")
            + f" the outcome depends on the order in which they are written: {desc}",
        )


def set_leq(a, b):
    """multiset a (pris, mod) is contained in b"""
    pa, ma = a
    pb, mb = b
    lb = list(pb)
    for x in pa:
        if x in lb:
            lb.remove(x)
        else:
            return False
    return ma is None or ma == mb


def check_2d_rewrite(ctx, R="C06.heading2d"):
    ctx.rule(
        R,
        "2-D rewrite agreement: the specifier name tested in OrientedPoint2D._prepareSpecifiers is exactly the name veneer.With produces "
        "for the `heading` property, and the replacement is the `facing` specifier of the same value",
    )
    model = ctx.model
    fn = model.func(OT, "OrientedPoint2D._prepareSpecifiers")
    w = model.func(VE, "With")
    rets = [r for r in lib.returns_of(w) if isinstance(r.value, ast.Call)]
    name = rets[0].value.args[0] if rets else None
    if not isinstance(name, ast.JoinedStr):
        raise AnalysisError("shape not recognised: veneer.With name")
    produced = "".join(v.value if isinstance(v, ast.Constant) else "heading" for v in name.values)
    lits = [c.value for c in ast.walk(fn) if isinstance(c, ast.Constant) and isinstance(c.value, str) and "heading" in c.value.lower() and "(" in c.value]
    if produced in lits:
        ctx.ok(R, fn, f"2-D mode recognises `{produced}`, the name With('heading', ·) produces")
    else:
        ctx.finding(R, fn, "heading rewrite name", f"OrientedPoint2D._prepareSpecifiers tests {lits}, but veneer.With names the specifier `{produced}`: `with heading` is no longer rewritten to `facing`")


def check_cycle_detection(ctx, R="C06.cycles"):
    ctx.rule(
        R,
        "cycle detection of the dependency sort: the depth-first search of _resolveSpecifiers marks a specifier 'in progress' before it "
        "visits its dependencies, raises SpecifierError when it meets an in-progress specifier, and EVERY recursive call is unconditional "
        "with respect to that mark -- a call guarded by `state == not visited` silently skips the in-progress specifier, so a dependency "
        "cycle (e.g. through a modifying specifier) builds an object in one written order and raises in another",
    )
    model = ctx.model
    fn = model.func(OT, "Constructible._resolveSpecifiers")
    dfs = [f for f in ast.walk(fn) if isinstance(f, ast.FunctionDef) and f is not fn and any(isinstance(c, ast.Call) and isinstance(c.func, ast.Name) and c.func.id == f.name for c in ast.walk(f))]
    if len(dfs) != 1:
        raise AnalysisError("shape not recognised: recursive dependency search of _resolveSpecifiers")
    d = dfs[0]
    sp = d.args.args[0].arg
    # the state attribute: the one assigned on the parameter inside the search
    marks = [a for a in walk_local(d) if isinstance(a, ast.Assign) and isinstance(a.targets[0], ast.Attribute) and unparse(a.targets[0].value) == sp and isinstance(a.value, ast.Constant)]
    if len({a.targets[0].attr for a in marks}) != 1 or len(marks) < 2:
        raise AnalysisError("shape not recognised: visit marks of the dependency search")
    attr = marks[0].targets[0].attr
    in_progress = min(marks, key=lambda a: a.lineno)
    done = max(marks, key=lambda a: a.lineno)
    rec = [c for c in walk_local(d) if isinstance(c, ast.Call) and isinstance(c.func, ast.Name) and c.func.id == d.name]
    ctx.floor(R, len(rec), 2, "recursive calls of the dependency search")
    # entry checks
    raises = [r for r in walk_local(d) if isinstance(r, ast.Raise) and any(lib.ctext(t) == lib.ctext_of(f"{sp}.{attr} == {in_progress.value.value}") and p for t, p in lib.path_conditions(r, d))]
    if raises and all(r.lineno < in_progress.lineno for r in raises):
        ctx.ok(R, raises[0], "meeting a specifier that is being processed raises the cyclic-dependency error")
    else:
        ctx.finding(R, d, "no error for an in-progress specifier", f"the dependency search no longer raises when it meets a specifier whose {attr} is {in_progress.value.value} (in progress): cyclic dependencies are not reported")
    for c in rec:
        if c.lineno < in_progress.lineno or c.lineno > done.lineno:
            ctx.finding(R, c, "recursion outside the in-progress window", f"`{unparse(c)}` is not between the in-progress and the finished mark")
            continue
        # tests made after the in-progress mark (the entry checks on the parameter itself precede it)
        g = [t for t, p in lib.path_conditions(c, d) if attr in unparse(t) and getattr(t, "lineno", 0) > in_progress.lineno]
        if g:
            ctx.finding(
                R,
                c,
                f"recursive call guarded by {attr}",
                f"_resolveSpecifiers: the recursive call `{unparse(c)}` is made only when `{unparse(g[0])}`: a specifier that is still being processed is skipped instead of being reported, so "
                f"a dependency cycle through this edge is accepted in some written orders and rejected in others",
            )
        else:
            ctx.ok(R, c, f"`{unparse(c)}` always recurses; the callee decides from the mark")


def check_default_deps(ctx, R="C06.defaults"):
    ctx.rule(
        R,
        "dependencies of class defaults: PropertyDefault.resolveFor declares for an ordinary (non-additive) default exactly the properties "
        "its own value reads (self.requiredProperties) -- never those of the superclass defaults it overrides, which are not evaluated and "
        "would create spurious dependency cycles; an additive default, which evaluates every overridden default too, declares the union",
    )
    model = ctx.model
    fn = model.func("scenic.core.specifiers", "PropertyDefault.resolveFor")
    ovp = fn.args.args[2].arg
    calls = [c for c in walk_local(fn) if isinstance(c, ast.Call) and dotted(c.func) == "DelayedArgument" and len(c.args) >= 2]
    ctx.floor(R, len(calls), 2, "DelayedArgument constructions in resolveFor")
    for c in calls:
        deps, helper = c.args[0], c.args[1]
        if lib.role_text(fn, helper) == "self.value":
            d = lib.role_text(fn, deps)
            if d in ("self.requiredProperties", "set(self.requiredProperties)", "frozenset(self.requiredProperties)"):
                ctx.ok(R, c, "an ordinary default depends on what its own value reads")
            else:
                extra = isinstance(deps, ast.Name) and any(isinstance(a, ast.AugAssign) and isinstance(a.target, ast.Name) and a.target.id == deps.id for a in walk_local(fn))
                ctx.finding(
                    R,
                    c,
                    "ordinary default over-declares dependencies",
                    f"PropertyDefault.resolveFor evaluates only `self.value` for a non-additive default but declares the dependencies `{unparse(deps)}`"
                    + (" (which accumulates the dependencies of the overridden defaults)" if extra else "")
                    + ": a subclass default inherits the `self.` dependencies of the defaults it replaces, so legal acyclic programs raise a cyclic-dependency error",
                )
        else:
            # additive: the accumulator must start from self's and add every overridden default's requirements
            acc = deps.id if isinstance(deps, ast.Name) else None
            starts = acc is not None and any(isinstance(a, ast.Assign) and unparse(a.targets[0]) == acc and "self.requiredProperties" in unparse(a.value) for a in walk_local(fn))
            adds = acc is not None and any(
                isinstance(a, ast.AugAssign)
                and isinstance(a.op, ast.BitOr)
                and unparse(a.target) == acc
                and unparse(a.value).endswith(".requiredProperties")
                and any(
                    isinstance(l, ast.For)
                    and unparse(l.iter) == ovp
                    # ... of EVERY overridden default: nothing inside the loop may skip one (each of them is evaluated by the value)
                    and not lib.enclosing_tests(a, l)
                    and not any(isinstance(x, (ast.Continue, ast.Break)) for x in ast.walk(l))
                    for l in lib.ancestors(a)
                )
                for a in walk_local(fn)
            )
            if starts and adds:
                ctx.ok(R, c, "an additive default depends on its own and on every overridden default's requirements")
            else:
                ctx.finding(R, c, "additive default dependencies", f"the additive default's dependencies `{unparse(deps)}` are not the union of self.requiredProperties and every overridden default's requiredProperties")


def check(ctx):
    ctx.run(check_cycle_detection)
    ctx.run(check_default_deps)
    ctx.run(check_docs_table)
    ctx.run(check_deps_cover)
    ctx.run(check_errors)
    ctx.run(check_fold)
    ctx.run(check_2d_rewrite)
