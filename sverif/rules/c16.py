"""C16 -- region operations obey set semantics in full 3-D (structural necessary conditions)."""

import ast

from .. import lib, regions_kit as rk, samplable
from ..model import AnalysisError, dotted, norm_text, unparse, walk_local

RG = rk.RG


def check_rebuild(ctx, R="C16.rebuild"):
    ctx.rule(
        R,
        "G3: evaluateInner / sampleGiven of every region class rebuild the region with a constructor call that binds to that class's "
        "__init__ (through pass-through initialisers) and pass each dependency field through valueInContext / value[...]",
    )
    model = ctx.model
    _, classes = rk.region_classes(model)
    n = 0
    for ci in classes:
        for m in ("evaluateInner", "sampleGiven"):
            fn = ci.methods.get(m)
            if fn is not None:
                n += samplable.check_rebuild(ctx, R, ci, fn, m)
    ctx.floor(R, n, 20, "region reconstruction calls")


def check_algebra(ctx, R="C16.algebra"):
    ctx.rule(
        R,
        "identity/annihilator table: everywhere ∩ X = X, everywhere ∪ X = everywhere, nowhere ∩ X = nowhere, nowhere ∪ X = X, "
        "nowhere − X = nowhere, X − nowhere = X, X − everywhere = nowhere; membership of everywhere/nowhere is constant True/False",
    )
    model = ctx.model

    def ret(cls, meth):
        ci = model.cls(RG, cls)
        fn = ci.methods.get(meth)
        if fn is None:
            return None, None
        rs = [r for r in lib.returns_of(fn) if r.value is not None]
        return fn, (unparse(rs[0].value) if len(rs) == 1 and len(fn.body) <= 2 else None)

    table = [
        ("AllRegion", "intersect", "other"),
        ("AllRegion", "union", "self"),
        ("AllRegion", "containsPoint", "True"),
        ("AllRegion", "containsObject", "True"),
        ("AllRegion", "intersects", "not isinstance(other, EmptyRegion)"),
        ("AllRegion", "distanceTo", "0"),
        ("EmptyRegion", "intersect", "self"),
        ("EmptyRegion", "union", "other"),
        ("EmptyRegion", "difference", "self"),
        ("EmptyRegion", "containsPoint", "False"),
        ("EmptyRegion", "containsObject", "False"),
        ("EmptyRegion", "intersects", "False"),
    ]
    for cls, meth, want in table:
        fn, got = ret(cls, meth)
        if fn is None:
            ctx.finding(R, f"src/scenic/core/regions.py", f"{cls}.{meth} missing", f"{cls}.{meth} is no longer defined: the generic fallback does not know the identity/annihilator law", qualname=f"{cls}.{meth}")
            continue
        if got is None:
            raise AnalysisError(f"shape not recognised: {cls}.{meth} is no longer a single return")
        params = [a.arg for a in fn.args.args]
        w = want.replace("other", params[1]) if len(params) > 1 else want
        if got == w:
            ctx.ok(R, fn, f"{cls}.{meth}(X) = {want}")
        else:
            ctx.finding(R, fn, f"{cls}.{meth} law", f"{cls}.{meth} returns `{got}`, the set-algebra law requires `{want}`")
    # membership in the combinator regions is the set-algebra formula (compared as truth tables over the operand queries,
    # so the way the formula is written -- early returns, temporaries, De Morgan -- does not matter)
    formulas = [
        ("IntersectionRegion", "containsPoint", "all(r.containsPoint({p}) for r in self.footprint.regions)"),
        ("IntersectionRegion", "containsObject", "all(r.containsObject({p}) for r in self.footprint.regions)"),
        ("UnionRegion", "containsPoint", "any(r.containsPoint({p}) for r in self.footprint.regions)"),
        ("DifferenceRegion", "containsPoint", "self.footprint.regionA.containsPoint({p}) and not self.footprint.regionB.containsPoint({p})"),
        ("DifferenceRegion", "containsObject", "self.footprint.regionA.containsObject({p}) and not self.footprint.regionB.intersects({p}.occupiedSpace)"),
    ]
    for cls, meth, formula in formulas:
        ci = model.cls(RG, cls)
        fn = ci.methods.get(meth)
        if fn is None:
            ctx.finding(R, "src/scenic/core/regions.py", f"{cls}.{meth} missing", f"{cls}.{meth} is no longer defined", qualname=f"{cls}.{meth}")
            continue
        p_ = fn.args.args[1].arg
        want = lib.bool_table(formula.format(p=p_))
        got = lib.bool_table(fn)
        if got == want:
            ctx.ok(R, fn, f"{cls}.{meth} = {formula.format(p=p_)} (truth table over {len(want[0])} operand queries)")
        elif got[0] != want[0]:
            ctx.finding(R, fn, f"{cls}.{meth} queries", f"{cls}.{meth} asks its operands {got[0]}; set algebra requires {want[0]} (`{formula.format(p=p_)}`)")
        else:
            row = next(k for k in want[1] if want[1][k] != got[1][k])
            ctx.finding(R, fn, f"{cls}.{meth} formula", f"{cls}.{meth} differs from `{formula.format(p=p_)}` when {dict(zip(want[0], row))}: it gives {got[1][row]}, set algebra {want[1][row]}")
    # Region.difference short-cuts
    fn = model.func(RG, "Region.difference")
    other = fn.args.args[1].arg
    want = {f"isinstance({other}, EmptyRegion)": "self", f"isinstance({other}, AllRegion)": "nowhere"}
    seen = {}
    for r in lib.returns_of(fn):
        gs = [unparse(t) for t, pol in lib.guard_tests(r, fn) if pol]
        for g in gs:
            if g in want:
                seen[g] = unparse(r.value)
    for g, v in want.items():
        if seen.get(g) == v:
            ctx.ok(R, fn, f"Region.difference: {g} ⇒ {v}")
        elif g in seen:
            ctx.finding(R, fn, f"Region.difference law {g}", f"Region.difference returns `{seen[g]}` when {g}; set algebra requires `{v}`")
        else:
            ctx.note(f"Region.difference has no shortcut for {g} (falls to the generic DifferenceRegion; not a violation)")



def check_planar_metric(ctx, R="C16.z"):
    """part of C16.z: Vector.distanceTo is the 3-D metric; in a planar region (a disc, a sector) the distance of a probe point from
    the region's centre may stand for the planar distance only where the probe is known to lie in the region's plane"""
    model = ctx.model
    n = 0
    for cname in ("CircularRegion", "SectorRegion"):
        ci = model.cls(RG, cname)
        for mn, fn in ci.methods.items():
            if len(fn.args.args) < 2:
                continue
            ptp = fn.args.args[1].arg
            for c in walk_local(fn):
                if not (isinstance(c, ast.Call) and isinstance(c.func, ast.Attribute) and c.func.attr == "distanceTo" and len(c.args) == 1):
                    continue
                pair = {unparse(c.func.value), unparse(c.args[0])}
                if pair == {"self.center", f"{ptp}.center"}:
                    # two planar round regions: their centres' 3-D distance says something only when both lie in one plane
                    n += 1
                    if lib.holds(lib.guard_tests(c, fn), f"self.z == {ptp}.z", f"self.center.z == {ptp}.center.z"):
                        ctx.ok(R, c, f"{cname}.{mn}: the centres' distance is compared only for regions in the same plane")
                    else:
                        ctx.finding(
                            R,
                            c,
                            f"{cname}.{mn}: 3-D centre distance between regions of different planes",
                            f"{cname}.{mn} uses `{unparse(c)}` without `self.z == {ptp}.z` on the path: two parallel discs at different heights share no point, but their centres may be "
                            f"closer than the sum of the radii, so they are reported as intersecting although their intersection is empty",
                        )
                    continue
                if pair != {ptp, "self.center"}:
                    continue
                n += 1
                if lib.holds(lib.guard_tests(c, fn), f"{ptp}.z == self.z", f"{ptp}.z == self.center.z"):
                    ctx.ok(R, c, f"{cname}.{mn}: the 3-D distance from the centre is used only for probes in the region's plane")
                else:
                    ctx.finding(
                        R,
                        c,
                        f"{cname}.{mn}: 3-D centre distance used as planar distance",
                        f"{cname}.{mn} uses `{unparse(c)}` (the 3-D distance, which includes the height difference) as the planar distance from the centre without `{ptp}.z == self.z` on the path: "
                        f"for a probe outside the region's plane the height difference is counted twice (or a point above the disc gets a spurious planar term)",
                    )
    ctx.floor(R, n, 4, "centre-distance computations of the planar round regions")



EXACT_FOOTPRINTS = {"_boundingPolygon": "the exact projection of the mesh onto the plane", "polygons": "the region's own polygons", "polygon": "the region's own polygon"}


def check_footprint_containment(ctx, R="C16.units"):
    """part of C16.units: what a footprint's region-in-region containment compares is the contained region's exact planar extent"""
    model = ctx.model
    fn = model.func(RG, "PolygonalFootprintRegion.containsRegionInner")
    regp = fn.args.args[1].arg
    n = 0
    for r in lib.returns_of(fn):
        v = lib.role_expr(fn, r.value) if r.value is not None else None
        if not (isinstance(v, ast.Call) and isinstance(v.func, ast.Attribute) and v.func.attr in ("contains", "covers", "contains_properly") and len(v.args) == 1):
            continue
        a = v.args[0]
        if not (isinstance(a, ast.Attribute) and unparse(a.value) == regp):
            continue
        n += 1
        if a.attr in EXACT_FOOTPRINTS:
            ctx.ok(R, r, f"containsRegionInner compares `{regp}.{a.attr}`: {EXACT_FOOTPRINTS[a.attr]}")
        else:
            ctx.finding(
                R,
                r,
                f"footprint containment of {regp}.{a.attr}",
                f"PolygonalFootprintRegion.containsRegionInner answers with `{norm_text(v, 60)}`: `{regp}.{a.attr}` is not the region's exact planar extent (allowed: {sorted(EXACT_FOOTPRINTS)}); "
                f"a hull or box around it sticks out of the footprint where the region itself does not, so a contained region is reported as not contained",
            )
    ctx.floor(R, n, 2, "containment answers of PolygonalFootprintRegion.containsRegionInner")


def check_units(ctx, R="C16.units"):
    ctx.rule(
        R,
        "sizes are comparable only within one dimensionality: `size` is a length, an area or a volume depending on the region's "
        "dimensionality, so every comparison of the sizes of two different regions is made under a test that their dimensionalities are equal "
        "(a thin polygon has a smaller area than the length of a polyline it contains)",
    )
    model = ctx.model
    m = model.module(RG)
    n = 0
    for q, fn in m.functions.items():
        for c in walk_local(fn):
            if not (isinstance(c, ast.Compare) and len(c.ops) == 1 and isinstance(c.ops[0], (ast.Lt, ast.LtE, ast.Gt, ast.GtE))):
                continue
            sides = [c.left, c.comparators[0]]
            owners = []
            for sd in sides:
                ow = {unparse(a.value) for a in ast.walk(sd) if isinstance(a, ast.Attribute) and a.attr == "size"}
                owners.append(ow)
            if not (owners[0] and owners[1]) or owners[0] == owners[1]:
                continue
            n += 1
            a_, b_ = sorted(owners[0])[0], sorted(owners[1])[0]
            conds = [t for t, p in lib.path_conditions(c, fn) if p]
            # conjuncts of an enclosing `and`
            par = lib.parent(c)
            while isinstance(par, ast.BoolOp) and isinstance(par.op, ast.And):
                conds.extend(v for v in par.values if v is not c)
                par = lib.parent(par)
            flat = []
            for t in conds:
                flat.extend(t.values if isinstance(t, ast.BoolOp) and isinstance(t.op, ast.And) else [t])
            same_dim = any(lib.ctext(t) in (lib.ctext_of(f"{a_}.dimensionality == {b_}.dimensionality"), lib.ctext_of(f"{b_}.dimensionality == {a_}.dimensionality")) for t in flat)
            if same_dim:
                ctx.ok(R, c, f"{q}: `{norm_text(c, 50)}` compares sizes of equal dimensionality")
            else:
                ctx.finding(R, c, f"{q}: sizes of different dimensionality compared", f"{q}: `{unparse(c)}` compares the size of {a_} with the size of {b_} without requiring `{a_}.dimensionality == {b_}.dimensionality`: an area is compared with a length, e.g. a polygon 0.8 wide is said not to contain its own centreline")
    ctx.floor(R, n, 1, "comparisons of the sizes of two regions")


def check_delegation_raise(ctx, R="C16.delegate"):
    ctx.rule(
        R,
        "a method that delegates to the same-named method of a wrapped region must return that result; `raise <delegate>.<same method>(...)` "
        "raises a non-exception (TypeError) instead of answering",
    )
    model = ctx.model
    _, classes = rk.region_classes(model)
    n = 0
    for ci in classes:
        for mname, fn in ci.methods.items():
            for s in walk_local(fn):
                if isinstance(s, ast.Return) and isinstance(s.value, ast.Call) and isinstance(s.value.func, ast.Attribute) and s.value.func.attr == mname and unparse(s.value.func.value).startswith("self."):
                    n += 1
                    ctx.ok(R, s, f"{ci.name}.{mname} returns its delegate's answer")
                if isinstance(s, ast.Raise) and isinstance(s.exc, ast.Call) and isinstance(s.exc.func, ast.Attribute) and s.exc.func.attr == mname and unparse(s.exc.func.value).startswith("self."):
                    n += 1
                    ctx.finding(R, s, f"{ci.name}.{mname} raises delegate result", f"{ci.name}.{mname}: `{unparse(s)}` raises the delegate's result instead of returning it (TypeError: exceptions must derive from BaseException)")
    ctx.floor(R, n, 8, "same-name delegations")


def check(ctx):
    from .c03 import check_cache, sampler_scope

    def overrides(ctx):
        n = rk.check_overrides(ctx, "C16.override")
        ctx.floor("C16.override", n, 150, "overriding methods in the Region hierarchy")

    def names(ctx):
        _, classes = rk.region_classes(ctx.model)
        m = ctx.model.module(RG)
        mod_funcs = [f for q, f in m.functions.items() if "." not in q]
        n = rk.check_names(ctx, "C16.names", classes, mod_funcs)
        ctx.floor("C16.names", n, 300, "methods and functions of regions.py")

    def operand(ctx):
        n = rk.check_operand_interface(ctx, "C16.operand", scope=lambda m, s: not sampler_scope(m, s))
        ctx.floor("C16.operand", n, 40, "attribute reads on Region-typed operands")

    ctx.run(check_delegation_raise)
    ctx.run(rk.check_dispatch, "C16.dispatch")
    ctx.run(overrides)
    ctx.run(names)
    ctx.run(operand)
    ctx.run(rk.check_z, "C16.z")
    ctx.run(check_planar_metric)
    ctx.run(check_rebuild)
    ctx.run(rk.check_argmin, "C16.argmin")
    ctx.run(check_algebra)
    ctx.run(check_units)
    ctx.run(check_footprint_containment)
    ctx.run(check_cache, R="C16.cache")
