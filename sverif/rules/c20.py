"""C20 -- road networks are internally consistent for every map, cached or parsed (structural part: the cache)."""

import ast
import struct

from .. import lib
from ..model import AnalysisError, ancestors, dotted, norm_text, parent, unparse, walk_local

RD = "scenic.domains.driving.roads"
SE = "scenic.core.serialization"


def check_cache_guard(ctx, R="C20.guard"):
    ctx.rule(
        R,
        "the cache guard is unavoidable: in Network.fromPickle the pickle.load is dominated by the format-version test and by both digest "
        "comparisons (each raising); Network.fromFile computes the map digest from the file's bytes and the options digest from ALL keyword "
        "options, passes both to fromPickle, and on either mismatch falls back to parsing the map",
    )
    model = ctx.model
    fp = model.func(RD, "Network.fromPickle")
    loads = [c for c in ast.walk(fp) if isinstance(c, ast.Call) and dotted(c.func) == "pickle.load"]
    if len(loads) != 1:
        raise AnalysisError("shape not recognised: pickle.load in Network.fromPickle")
    ld = loads[0]
    checks = []
    for n in ast.walk(fp):
        if isinstance(n, ast.If) and any(isinstance(x, ast.Raise) for x in n.body) and n.lineno < ld.lineno:
            checks.append(n.test)

    def implied(test, atoms):
        """the raising test is definitely true when the mismatch atoms hold (three-valued evaluation over role texts:
        locals are replaced by what they are bound to, so their names do not matter)"""
        rt = ast.parse(lib.role_text(fp, test), mode="eval").body
        env = {lib.role_text(None, a): True for a in atoms}
        return lib.tri_eval(rt, env) is True

    pathp = fp.args.args[1].arg
    od_p, op_p = fp.args.args[2].arg, fp.args.args[3].arg
    rd = lambda k: f"open({pathp}, 'rb').read({k})"
    need = {
        "version": [[f"struct.unpack('<I', {rd(4)})[0] != cls._currentFormatVersion()"]],
        "map digest": [[od_p, f"{od_p} != {rd(64)}"]],
        "options digest": [[op_p, f"{op_p} != {rd(8)}"]],
    }
    for name, alts in need.items():
        if any(implied(t_, atoms) for t_ in checks for atoms in alts):
            ctx.ok(R, fp, f"fromPickle: the {name} check precedes pickle.load and raises on mismatch")
        else:
            ctx.finding(R, ld, f"fromPickle lacks {name} check", f"Network.fromPickle reaches pickle.load without a raising `{name}` comparison before it: a stale or foreign cache is loaded as if it matched the map")
    ff = model.func(RD, "Network.fromFile")
    fpath = ff.args.args[1].arg
    kwp = ff.args.kwarg.arg if ff.args.kwarg else None
    if kwp is None:
        raise AnalysisError("shape not recognised: Network.fromFile has no **kwargs")
    MAPD = lib.role_text(None, f"hashlib.blake2b(open({fpath}, 'rb').read()).digest()")
    dgs = lib.locals_assigned(ff, lambda v: "blake2b" in unparse(v))
    ogs = lib.locals_assigned(ff, lambda v: isinstance(v, ast.Call) and dotted(v.func) == "deterministicHash")
    dg = lib.local_value(ff, dgs[0]) if len(dgs) == 1 else None
    og = lib.local_value(ff, ogs[0]) if len(ogs) == 1 else None
    ok_d = dg is not None and lib.role_text(ff, dg) == MAPD
    ok_o = og is not None and og.args and unparse(og.args[0]) == kwp
    if ok_d:
        ctx.ok(R, dg, "the map digest is blake2b of the map file's bytes")
    else:
        ctx.finding(R, ff, "map digest source", "Network.fromFile no longer digests the bytes of the map file itself")
    if ok_o:
        ctx.ok(R, og, "the options digest covers all keyword options (kwargs)")
    else:
        ctx.finding(R, ff, "options digest source", "Network.fromFile no longer computes the options digest from all of **kwargs: changing an option may reuse a cache built with other options")
    OPTD = lib.role_text(ff, og) if og is not None else None
    calls = [c for c in ast.walk(ff) if isinstance(c, ast.Call) and unparse(c.func) == "cls.fromPickle" and (lib.kw(c, od_p) is not None or lib.kw(c, op_p) is not None)]
    if calls and all(lib.kw(calls[0], k_) is not None and lib.role_text(ff, lib.kw(calls[0], k_)) == v_ for k_, v_ in ((od_p, MAPD), (op_p, OPTD))):
        ctx.ok(R, calls[0], "both digests are handed to fromPickle")
    else:
        ctx.finding(R, ff, "digests passed to fromPickle", "Network.fromFile does not pass originalDigest=digest and optionsDigest=optionsDigest to fromPickle")
    tries = [n for n in walk_local(ff) if isinstance(n, ast.Try)]
    good = False
    for tr in tries:
        hs = {unparse(h.type): h for h in tr.handlers if h.type is not None}
        if {"pickle.UnpicklingError", "cls.DigestMismatchError"} <= set(hs) and not any(isinstance(x, (ast.Return, ast.Raise)) for h in hs.values() for x in ast.walk(h)):
            good = True
    # the parse with the given options: <handler>(path, **kwargs) outside the try
    parses = [
        c
        for c in walk_local(ff)
        if isinstance(c, ast.Call)
        and isinstance(c.func, ast.Subscript)
        and c.args
        and unparse(c.args[0]) == fpath
        and any(k.arg is None and unparse(k.value) == kwp for k in c.keywords)
        and not any(isinstance(a, ast.Try) for a in ancestors(c))
    ]
    if good and parses:
        ctx.ok(R, ff, "a stale / mismatching / corrupted cache is ignored and the map is parsed with the given options")
    else:
        ctx.finding(R, ff, "cache fallback", "Network.fromFile no longer falls back to parsing when the cache is outdated (UnpicklingError / DigestMismatchError must both be caught without returning)")
    # the same digests are written with the cache
    dp = [c for c in ast.walk(ff) if isinstance(c, ast.Call) and isinstance(c.func, ast.Attribute) and c.func.attr == "dumpPickle"]
    if dp:
        dpf = model.func(RD, "Network.dumpPickle")
        dparams = [a.arg for a in dpf.args.args][1:]
        bound = {}
        for i, a in enumerate(dp[0].args):
            if i < len(dparams):
                bound[dparams[i]] = lib.role_text(ff, a)
        for k in dp[0].keywords:
            if k.arg:
                bound[k.arg] = lib.role_text(ff, k.value)
        if len(dparams) >= 3 and bound.get(dparams[1]) == MAPD and bound.get(dparams[2]) == OPTD:
            ctx.ok(R, dp[0], "the cache is written with the digests it will be checked against")
        else:
            ctx.finding(R, dp[0], "dumpPickle digests", f"Network.fromFile writes the cache with {bound}, not with (map digest, options digest)")


def check_layout(ctx, R="C20.layout"):
    ctx.rule(
        R,
        "layout agreement of the cache file: dumpPickle writes version, map digest, options digest in that order and fromPickle reads 4, 64 "
        "and 8 bytes in that order, where 4 = calcsize('<I'), 64 = blake2b's default digest size and 8 = the digest_size used for the options; "
        "every short read raises",
    )
    model = ctx.model
    dp = model.func(RD, "Network.dumpPickle")
    fp = model.func(RD, "Network.fromPickle")
    wf = set(lib.with_vars(dp, lambda e: isinstance(e, ast.Call) and dotted(e.func) == "open"))
    rf = set(lib.with_vars(fp, lambda e: isinstance(e, ast.Call) and dotted(e.func) == "open"))
    writes = [lib.role_text(dp, c.args[0]) for c in sorted([c for c in ast.walk(dp) if isinstance(c, ast.Call) and isinstance(c.func, ast.Attribute) and c.func.attr == "write" and unparse(c.func.value) in wf], key=lambda c: c.lineno)]
    reads = [(lib.const(c.args[0]), lib.statement_of(c)) for c in sorted([c for c in ast.walk(fp) if isinstance(c, ast.Call) and isinstance(c.func, ast.Attribute) and c.func.attr == "read" and unparse(c.func.value) in rf], key=lambda c: c.lineno)]
    dpp = [a.arg for a in dp.args.args]
    if len(dpp) >= 4 and writes == [lib.role_text(None, "struct.pack('<I', self._currentFormatVersion())"), dpp[2], dpp[3]]:
        ctx.ok(R, dp, "dumpPickle writes version, digest, optionsDigest")
    else:
        ctx.finding(R, dp, "dumpPickle field order", f"dumpPickle writes {writes}; fromPickle expects version, digest, optionsDigest")
    sizes = [s for s, _ in reads]
    fmt_w = [c.args[0].value for c in ast.walk(dp) if isinstance(c, ast.Call) and dotted(c.func) == "struct.pack" and isinstance(c.args[0], ast.Constant)]
    fmt_r = [c.args[0].value for c in ast.walk(fp) if isinstance(c, ast.Call) and dotted(c.func) == "struct.unpack" and isinstance(c.args[0], ast.Constant)]
    # options digest size from fromFile
    ff = model.func(RD, "Network.fromFile")
    od = [c for c in ast.walk(ff) if isinstance(c, ast.Call) and dotted(c.func) == "deterministicHash"]
    osize = lib.const(lib.kw(od[0], "digest_size")) if od else None
    if osize is None and od:
        dh = model.func(SE, "deterministicHash")
        osize = lib.const(dh.args.kw_defaults[0]) if dh.args.kw_defaults else None
    md = [c for c in ast.walk(ff) if isinstance(c, ast.Call) and dotted(c.func) == "hashlib.blake2b"]
    msize = lib.const(lib.kw(md[0], "digest_size")) if md and lib.kw(md[0], "digest_size") is not None else 64
    want = [struct.calcsize(fmt_w[0]) if fmt_w else None, msize, osize]
    if sizes == want and fmt_w == fmt_r == ["<I"]:
        ctx.ok(R, fp, f"fromPickle reads {sizes} bytes = calcsize('<I'), blake2b digest size, options digest size")
    else:
        ctx.finding(R, fp, "cache layout sizes", f"fromPickle reads field sizes {sizes} (formats {fmt_r}) but the writer produces {want} (formats {fmt_w}): every cache is rejected or misread")
    for size, st in reads:
        if isinstance(st, ast.Assign) and isinstance(st.targets[0], ast.Name):
            v = st.targets[0].id
            if any(isinstance(i, ast.If) and lib.ctext(i.test) == lib.ctext_of(f"len({v}) != {size}") and any(isinstance(x, ast.Raise) for x in i.body) for i in ast.walk(fp)):
                ctx.ok(R, st, f"short read of `{v}` ({size} bytes) raises")
            else:
                ctx.finding(R, st, f"unchecked read of {v}", f"fromPickle does not check that {size} bytes were read into `{v}`")


def check_reconnect(ctx, R="C20.reconnect"):
    ctx.rule(
        R,
        "reconnection coverage: every class deriving _ElementReferencer has its placeholders resolved by Network.__setstate__ (network "
        "elements through self.elements, other referencers through the element fields that hold them), __getstate__ replaces exactly direct "
        "NetworkElement attribute values, and every reconnected element gets its network back",
    )
    model = ctx.model
    base = model.cls(RD, "_ElementReferencer")
    subs = model.subclasses(base, strict=True)
    ctx.floor(R, len(subs), 12, "_ElementReferencer subclasses")
    ne = model.cls(RD, "NetworkElement")
    ss = model.func(RD, "Network.__setstate__")
    t = unparse(ss)
    rc = next((f for f in ast.walk(ss) if isinstance(f, ast.FunctionDef) and f is not ss), None)
    rcn = rc.name if rc is not None else "?"
    proxies = set(lib.locals_assigned(ss, lambda v: unparse(v) == "weakref.proxy(self)"))
    el_loops = [l for l in walk_local(ss) if isinstance(l, ast.For) and unparse(l.iter) == "self.elements.values()" and isinstance(l.target, ast.Name)]
    if el_loops and any(unparse(x) == f"{rcn}({el_loops[0].target.id})" for x in el_loops[0].body) and any(isinstance(x, ast.Assign) and unparse(x.targets[0]) == f"{el_loops[0].target.id}.network" and unparse(x.value) in proxies for x in el_loops[0].body):
        ctx.ok(R, ss, "all network elements (self.elements) are reconnected and get their network back")
    else:
        ctx.finding(R, ss, "__setstate__ elements loop", "Network.__setstate__ no longer reconnects every element of self.elements and restores elem.network")
    def _resolves(f):
        """for k, v in <state>.items(): if isinstance(v, _ElementPlaceholder): <state>[k] = self.elements[v.uid]"""
        for l in ast.walk(f):
            if isinstance(l, ast.For) and isinstance(l.target, ast.Tuple) and len(l.target.elts) == 2 and unparse(l.iter).endswith(".items()"):
                k, v = (unparse(e) for e in l.target.elts)
                st_ = unparse(l.iter)[: -len(".items()")]
                for i in ast.walk(l):
                    if isinstance(i, ast.If) and unparse(i.test) == f"isinstance({v}, _ElementPlaceholder)" and any(unparse(x) == f"{st_}[{k}] = self.elements[{v}.uid]" for x in i.body):
                        return True
        return False

    if rc is not None and _resolves(rc):
        ctx.ok(R, rc, "a placeholder is resolved to self.elements[uid]")
    else:
        ctx.finding(R, ss, "reconnect body", "reconnect() no longer resolves _ElementPlaceholder values through self.elements[uid]")
    others = [c for c in subs if ne not in model.mro(c)]
    net = model.cls(RD, "Network")
    net_fields = {}
    for s in net.node.body:
        if isinstance(s, ast.AnnAssign) and isinstance(s.target, ast.Name):
            net_fields[s.target.id] = unparse(s.annotation)
    for c in others:
        holders = []
        for h in model.classes.values():
            if h.module.name != RD:
                continue
            for s in h.node.body:
                if isinstance(s, ast.AnnAssign) and isinstance(s.target, ast.Name) and c.name in unparse(s.annotation) and h is not c:
                    holders.append((h, s.target.id))
        if not holders:
            ctx.finding(R, c.node, f"{c.name} unreachable", f"{c.name} derives _ElementReferencer but no network element field holds it: its placeholders are never resolved after loading a cache")
            continue
        for h, field in holders:
            nf = [k for k, ann in net_fields.items() if h.name in ann.replace("Dict[str, NetworkElement]", "")]
            reached = f".{field}" in t and any(f"self.{k}" in t for k in nf)
            if reached:
                ctx.ok(R, ss, f"{c.name} objects held in {h.name}.{field} are reconnected (via Network.{[k for k in nf if 'self.' + k in t]})")
            else:
                ctx.finding(R, ss, f"{c.name} in {h.name}.{field} not reconnected", f"Network.__setstate__ does not visit {h.name}.{field} (holding {c.name} objects) through any of Network.{nf}: after loading a cache their links stay placeholders")
    gs = base.methods.get("__getstate__")
    def _replaces(f):
        for l in ast.walk(f):
            if isinstance(l, ast.For) and isinstance(l.target, ast.Tuple) and len(l.target.elts) == 2 and unparse(l.iter).endswith(".items()"):
                k, v = (unparse(e) for e in l.target.elts)
                st_ = unparse(l.iter)[: -len(".items()")]
                rets_ = [r for r in lib.returns_of(f) if r.value is not None and unparse(r.value) == st_]
                copies = any(isinstance(a, ast.Assign) and unparse(a.targets[0]) == st_ and unparse(a.value).endswith(".copy()") for a in ast.walk(f))
                for i in ast.walk(l):
                    if isinstance(i, ast.If) and unparse(i.test) == f"isinstance({v}, NetworkElement)" and any(unparse(x) == f"{st_}[{k}] = _ElementPlaceholder({v}.uid)" for x in i.body):
                        return bool(rets_) and copies
        return False

    if gs is not None and _replaces(gs):
        ctx.ok(R, gs, "__getstate__ replaces direct NetworkElement values by placeholders on a copy of the state")
    else:
        ctx.finding(R, gs or base.node, "__getstate__", "_ElementReferencer.__getstate__ no longer replaces NetworkElement attribute values by _ElementPlaceholder(uid) on a copied state")


def _ieval(e, env):
    """Concrete evaluation of the integer / boolean expression language of the lane-id arithmetic."""
    if isinstance(e, ast.Constant):
        return e.value
    if isinstance(e, ast.Name):
        if e.id in env:
            return env[e.id]
        raise AnalysisError(f"shape not recognised: name `{e.id}` in lane-id arithmetic")
    if isinstance(e, ast.UnaryOp) and isinstance(e.op, ast.USub):
        return -_ieval(e.operand, env)
    if isinstance(e, ast.UnaryOp) and isinstance(e.op, ast.Not):
        return not _ieval(e.operand, env)
    if isinstance(e, ast.BinOp) and isinstance(e.op, (ast.Add, ast.Sub, ast.Mult)):
        a, b = _ieval(e.left, env), _ieval(e.right, env)
        return a + b if isinstance(e.op, ast.Add) else a - b if isinstance(e.op, ast.Sub) else a * b
    if isinstance(e, ast.IfExp):
        return _ieval(e.body, env) if _ieval(e.test, env) else _ieval(e.orelse, env)
    if isinstance(e, ast.BoolOp):
        vals = [_ieval(v, env) for v in e.values]
        return all(vals) if isinstance(e.op, ast.And) else any(vals)
    if isinstance(e, ast.Compare):
        left = _ieval(e.left, env)
        for op, c in zip(e.ops, e.comparators):
            r = _ieval(c, env)
            ok = {ast.Lt: left < r, ast.LtE: left <= r, ast.Gt: left > r, ast.GtE: left >= r, ast.Eq: left == r, ast.NotEq: left != r}.get(type(op))
            if ok is None:
                raise AnalysisError("shape not recognised: comparison in lane-id arithmetic")
            if not ok:
                return False
            left = r
        return True
    raise AnalysisError(f"shape not recognised: `{unparse(e)}` in lane-id arithmetic")


def _irun(stmts, env):
    for s_ in stmts:
        if isinstance(s_, ast.If):
            _irun(s_.body if _ieval(s_.test, env) else s_.orelse, env)
        elif isinstance(s_, ast.Assign) and len(s_.targets) == 1 and isinstance(s_.targets[0], ast.Name):
            env[s_.targets[0].id] = _ieval(s_.value, env)
        elif lib.is_inert(s_):
            continue
        else:
            raise AnalysisError(f"shape not recognised: `{norm_text(s_, 50)}` in lane-id arithmetic")


def check_adjacency(ctx, R="C20.adjacent"):
    ctx.rule(
        R,
        "adjacent-lane links are reciprocal by construction: the OpenDRIVE lane-id arithmetic that picks a lane's left and right neighbour "
        "is evaluated for every id in -4..-1, 1..4 (finite interpretation of the integer code); whenever b is the left neighbour of a, a must be "
        "the right neighbour of b (same travel direction) or the left neighbour of b (across the centre line), and whenever b is the right "
        "neighbour of a, a must be the left neighbour of b.  The lookup within the tolerance uses the Euclidean neighbourhood point.buffer(tolerance)",
    )
    model = ctx.model
    fn = None
    for q, f in model.module("scenic.formats.opendrive.xodr_parser").functions.items():
        if any(isinstance(a, ast.Assign) and any(unparse(t).endswith("._laneToLeft") for t in a.targets) for a in ast.walk(f)):
            fn = f
    if fn is None:
        raise AnalysisError("shape not recognised: no function assigns _laneToLeft in xodr_parser")
    loop = None
    for l in ast.walk(fn):
        if isinstance(l, ast.For) and any(isinstance(a, ast.Assign) and any(unparse(t).endswith("._laneToLeft") for t in a.targets) for a in l.body):
            loop = l
    if loop is None or not (isinstance(loop.target, ast.Tuple) and isinstance(loop.target.elts[0], ast.Name)):
        raise AnalysisError("shape not recognised: loop assigning _laneToLeft / _laneToRight")
    idv = loop.target.elts[0].id
    left_e = right_e = None
    arith = []
    for s_ in loop.body:
        if isinstance(s_, ast.Assign) and any(unparse(t).endswith("._laneToLeft") for t in s_.targets):
            left_e = s_.value
        elif isinstance(s_, ast.Assign) and any(unparse(t).endswith("._laneToRight") for t in s_.targets):
            right_e = s_.value
        elif left_e is None and right_e is None:
            arith.append(s_)

    def key_of(e):
        if isinstance(e, ast.Call) and isinstance(e.func, ast.Attribute) and e.func.attr == "get" and len(e.args) == 1:
            return e.args[0]
        if isinstance(e, ast.Subscript):
            return e.slice
        raise AnalysisError("shape not recognised: neighbour lookup of _laneToLeft / _laneToRight")

    lk, rk_ = key_of(left_e), key_of(right_e)
    dom = [-4, -3, -2, -1, 1, 2, 3, 4]
    left, right = {}, {}
    for i in dom:
        env = {idv: i}
        _irun(arith, env)
        left[i], right[i] = _ieval(lk, env), _ieval(rk_, env)
    bad = []
    for a in dom:
        b = left[a]
        if b in dom:
            same = (a > 0) == (b > 0)
            back = right[b] if same else left[b]
            if back != a:
                bad.append(f"left({a}) = {b} but {'right' if same else 'left'}({b}) = {back}")
        b = right[a]
        if b in dom:
            if (a > 0) != (b > 0):
                bad.append(f"right({a}) = {b} crosses the centre line")
            elif left[b] != a:
                bad.append(f"right({a}) = {b} but left({b}) = {left[b]}")
    if bad:
        ctx.finding(R, loop, "adjacent-lane id arithmetic not reciprocal", f"{lib.qualname_of(loop)}: the neighbour ids computed for lane ids -4..4 are not reciprocal: {'; '.join(bad[:4])}: laneToLeft / laneToRight (and the faster / slower lanes derived from them) of neighbouring lanes contradict each other")
    else:
        ctx.ok(R, loop, f"left / right neighbour ids are reciprocal for all lane ids in {dom}")
    # tolerance neighbourhood
    fp = model.func(RD, "Network.findPointIn")
    helper = next((f for f in ast.walk(fp) if isinstance(f, ast.FunctionDef) and f is not fp and any(isinstance(c, ast.Call) and isinstance(c.func, ast.Attribute) and c.func.attr == "query" for c in ast.walk(f))), None)
    if helper is None:
        raise AnalysisError("shape not recognised: R-tree query helper of Network.findPointIn")
    dp = helper.args.args[0].arg
    pts = set(lib.locals_assigned(fp, lambda v: "shapely.geometry.Point" in unparse(v))) | {a.arg for a in fp.args.args}
    ok_all = True
    nq = 0
    for asm, env, ex in lib.enumerate_paths(helper):
        qs = [c for c in walk_local(helper) if isinstance(c, ast.Call) and isinstance(c.func, ast.Attribute) and c.func.attr == "query" and c.args]
        for c in qs:
            tgt = c.args[0]
            val = env.get(tgt.id, tgt) if isinstance(tgt, ast.Name) else tgt
            nq += 1
            txt = unparse(val)
            zero = any(lib.ctext(ast.parse(k, mode="eval").body) == lib.ctext_of(f"{dp} == 0") and v for k, v in asm.items())
            if (zero and txt in pts) or any(txt == f"{p_}.buffer({dp})" for p_ in pts) or (isinstance(val, ast.IfExp) and unparse(val.orelse) in {f"{p_}.buffer({dp})" for p_ in pts}):
                continue
            ok_all = False
            ctx.finding(R, c, "tolerance neighbourhood is not a disc", f"Network.findPointIn looks for elements intersecting `{txt}` (on the path {asm or '{}'}), not `point.buffer({dp})`: the neighbourhood is not the set of points within {dp} of the point, so elements farther away than the tolerance are reported (a box reaches sqrt(2) x tolerance along the diagonals)")
            break
    if nq and ok_all:
        ctx.ok(R, helper, "elements are looked up within the Euclidean distance `tolerance` of the point (point.buffer)")



XP = "scenic.formats.opendrive.xodr_parser"


def check_lane_adjacency(ctx, R="C20.adjacent"):
    """second part of C20.adjacent: the lane-level lists"""
    model = ctx.model
    fn = model.func(XP, "Road.toScenicRoad")
    asg = [n for n in walk_local(fn) if isinstance(n, ast.Assign) and any(isinstance(t, ast.Attribute) and t.attr == "adjacentLanes" for t in n.targets)]
    lane_level = []
    for n in asg:
        t = next(t for t in n.targets if isinstance(t, ast.Attribute) and t.attr == "adjacentLanes")
        loop = next((a for a in ancestors(n) if isinstance(a, ast.For) and isinstance(a.target, ast.Name) and unparse(t.value) == a.target.id), None)
        if loop is not None and not any(isinstance(c, ast.Attribute) and c.attr in ("_laneToLeft", "_laneToRight") for c in ast.walk(n.value)):
            lane_level.append((n, loop))
    if not lane_level:
        raise AnalysisError("shape not recognised: lane-level adjacentLanes in Road.toScenicRoad")
    for n, loop in lane_level:
        lv = loop.target.id
        # every place the collected value is built from: iterations over sections of this lane
        srcs = []
        names = {x.id for x in ast.walk(n.value) if isinstance(x, ast.Name)}
        region = [n] + [m for m in ast.walk(loop) if isinstance(m, (ast.For, ast.comprehension))]
        for m in ast.walk(loop):
            it = m.iter if isinstance(m, (ast.For, ast.comprehension)) else None
            if it is not None and f"{lv}.sections" in unparse(it):
                srcs.append(it)
        whole = [it for it in srcs if unparse(it) in (f"{lv}.sections", f"tuple({lv}.sections)", f"list({lv}.sections)")]
        partial = [x for x in ast.walk(loop) if isinstance(x, ast.Subscript) and unparse(x.value) == f"{lv}.sections"]
        # neighbours are kept per lane object: a mapping keyed by something else (a per-section id, a name) merges different lanes
        keyed = [s_ for s_ in ast.walk(loop) if isinstance(s_, ast.Assign) and any(isinstance(t, ast.Subscript) and isinstance(t.value, ast.Name) for t in s_.targets)]
        badkey = [s_ for s_ in keyed for t in s_.targets if isinstance(t, ast.Subscript) and unparse(t.slice) not in (unparse(s_.value), f"id({unparse(s_.value)})")]
        if whole and not partial and badkey:
            ctx.finding(
                R,
                badkey[0],
                "lane adjacency de-duplicated by a foreign key",
                f"Road.toScenicRoad collects a lane's neighbours in a mapping keyed by `{unparse(badkey[0].targets[0].slice)}` (`{norm_text(badkey[0], 50)}`): OpenDRIVE lane ids are "
                f"numbered per lane section, so two different neighbouring lanes of different sections share a key and one of them is dropped, while it still lists this lane",
            )
        elif whole and not partial:
            ctx.ok(R, n, f"a lane's adjacent lanes are collected from every one of its sections (`{unparse(whole[0])}`)")
        else:
            ctx.finding(
                R,
                n,
                "lane adjacency from some sections only",
                f"Road.toScenicRoad sets `{unparse(n.targets[0])}` from `{norm_text(partial[0], 40) if partial else 'no iteration over ' + lv + '.sections'}`, not from all sections of the lane: a lane that gains a "
                f"neighbour part-way along the road omits it although that neighbour lists the lane (adjacency is no longer reciprocal)",
            )



def check_end_sections(ctx, R="C20.reconnect"):
    """part of C20.reconnect: a road's link to what follows it belongs to its LAST section, the link to what precedes it to its FIRST"""
    model = ctx.model
    m = model.module(XP)
    n = 0
    for q, fn in m.functions.items():
        for a in walk_local(fn):
            if not isinstance(a, ast.Assign):
                continue
            for t in a.targets:
                if isinstance(t, ast.Attribute) and t.attr in ("_successor", "_predecessor") and isinstance(t.value, ast.Subscript) and isinstance(t.value.value, ast.Attribute) and t.value.value.attr == "sections":
                    idx = lib.const(t.value.slice)
                    if isinstance(t.value.slice, ast.UnaryOp) and isinstance(t.value.slice.op, ast.USub):
                        idx = -lib.const(t.value.slice.operand) if lib.const(t.value.slice.operand) is not None else None
                    if idx is None:
                        continue
                    n += 1
                    want = -1 if t.attr == "_successor" else 0
                    if idx == want:
                        ctx.ok(R, a, f"{q}: `{unparse(t)}` links the {'last' if want else 'first'} section")
                    else:
                        ctx.finding(
                            R,
                            a,
                            f"{q}: {t.attr} set on section {idx}",
                            f"{q} sets `{unparse(t)}`: what follows a road is the successor of its LAST section (sections[-1]) and what precedes it the predecessor of its FIRST "
                            f"(sections[0]); on a road with several sections the wrong section gets the link and the end section keeps none, so successor / predecessor links are not reciprocal",
                        )
    ctx.floor(R, n, 2, "successor / predecessor links set on end sections of a road")


def check_cover(ctx, R="C20.cover"):
    ctx.rule(
        R,
        "aggregate regions consist of elements: every `...Region` argument with which the OpenDRIVE importer builds the Network is the "
        "union (combine / PolygonalRegion.unionAll) of element collections that are passed to the same Network, and the defaults computed in "
        "Network.__attrs_post_init__ are unions of the network's own collections or aggregate regions; so every point of the drivable area "
        "lies in some element the point lookups can return (an extra polygon, e.g. the filled gaps between roads, belongs to no element)",
    )
    model = ctx.model
    fn = model.func(XP, "RoadMap.toScenicNetwork")
    calls = [c for c in walk_local(fn) if isinstance(c, ast.Call) and (dotted(c.func) or "").endswith("Network") and any(k.arg == "elements" for k in c.keywords)]
    if len(calls) != 1:
        raise AnalysisError("shape not recognised: the Network(...) construction of RoadMap.toScenicNetwork")
    call = calls[0]

    def strip(e):
        while isinstance(e, ast.Call) and dotted(e.func) in ("tuple", "list") and len(e.args) == 1:
            e = e.args[0]
        return e

    colls = {unparse(strip(k.value)) for k in call.keywords if k.arg and not k.arg.endswith("Region") and k.arg not in ("elements", "tolerance") and isinstance(strip(k.value), ast.Name)}
    # local union helpers: functions of one parameter returning PolygonalRegion.unionAll(<parameter>, ...)
    helpers = set()
    for f in ast.walk(fn):
        if isinstance(f, ast.FunctionDef) and f is not fn and len(f.args.args) == 1:
            rets = [r for r in lib.returns_of(f) if r.value is not None]
            if len(rets) == 1 and isinstance(rets[0].value, ast.Call) and (dotted(rets[0].value.func) or "").endswith("unionAll") and rets[0].value.args and unparse(rets[0].value.args[0]) == f.args.args[0].arg:
                helpers.add(f.name)
    n = 0
    for k in call.keywords:
        if not (k.arg and k.arg.endswith("Region")):
            continue
        n += 1
        v = k.value
        ok = False
        parts = None
        if isinstance(v, ast.Call) and (dotted(v.func) in helpers or (dotted(v.func) or "").endswith("unionAll")) and v.args:
            a = strip(v.args[0])
            if isinstance(a, ast.Name):
                a2 = lib.local_value(fn, a.id)
                a = strip(a2) if a2 is not None and not isinstance(a2, ast.Name) and unparse(a) not in colls else a
            if isinstance(a, ast.Name):
                parts = [a.id]
            elif isinstance(a, (ast.List, ast.Tuple)):
                parts = [unparse(e.value) if isinstance(e, ast.Starred) else unparse(e) for e in a.elts]
            elif isinstance(a, ast.BinOp) and isinstance(a.op, ast.Add):
                parts = [unparse(strip(a.left)), unparse(strip(a.right))]
            ok = parts is not None and all(p_ in colls for p_ in parts)
        if ok:
            ctx.ok(R, k.value, f"{k.arg} is the union of the element collections {parts}")
        else:
            ctx.finding(
                R,
                k.value,
                f"{k.arg} not a union of element collections",
                f"RoadMap.toScenicNetwork passes {k.arg}=`{norm_text(v, 70)}`, which is not the union of element collections handed to the same Network ({sorted(colls)}): "
                f"points of that region outside every element (e.g. filled gaps between roads) are drivable but elementAt / roadAt / laneAt / intersectionAt find nothing there",
            )
    ctx.floor(R, n, 4, "aggregate regions passed by the importer")
    post = model.func(RD, "Network.__attrs_post_init__")
    m = 0
    for a in walk_local(post):
        if isinstance(a, ast.Assign) and len(a.targets) == 1 and isinstance(a.targets[0], ast.Attribute) and unparse(a.targets[0].value) == "self" and a.targets[0].attr.endswith("Region") and isinstance(a.value, ast.Call):
            v = a.value
            # areas only (the curb is a polyline assembled from edges, not something a point lookup covers)
            if not (dotted(v.func) == "PolygonalRegion.unionAll" or (isinstance(v.func, ast.Attribute) and v.func.attr == "union")):
                continue
            m += 1
            args = list(v.args[:1]) if (dotted(v.func) or "").endswith("unionAll") else [v.func.value] + list(v.args[:1])
            flat = []
            for x in args:
                x = strip(x)
                flat.extend(x.elts if isinstance(x, (ast.Tuple, ast.List)) else [x])
            good = all(isinstance(x, ast.Attribute) and unparse(x.value) == "self" for x in flat) and flat
            if good:
                ctx.ok(R, a, f"default {a.targets[0].attr} = union of {[unparse(x) for x in flat]}")
            else:
                ctx.finding(R, a, f"default {a.targets[0].attr}", f"Network.__attrs_post_init__ computes {a.targets[0].attr} as `{norm_text(v, 70)}`, not as a union of the network's own collections / regions")
    ctx.floor(R, m, 6, "default aggregate regions of Network")


def check(ctx):
    ctx.run(check_adjacency)
    ctx.run(check_lane_adjacency)
    ctx.run(check_end_sections)
    ctx.run(check_cover)
    from .c18 import check_options_hash

    ctx.run(check_options_hash, R="C20.options")  # the map options digest of the cache key is computed by the same function
    ctx.run(check_cache_guard)
    ctx.run(check_layout)
    ctx.run(check_reconnect)
