"""C20 -- road networks are internally consistent for every map, cached or parsed (structural part: the cache)."""

import ast
import struct

from .. import lib
from ..model import AnalysisError, ancestors, dotted, norm_text, parent, unparse, walk_local

RD = "scenic.domains.driving.roads"
SE = "scenic.core.serialization"


def check_cache_guard(ctx, R="C20.guard"):
    ctx.rule(
        R,
        "the cache guard is unavoidable: in Network.fromPickle the pickle.load is dominated by the format-version test and by both digest "
        "comparisons (each raising); Network.fromFile computes the map digest from the file's bytes and the options digest from ALL keyword "
        "options, passes both to fromPickle, and on either mismatch falls back to parsing the map",
    )
    model = ctx.model
    fp = model.func(RD, "Network.fromPickle")
    loads = [c for c in ast.walk(fp) if isinstance(c, ast.Call) and dotted(c.func) == "pickle.load"]
    if len(loads) != 1:
        raise AnalysisError("shape not recognised: pickle.load in Network.fromPickle")
    ld = loads[0]
    checks = []
    for n in ast.walk(fp):
        if isinstance(n, ast.If) and any(isinstance(x, ast.Raise) for x in n.body) and n.lineno < ld.lineno:
            checks.append(n.test)

    def implied(test, atoms):
        """the raising test is definitely true when the mismatch atoms hold (three-valued evaluation)"""
        env = {}
        for a in atoms:
            env[a] = True
        return lib.tri_eval(test, env) is True

    need = {
        "version": [["version[0] != cls._currentFormatVersion()"], ["cls._currentFormatVersion() != version[0]"]],
        "map digest": [["originalDigest", "originalDigest != digest"], ["originalDigest", "digest != originalDigest"]],
        "options digest": [["optionsDigest", "optionsDigest != cachedOptionsDigest"], ["optionsDigest", "cachedOptionsDigest != optionsDigest"]],
    }
    for name, alts in need.items():
        if any(implied(t_, atoms) for t_ in checks for atoms in alts):
            ctx.ok(R, fp, f"fromPickle: the {name} check precedes pickle.load and raises on mismatch")
        else:
            ctx.finding(R, ld, f"fromPickle lacks {name} check", f"Network.fromPickle reaches pickle.load without a raising `{name}` comparison before it: a stale or foreign cache is loaded as if it matched the map")
    ff = model.func(RD, "Network.fromFile")
    t = unparse(ff)
    env = {n.targets[0].id: n.value for n in walk_local(ff) if isinstance(n, ast.Assign) and isinstance(n.targets[0], ast.Name)}
    dg, og = env.get("digest"), env.get("optionsDigest")
    ok_d = dg is not None and unparse(dg) == "hashlib.blake2b(data).digest()" and "data = f.read()" in t and "open(path, 'rb')" in t
    ok_o = og is not None and isinstance(og, ast.Call) and dotted(og.func) == "deterministicHash" and unparse(og.args[0]) == "kwargs"
    if ok_d:
        ctx.ok(R, dg, "the map digest is blake2b of the map file's bytes")
    else:
        ctx.finding(R, ff, "map digest source", "Network.fromFile no longer digests the bytes of the map file itself")
    if ok_o:
        ctx.ok(R, og, "the options digest covers all keyword options (kwargs)")
    else:
        ctx.finding(R, ff, "options digest source", "Network.fromFile no longer computes the options digest from all of **kwargs: changing an option may reuse a cache built with other options")
    calls = [c for c in ast.walk(ff) if isinstance(c, ast.Call) and unparse(c.func) == "cls.fromPickle" and c.keywords]
    if calls and {k.arg: unparse(k.value) for k in calls[0].keywords} == {"originalDigest": "digest", "optionsDigest": "optionsDigest"}:
        ctx.ok(R, calls[0], "both digests are handed to fromPickle")
    else:
        ctx.finding(R, ff, "digests passed to fromPickle", "Network.fromFile does not pass originalDigest=digest and optionsDigest=optionsDigest to fromPickle")
    tries = [n for n in walk_local(ff) if isinstance(n, ast.Try)]
    good = False
    for tr in tries:
        hs = {unparse(h.type): h for h in tr.handlers if h.type is not None}
        if {"pickle.UnpicklingError", "cls.DigestMismatchError"} <= set(hs) and not any(isinstance(x, (ast.Return, ast.Raise)) for h in hs.values() for x in ast.walk(h)):
            good = True
    if good and "network = handlers[ext](path, **kwargs)" in t:
        ctx.ok(R, ff, "a stale / mismatching / corrupted cache is ignored and the map is parsed with the given options")
    else:
        ctx.finding(R, ff, "cache fallback", "Network.fromFile no longer falls back to parsing when the cache is outdated (UnpicklingError / DigestMismatchError must both be caught without returning)")
    # the same digests are written with the cache
    dp = [c for c in ast.walk(ff) if isinstance(c, ast.Call) and unparse(c.func) == "network.dumpPickle"]
    if dp:
        args = [unparse(a) for a in dp[0].args] + [f"{k.arg}={unparse(k.value)}" for k in dp[0].keywords]
        if "digest" in args and "optionsDigest=optionsDigest" in args:
            ctx.ok(R, dp[0], "the cache is written with the digests it will be checked against")
        else:
            ctx.finding(R, dp[0], "dumpPickle digests", f"Network.fromFile writes the cache with {args}, not with (digest, optionsDigest)")


def check_layout(ctx, R="C20.layout"):
    ctx.rule(
        R,
        "layout agreement of the cache file: dumpPickle writes version, map digest, options digest in that order and fromPickle reads 4, 64 "
        "and 8 bytes in that order, where 4 = calcsize('<I'), 64 = blake2b's default digest size and 8 = the digest_size used for the options; "
        "every short read raises",
    )
    model = ctx.model
    dp = model.func(RD, "Network.dumpPickle")
    fp = model.func(RD, "Network.fromPickle")
    writes = [unparse(c.args[0]) for c in sorted([c for c in ast.walk(dp) if isinstance(c, ast.Call) and unparse(c.func) == "f.write"], key=lambda c: c.lineno)]
    reads = [(lib.const(c.args[0]), lib.statement_of(c)) for c in sorted([c for c in ast.walk(fp) if isinstance(c, ast.Call) and unparse(c.func) == "f.read"], key=lambda c: c.lineno)]
    if writes == ["version", "digest", "optionsDigest"]:
        ctx.ok(R, dp, "dumpPickle writes version, digest, optionsDigest")
    else:
        ctx.finding(R, dp, "dumpPickle field order", f"dumpPickle writes {writes}; fromPickle expects version, digest, optionsDigest")
    sizes = [s for s, _ in reads]
    fmt_w = [c.args[0].value for c in ast.walk(dp) if isinstance(c, ast.Call) and dotted(c.func) == "struct.pack" and isinstance(c.args[0], ast.Constant)]
    fmt_r = [c.args[0].value for c in ast.walk(fp) if isinstance(c, ast.Call) and dotted(c.func) == "struct.unpack" and isinstance(c.args[0], ast.Constant)]
    # options digest size from fromFile
    ff = model.func(RD, "Network.fromFile")
    od = [c for c in ast.walk(ff) if isinstance(c, ast.Call) and dotted(c.func) == "deterministicHash"]
    osize = lib.const(lib.kw(od[0], "digest_size")) if od else None
    if osize is None and od:
        dh = model.func(SE, "deterministicHash")
        osize = lib.const(dh.args.kw_defaults[0]) if dh.args.kw_defaults else None
    md = [c for c in ast.walk(ff) if isinstance(c, ast.Call) and dotted(c.func) == "hashlib.blake2b"]
    msize = lib.const(lib.kw(md[0], "digest_size")) if md and lib.kw(md[0], "digest_size") is not None else 64
    want = [struct.calcsize(fmt_w[0]) if fmt_w else None, msize, osize]
    if sizes == want and fmt_w == fmt_r == ["<I"]:
        ctx.ok(R, fp, f"fromPickle reads {sizes} bytes = calcsize('<I'), blake2b digest size, options digest size")
    else:
        ctx.finding(R, fp, "cache layout sizes", f"fromPickle reads field sizes {sizes} (formats {fmt_r}) but the writer produces {want} (formats {fmt_w}): every cache is rejected or misread")
    for size, st in reads:
        if isinstance(st, ast.Assign) and isinstance(st.targets[0], ast.Name):
            v = st.targets[0].id
            if f"len({v}) != {size}" in unparse(fp):
                ctx.ok(R, st, f"short read of `{v}` ({size} bytes) raises")
            else:
                ctx.finding(R, st, f"unchecked read of {v}", f"fromPickle does not check that {size} bytes were read into `{v}`")


def check_reconnect(ctx, R="C20.reconnect"):
    ctx.rule(
        R,
        "reconnection coverage: every class deriving _ElementReferencer has its placeholders resolved by Network.__setstate__ (network "
        "elements through self.elements, other referencers through the element fields that hold them), __getstate__ replaces exactly direct "
        "NetworkElement attribute values, and every reconnected element gets its network back",
    )
    model = ctx.model
    base = model.cls(RD, "_ElementReferencer")
    subs = model.subclasses(base, strict=True)
    ctx.floor(R, len(subs), 12, "_ElementReferencer subclasses")
    ne = model.cls(RD, "NetworkElement")
    ss = model.func(RD, "Network.__setstate__")
    t = unparse(ss)
    if "for elem in self.elements.values()" in t and "reconnect(elem)" in t and "elem.network = proxy" in t:
        ctx.ok(R, ss, "all network elements (self.elements) are reconnected and get their network back")
    else:
        ctx.finding(R, ss, "__setstate__ elements loop", "Network.__setstate__ no longer reconnects every element of self.elements and restores elem.network")
    rc = next((f for f in ast.walk(ss) if isinstance(f, ast.FunctionDef) and f.name == "reconnect"), None)
    if rc is not None and "isinstance(value, _ElementPlaceholder)" in unparse(rc) and "self.elements[value.uid]" in unparse(rc):
        ctx.ok(R, rc, "a placeholder is resolved to self.elements[uid]")
    else:
        ctx.finding(R, ss, "reconnect body", "reconnect() no longer resolves _ElementPlaceholder values through self.elements[uid]")
    others = [c for c in subs if ne not in model.mro(c)]
    net = model.cls(RD, "Network")
    net_fields = {}
    for s in net.node.body:
        if isinstance(s, ast.AnnAssign) and isinstance(s.target, ast.Name):
            net_fields[s.target.id] = unparse(s.annotation)
    for c in others:
        holders = []
        for h in model.classes.values():
            if h.module.name != RD:
                continue
            for s in h.node.body:
                if isinstance(s, ast.AnnAssign) and isinstance(s.target, ast.Name) and c.name in unparse(s.annotation) and h is not c:
                    holders.append((h, s.target.id))
        if not holders:
            ctx.finding(R, c.node, f"{c.name} unreachable", f"{c.name} derives _ElementReferencer but no network element field holds it: its placeholders are never resolved after loading a cache")
            continue
        for h, field in holders:
            nf = [k for k, ann in net_fields.items() if h.name in ann.replace("Dict[str, NetworkElement]", "")]
            reached = f".{field}" in t and any(f"self.{k}" in t for k in nf)
            if reached:
                ctx.ok(R, ss, f"{c.name} objects held in {h.name}.{field} are reconnected (via Network.{[k for k in nf if 'self.' + k in t]})")
            else:
                ctx.finding(R, ss, f"{c.name} in {h.name}.{field} not reconnected", f"Network.__setstate__ does not visit {h.name}.{field} (holding {c.name} objects) through any of Network.{nf}: after loading a cache their links stay placeholders")
    gs = base.methods.get("__getstate__")
    if gs is not None and "isinstance(value, NetworkElement)" in unparse(gs) and "_ElementPlaceholder(value.uid)" in unparse(gs) and "state.copy()" in unparse(gs):
        ctx.ok(R, gs, "__getstate__ replaces direct NetworkElement values by placeholders on a copy of the state")
    else:
        ctx.finding(R, gs or base.node, "__getstate__", "_ElementReferencer.__getstate__ no longer replaces NetworkElement attribute values by _ElementPlaceholder(uid) on a copied state")


def check(ctx):
    check_cache_guard(ctx)
    check_layout(ctx)
    check_reconnect(ctx)
