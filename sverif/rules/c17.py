"""C17 -- visibility respects the view volume and occlusion (structural part)."""

import ast

from .. import lib
from ..model import AnalysisError, ancestors, dotted, norm_text, parent, unparse, walk_local

VI = "scenic.core.visibility"
OT = "scenic.core.object_types"
VE = "scenic.syntax.veneer"
RQ = "scenic.core.requirements"

WORLD, REL, VIEWER, ILL, UNK = "WORLD", "WORLD_REL", "VIEWER", "ILL", "?"


def check_frames(ctx, R="C17.frames"):
    ctx.rule(
        R,
        "G15 frame typestate over visibility.canSee: a WORLD point becomes WORLD_REL by subtracting the viewer position and VIEWER by "
        "applying the viewer's inverse rotation, in that order; applying the inverse rotation to a WORLD point (rotation about the origin "
        "instead of about the viewer) or subtracting the WORLD position from a rotated vector is ill-typed; VIEWER rays go back to the world "
        "with the forward rotation before they are cast from the viewer position",
    )
    model = ctx.model
    fn = model.func(VI, "canSee")
    params = [a.arg for a in fn.args.args]
    if "position" not in params or "orientation" not in params:
        raise AnalysisError("shape not recognised: canSee parameters")
    env = {"position": WORLD}
    why = {}
    n_ops = 0
    findings = []

    def frame(e):
        if isinstance(e, ast.Name):
            return env.get(e.id, UNK)
        if isinstance(e, ast.Subscript):
            return frame(e.value)
        if isinstance(e, (ast.List, ast.Tuple)) and e.elts:
            fs = {frame(x) for x in e.elts}
            return fs.pop() if len(fs) == 1 else UNK
        if isinstance(e, ast.Attribute):
            t = unparse(e)
            if t.endswith(".mesh.vertices") and ("target" in t):
                return WORLD
            if t in ("position.coordinates",):
                return WORLD
            if e.attr == "coordinates":
                return frame(e.value)
            if e.attr == "position" and isinstance(e.value, ast.Name) and e.value.id == "target":
                return WORLD
            return UNK
        if isinstance(e, ast.Call):
            cn = dotted(e.func) or ""
            if cn in ("np.array", "numpy.array", "np.asarray", "numpy.asarray") and e.args:
                return frame(e.args[0])
            if cn == "toVector" and e.args:
                return WORLD if unparse(e.args[0]) == "target" else frame(e.args[0])
            if cn == "orientation._inverseRotation.apply" and e.args:
                f = frame(e.args[0])
                if f == REL:
                    return VIEWER
                if f == WORLD:
                    return ILL
                if f in (ILL, "ILL2"):
                    return "ILL2"
                return UNK
            if unparse(e.func) == "orientation.getRotation().apply" and e.args:
                f = frame(e.args[0])
                return REL if f == VIEWER else (ILL if f in (WORLD,) else UNK)
            return UNK
        if isinstance(e, ast.BinOp) and isinstance(e.op, ast.Sub):
            l, r = frame(e.left), frame(e.right)
            if l == WORLD and r == WORLD:
                return REL
            if l == ILL:
                return "ILL2"  # consequence of an earlier ill-typed value: reported once, at its origin
            if l == VIEWER and r == WORLD:
                return ILL
            if l == REL and r == WORLD:
                return ILL
            return UNK
        if isinstance(e, ast.BinOp) and isinstance(e.op, (ast.Div, ast.Mult)):
            return frame(e.left) if frame(e.left) != UNK else frame(e.right)
        return UNK

    stmts = sorted([n for n in walk_local(fn) if isinstance(n, ast.Assign) and len(n.targets) == 1 and isinstance(n.targets[0], ast.Name)], key=lambda n: n.lineno)
    # per isinstance-branch environments: reset at the start of the point branch
    point_branch = [n for n in walk_local(fn) if isinstance(n, ast.If) and "isinstance(target, (Point, Vector))" in unparse(n.test)]
    for s in stmts:
        f = frame(s.value)
        name = s.targets[0].id
        involved = any(isinstance(x, ast.Call) and unparse(x.func) in ("orientation._inverseRotation.apply", "orientation.getRotation().apply") for x in ast.walk(s.value)) or (
            isinstance(s.value, ast.BinOp) and isinstance(s.value.op, ast.Sub) and frame(s.value.right) == WORLD
        )
        if involved:
            n_ops += 1
            if f == ILL:
                findings.append((s, name))
            elif f == "ILL2":
                pass
            elif f != UNK:
                ctx.ok(R, s, f"`{norm_text(s, 70)}` : {f}")
        if f != UNK or name not in env:
            env[name] = f if f != UNK else env.get(name, UNK)
    ctx.floor(R, n_ops, 4, "frame-changing operations in canSee")
    for s, name in findings:
        ctx.finding(
            R,
            s,
            f"ill-typed frame operation {norm_text(s, 60)}",
            f"visibility.canSee: `{norm_text(s, 90)}` mixes frames: the viewer's inverse rotation must be applied to the target position *relative to the viewer* "
            f"(subtract the viewer position first); as written the absolute position is rotated about the world origin, so a viewer away from the origin "
            f"misjudges which points lie in its view cone",
        )
    # the forward rotation of rays
    rays = [n for n in walk_local(fn) if isinstance(n, ast.Assign) and isinstance(n.value, ast.Call) and unparse(n.value.func) == "orientation.getRotation().apply"]
    if len(rays) >= 2 and all(any(unparse(t) == "orientation is not None" and p for t, p in lib.guard_tests(r, fn)) for r in rays):
        ctx.ok(R, rays[0], "viewer-frame rays are rotated into the world with the viewer's forward rotation before casting")
    else:
        ctx.finding(R, fn, "ray rotation", "canSee no longer rotates viewer-frame rays with orientation.getRotation() before casting them from the viewer position")


def check_occluders(ctx, R="C17.occluders"):
    ctx.rule(
        R,
        "G11 occluder monotonicity: code dominated by the iteration over occludingObjects may only `return False`, `continue`, `break`, or "
        "shrink the candidate-ray set (set difference); it never returns True and never adds rays, so adding occluders can only turn "
        "visible into not visible; occluders are pre-filtered only by distance <= visibleDistance",
    )
    model = ctx.model
    fn = model.func(VI, "canSee")
    loops = [n for n in walk_local(fn) if isinstance(n, ast.For) and unparse(n.iter) in ("occludingObjects", "list(occludingObjects)") and not any("render_scene" in unparse(s) for s in n.body[:1])]
    ctx.floor(R, len(loops), 2, "occlusion loops in canSee")
    # roles (never names): the map ray -> distance at which the target is hit, the candidate-ray set seeded from its keys,
    # and the distance of a point target
    def keyset(v):
        """v (locals replaced by their definitions) is set(<map>.keys()): returns the text of <map>"""
        if not (isinstance(v, ast.Call) and dotted(v.func) == "set" and v.args):
            return None
        a = v.args[0]
        for _ in range(4):  # an extracted argument stands for its definition; the map itself keeps its name
            d = lib.local_value(fn, a.id) if isinstance(a, ast.Name) else None
            if d is None:
                break
            a = d
        if isinstance(a, ast.Call) and isinstance(a.func, ast.Attribute) and a.func.attr == "keys":
            return unparse(a.func.value)
        return None

    tmaps = {keyset(n.value) for n in walk_local(fn) if isinstance(n, ast.Assign) and isinstance(n.value, ast.Call) and dotted(n.value.func) == "set"} - {None}
    cand = set(lib.locals_assigned(fn, lambda v: isinstance(v, ast.Call) and dotted(v.func) == "set" and keyset(v) is not None))
    posp = fn.args.args[0].arg
    tgtp = next((a.arg for a in fn.args.args if a.arg == "target"), fn.args.args[7].arg if len(fn.args.args) > 7 else None)
    def from_target(e, depth=0):
        """e is computed from the target parameter (through locals, whichever of their definitions)"""
        names = lib.names_loaded(e)
        if tgtp in names:
            return True
        if depth > 4:
            return False
        for nm in names:
            for n_ in walk_local(fn):
                if isinstance(n_, ast.Assign) and any(isinstance(t, ast.Name) and t.id == nm for t in n_.targets) and nm not in lib.names_loaded(n_.value):
                    if from_target(n_.value, depth + 1):
                        return True
        return False

    # the distance of a point target: <viewer position>.distanceTo(<something computed from the target parameter>)
    tdist = set(
        lib.locals_assigned(
            fn,
            lambda v: isinstance(v, ast.Call) and unparse(v.func) == f"{posp}.distanceTo" and len(v.args) == 1 and from_target(v.args[0]),
        )
    )
    if not tmaps or not cand or not tdist:
        raise AnalysisError("shape not recognised: target distance map / candidate rays / target distance of canSee")
    for lp in loops:
        bad = False
        for n in ast.walk(lp):
            if isinstance(n, ast.Return):
                if not (isinstance(n.value, ast.Constant) and n.value.value is False):
                    bad = True
                    ctx.finding(R, n, f"return {unparse(n.value) if n.value else None} inside occluder loop", f"canSee: `{unparse(n)}` inside the loop over occluding objects: an occluder can make the target visible")
            if isinstance(n, ast.Assign) and any(unparse(t) in cand for t in n.targets):
                v = n.value
                ok = isinstance(v, ast.BinOp) and isinstance(v.op, (ast.Sub, ast.BitAnd)) and unparse(v.left) in cand
                if not ok:
                    bad = True
                    ctx.finding(R, n, f"candidate set update {norm_text(n, 50)}", f"canSee: `{unparse(n)}` inside the occluder loop is not a set difference/intersection of the candidate rays: occluders could add rays")
            if isinstance(n, ast.Call) and isinstance(n.func, ast.Attribute) and unparse(n.func.value) in cand and n.func.attr in ("add", "update", "union"):
                bad = True
                ctx.finding(R, n, "candidate set grows", f"canSee: `{unparse(n)}` adds candidate rays inside the occluder loop")
        if not bad:
            ctx.ok(R, lp, "occluder loop only removes rays / returns False")
    # comparison direction: a ray is occluded if the occluder is hit no farther than the target
    def _is_target(e):
        return (isinstance(e, ast.Subscript) and unparse(e.value) in tmaps) or (isinstance(e, ast.Name) and e.id in tdist)

    cmps = [n for lp in loops for n in ast.walk(lp) if isinstance(n, ast.Compare) and len(n.ops) == 1 and isinstance(n.ops[0], (ast.Lt, ast.LtE, ast.Gt, ast.GtE)) and (_is_target(n.left) != _is_target(n.comparators[0]))]
    for c in cmps:
        small, big = (c.left, c.comparators[0]) if isinstance(c.ops[0], (ast.LtE, ast.Lt)) else (c.comparators[0], c.left)
        if _is_target(big):
            ctx.ok(R, c, f"`{unparse(c)}`: a ray is occluded when the occluder is hit before (or at) the target")
        else:
            ctx.finding(R, c, f"occlusion comparison {lib.ctext(c)}", f"canSee: `{unparse(c)}`: a ray must count as occluded when the occluder is hit at a distance <= the target's")
    ctx.floor(R, len(cmps), 2, "occlusion distance comparisons")
    pre = [n for n in walk_local(fn) if isinstance(n, ast.Assign) and unparse(n.targets[0]) == "occludingObjects" and isinstance(n.value, ast.ListComp)]
    if pre and [unparse(t) for t in pre[0].value.generators[0].ifs] == ["position.distanceTo(obj) <= visibleDistance"]:
        ctx.ok(R, pre[0], "occluders are pre-filtered only by distance to the viewer <= visibleDistance")
    elif pre:
        ctx.finding(R, pre[0], "occluder pre-filter", f"canSee pre-filters occluders with {[unparse(t) for t in pre[0].value.generators[0].ifs]}: an occluder within the visible distance may be dropped")
    # view-volume exits
    rets = [r for r in walk_local(fn) if isinstance(r, ast.Return) and isinstance(r.value, ast.Constant) and r.value.value is False]
    dist = [r for r in rets if any(p and (lib.cmp_parts(t) or ("", None, ""))[0] == "visibleDistance" and (lib.cmp_parts(t) or ("", None, ""))[1] is ast.Lt for t, p in lib.guard_tests(r, fn))]
    if len(dist) >= 2:
        ctx.ok(R, dist[0], "targets farther than visibleDistance are not visible (object and point branches)")
    else:
        ctx.finding(R, fn, "visible distance exits", "canSee no longer returns False for targets beyond visibleDistance in both branches")
    # every hit on the target that becomes a candidate ray lies within the visible distance
    stores = [n for n in walk_local(fn) if isinstance(n, ast.Assign) and isinstance(n.targets[0], ast.Subscript) and unparse(n.targets[0].value) in tmaps]
    for st_ in stores:
        d = unparse(st_.value)
        within = False
        for t, pol in lib.path_conditions(st_, fn):
            cp = lib.cmp_parts(t)
            if cp is None:
                continue
            l_, op_, r_ = cp
            if (l_, r_) == ("visibleDistance", d) and op_ in (ast.Lt, ast.LtE) and not pol:
                within = True  # not (visibleDistance < d)
            if (l_, r_) == (d, "visibleDistance") and op_ in (ast.Lt, ast.LtE) and pol:
                within = True
        if within:
            ctx.ok(R, st_, f"a hit on the target counts only when `{d} <= visibleDistance`")
        else:
            ctx.finding(R, st_, "target hits beyond the visible distance are kept", f"canSee records `{unparse(st_)}` for every ray that hits the target, without requiring `{d} <= visibleDistance`: a target whose only part inside the view angles lies beyond the visible distance is reported visible")
    if not stores:
        raise AnalysisError("shape not recognised: canSee no longer fills the target distance map")
    az = lib.locals_assigned(fn, lambda v: "arctan2" in unparse(v))
    al = lib.locals_assigned(fn, lambda v: "arcsin" in unparse(v))
    # every answer other than `False` of the point branch (the branch that computes azimuth and altitude) is given only
    # when both angles are within the view cone: the conditions of its path contain -vA/2 <= angle and angle <= vA/2
    # (or |angle| <= vA/2) for both angles
    if len(az) != 1 or len(al) != 1:
        raise AnalysisError("shape not recognised: azimuth / altitude of canSee's point branch")
    az_def = next(n for n in walk_local(fn) if isinstance(n, ast.Assign) and isinstance(n.targets[0], ast.Name) and n.targets[0].id == az[0])
    branch_block = parent(az_def)
    answers = [
        r
        for r in walk_local(fn)
        if isinstance(r, ast.Return)
        and not (isinstance(r.value, ast.Constant) and r.value.value is False)
        and r.lineno > az_def.lineno
        and (branch_block is fn or any(a is branch_block for a in ancestors(r)))
    ]
    if not answers:
        raise AnalysisError("shape not recognised: canSee's point branch has no positive answer")

    def within(conds, angle, idx):
        half = f"viewAngles[{idx}] / 2"
        have = {lib.ctext(t) for t, p in conds if p}
        # a false strict comparison the other way round is the same fact for real angles
        for t, p in conds:
            if not p and isinstance(t, ast.Compare) and len(t.ops) == 1 and isinstance(t.ops[0], (ast.Lt, ast.Gt)):
                inv = ast.Compare(left=t.left, ops=[ast.GtE() if isinstance(t.ops[0], ast.Lt) else ast.LtE()], comparators=t.comparators)
                have.add(lib.ctext(inv))
        two_sided = lib.ctext_of(f"-{half} <= {angle}") in have and lib.ctext_of(f"{angle} <= {half}") in have
        return two_sided or lib.ctext_of(f"abs({angle}) <= {half}") in have

    bad = []
    for r in answers:
        conds = lib.flatten_conditions(lib.guard_tests(r, fn))
        if not (within(conds, az[0], 0) and within(conds, al[0], 1)):
            bad.append((r, conds))
    if not bad:
        ctx.ok(R, answers[0], "a point outside the horizontal or vertical view angle is not visible")
    else:
        r, conds = bad[0]
        t = "; ".join(("" if p else "not ") + unparse(t) for t, p in conds if "viewAngles" in unparse(t)) or "nothing about the view angles"
        ctx.finding(R, r, "view cone test", f"canSee's point branch answers `{norm_text(r, 40)}` having tested `{t}`; both |azimuth| <= viewAngles[0]/2 and |altitude| <= viewAngles[1]/2 are required")


def check_wrappers(ctx, R="C17.wrappers"):
    ctx.rule(
        R,
        "viewer wrappers agree with view regions: for Point, OrientedPoint and Object the arguments of canSee(position=, orientation=, "
        "visibleDistance=, viewAngles=) equal the position / rotation / distance / angles used to build the class's visibleRegion (camera "
        "offset applied in the viewer's own orientation); 2-D classes answer from their visibleRegion when nothing occludes",
    )
    model = ctx.model
    for cname in ("Point", "OrientedPoint", "Object"):
        ci = model.cls(OT, cname)
        cs, vr = ci.methods.get("canSee"), ci.methods.get("visibleRegion")
        if cs is None or vr is None:
            raise AnalysisError(f"{cname}.canSee / visibleRegion missing")

        def env_of(f):
            return {n.targets[0].id: unparse(n.value) for n in walk_local(f) if isinstance(n, ast.Assign) and isinstance(n.targets[0], ast.Name)}

        e1, e2 = env_of(cs), env_of(vr)
        call = next((c for c in ast.walk(cs) if isinstance(c, ast.Call) and dotted(c.func) == "canSee"), None)
        reg = next((c for c in ast.walk(vr) if isinstance(c, ast.Call) and dotted(c.func) in ("ViewRegion", "SpheroidRegion")), None)
        if call is None or reg is None:
            raise AnalysisError(f"shape not recognised: {cname}.canSee / visibleRegion")

        def arg(c, k, env):
            v = lib.kw(c, k)
            if v is None:
                return None
            t = unparse(v)
            return env.get(t, t)

        pos1, pos2 = arg(call, "position", e1), arg(reg, "position", e2)
        problems = []
        if pos1 != pos2:
            problems.append(f"canSee looks from `{pos1}` but visibleRegion is placed at `{pos2}`")
        if dotted(reg.func) == "ViewRegion":
            if arg(call, "orientation", e1) != arg(reg, "rotation", e2):
                problems.append(f"canSee uses orientation `{arg(call, 'orientation', e1)}` but visibleRegion rotation `{arg(reg, 'rotation', e2)}`")
            if arg(call, "visibleDistance", e1) != arg(reg, "visibleDistance", e2):
                problems.append("visibleDistance differs")
            if arg(call, "viewAngles", e1) != arg(reg, "viewAngles", e2):
                problems.append(f"viewAngles differ: `{arg(call, 'viewAngles', e1)}` vs `{arg(reg, 'viewAngles', e2)}`")
        else:
            if arg(call, "orientation", e1) != "None" or arg(call, "viewAngles", e1) != "(math.tau, math.pi)":
                problems.append("a Point sees the whole sphere: orientation None and viewAngles (tau, pi)")
            dims = arg(reg, "dimensions", e2)
            if dims is None or dims.count("self.visibleDistance") != 3 and "dimensions" not in e2:
                pass
        if cname == "Object" and "self.position.offsetLocally(self.orientation, self.cameraOffset)" not in (pos1 or ""):
            problems.append(f"the camera position is `{pos1}`, not position.offsetLocally(orientation, cameraOffset)")
        if problems:
            for p in problems:
                ctx.finding(R, cs, f"{cname} canSee vs visibleRegion: {p[:70]}", f"{cname}: {p}: `X can see Y` and `Y in X.visibleRegion` disagree")
        else:
            ctx.ok(R, cs, f"{cname}.canSee and {cname}.visibleRegion use the same position, orientation, distance and angles")
        # target and occluders forwarded
        if arg(call, "target", e1) != cs.args.args[1].arg or arg(call, "occludingObjects", e1) != "occludingObjects":
            ctx.finding(R, cs, f"{cname}.canSee forwarding", f"{cname}.canSee does not forward its target / occludingObjects unchanged")
    p2 = model.cls(OT, "Point2D")
    cs = p2.methods.get("canSee")
    good2d = False
    if cs is not None:
        occ = cs.args.args[2].arg if len(cs.args.args) >= 3 else "occludingObjects"
        tgt = cs.args.args[1].arg if len(cs.args.args) >= 2 else "other"
        rets2 = [r for r in lib.returns_of(cs) if r.value is not None]
        general = [r for r in rets2 if unparse(r.value) == f"self._3DClass.canSee(self, {tgt}, {occ})"]
        flat = [r for r in rets2 if r not in general]
        # the region-based answer is given only when nothing occludes; otherwise the general ray test answers
        good2d = bool(general) and all(lib.holds(lib.guard_tests(r, cs), f"not {occ}", f"len({occ}) == 0") for r in flat)
    if good2d:
        ctx.ok(R, cs, "2-D: region-based answer only when there are no occluders, otherwise the general ray test")
    else:
        ctx.finding(R, cs or p2.node, "Point2D.canSee", "Point2D.canSee no longer falls back to the 3-D ray test when occluders are given")


def check_plumbing(ctx, R="C17.plumbing"):
    ctx.rule(
        R,
        "occluder plumbing: the `can see` operator and VisibilityRequirement pass every object of the scenario except the viewer and the "
        "target, keeping only those whose `occluding` is true",
    )
    model = ctx.model
    fn = model.func(VE, "CanSee")
    helper = next((f for f in ast.walk(fn) if isinstance(f, ast.FunctionDef) and f is not fn), None)
    if helper is None:
        raise AnalysisError("shape not recognised: veneer.CanSee helper")
    hp = [a.arg for a in helper.args.args]
    if len(hp) != 3:
        raise AnalysisError("shape not recognised: parameters of veneer.CanSee helper")
    hx, hy, hobjs = hp
    calls = [c for c in walk_local(helper) if isinstance(c, ast.Call) and isinstance(c.func, ast.Attribute) and c.func.attr == "canSee" and unparse(c.func.value) == hx]
    good = False
    for c in calls:
        occ = lib.kw(c, "occludingObjects")
        if occ is None or not c.args or unparse(c.args[0]) != hy:
            continue
        got = lib.role_text(helper, occ)
        alts = set()
        import itertools as _it

        for perm in _it.permutations([f"o.occluding", f"{hx} is not o", f"{hy} is not o"]):
            alts.add(lib.role_text(None, f"tuple(o for o in {hobjs} if {' and '.join(perm)})"))
            alts.add(lib.role_text(None, f"[o for o in {hobjs} if {' and '.join(perm)}]"))
        good = got in alts
    # the helper is applied to the scenario's current objects
    outer_calls = [c for c in walk_local(fn) if isinstance(c, ast.Call) and isinstance(c.func, ast.Name) and c.func.id == helper.name and len(c.args) == 3]
    passed = bool(outer_calls) and lib.role_text(fn, outer_calls[0].args[2]) == "toDistribution(currentScenario._objects)"
    if good and passed:
        ctx.ok(R, helper, "`X can see Y`: occluders = all current objects that occlude, minus X and Y")
    else:
        ctx.finding(R, helper, "CanSee occluders", "veneer.CanSee no longer passes exactly the occluding objects other than viewer and target")
    vr = model.cls(RQ, "VisibilityRequirement")
    init, fb = vr.methods["__init__"], vr.methods["falsifiedByInner"]
    objp = init.args.args[3].arg if len(init.args.args) >= 4 else "objects"
    samp = fb.args.args[1].arg
    po = [n.value for n in walk_local(init) if isinstance(n, ast.Assign) and unparse(n.targets[0]) == "self.potential_occluders"]
    rets = [r for r in lib.returns_of(fb) if r.value is not None]
    want_init = lib.role_text(None, f"tuple(obj for obj in {objp} if obj is not self.source and obj is not self.target)")
    want_init2 = lib.role_text(None, f"tuple(obj for obj in {objp} if obj is not self.target and obj is not self.source)")
    want_ret = lib.role_text(None, f"not {samp}[self.source].canSee({samp}[self.target], occludingObjects=tuple(o for o in tuple({samp}[p] for p in self.potential_occluders) if o.occluding))")
    if len(po) == 1 and lib.role_text(init, po[0]) in (want_init, want_init2) and len(rets) == 1 and lib.role_text(fb, rets[0].value) == want_ret:
        ctx.ok(R, vr.node, "VisibilityRequirement: candidates exclude source and target; at check time only sampled `occluding` objects occlude")
    else:
        ctx.finding(R, vr.node, "VisibilityRequirement occluders", "VisibilityRequirement no longer excludes source/target from the occluders or no longer filters by the sampled `occluding`")

    # the candidates handed to the (non-)visibility requirements when the scenario is compiled: `occluding` may be random, so the
    # compile-time filter must keep every object whose `occluding` needs sampling or is true
    sc = model.func("scenic.core.scenarios", "Scenario._makeRequirements") if model.try_func("scenic.core.scenarios", "Scenario._makeRequirements") else None
    if sc is None:
        m_ = model.module("scenic.core.scenarios")
        sc = next((f for q, f in m_.functions.items() if any(isinstance(c, ast.Call) and (dotted(c.func) or "").endswith("VisibilityRequirement") for c in walk_local(f))), None)
    if sc is None:
        raise AnalysisError("anchor not found: the function of scenarios.py that creates VisibilityRequirement")
    n_req = 0
    for c in walk_local(sc):
        if not (isinstance(c, ast.Call) and (dotted(c.func) or "").split(".")[-1] in ("VisibilityRequirement", "NonVisibilityRequirement") and len(c.args) >= 3):
            continue
        n_req += 1
        arg = c.args[2]
        def _resolve(e):
            for _ in range(8):
                if isinstance(e, ast.Name):
                    defs = [a for a in walk_local(sc) if isinstance(a, ast.Assign) and len(a.targets) == 1 and isinstance(a.targets[0], ast.Name) and a.targets[0].id == e.id]
                    if len(defs) != 1:
                        raise AnalysisError(f"shape not recognised: definitions of `{e.id}` in {sc.name}")
                    e = defs[0].value
                elif isinstance(e, ast.Call) and dotted(e.func) in ("tuple", "list") and len(e.args) == 1:
                    e = e.args[0]
                else:
                    break
            return e

        arg = _resolve(arg)
        if isinstance(arg, ast.Call) and dotted(arg.func) == "filter" and len(arg.args) == 2:
            arg = ast.Call(func=arg.func, args=[_resolve(arg.args[0]), arg.args[1]], keywords=[])
        pred = var = None
        if isinstance(arg, ast.Attribute):
            ctx.ok(R, c, f"{dotted(c.func)}: every object `{unparse(arg)}` is a candidate occluder")
            continue
        if isinstance(arg, ast.Call) and dotted(arg.func) == "filter" and len(arg.args) == 2 and isinstance(arg.args[0], ast.Lambda) and len(arg.args[0].args.args) == 1:
            pred, var = arg.args[0].body, arg.args[0].args.args[0].arg
        elif isinstance(arg, (ast.GeneratorExp, ast.ListComp)) and len(arg.generators) == 1 and isinstance(arg.generators[0].target, ast.Name):
            g = arg.generators[0]
            var = g.target.id
            pred = ast.BoolOp(op=ast.And(), values=list(g.ifs)) if len(g.ifs) > 1 else (g.ifs[0] if g.ifs else ast.Constant(True))
        else:
            raise AnalysisError(f"shape not recognised: candidate occluders `{norm_text(arg, 80)}`")

        def ev(e, A, B):
            """value of the predicate for an object whose `occluding` needs sampling (A) / is true when it does not (B)"""
            if isinstance(e, ast.Constant):
                return bool(e.value)
            if isinstance(e, ast.BoolOp):
                vs = [ev(v, A, B) for v in e.values]
                return all(vs) if isinstance(e.op, ast.And) else any(vs)
            if isinstance(e, ast.UnaryOp) and isinstance(e.op, ast.Not):
                return not ev(e.operand, A, B)
            if isinstance(e, ast.Attribute) and isinstance(e.value, ast.Name) and e.value.id == var and e.attr == "occluding":
                return True if A else B
            if isinstance(e, ast.Call) and (dotted(e.func) or "").split(".")[-1] in ("needsSampling", "isLazy", "needsLazyEvaluation") and len(e.args) == 1 and unparse(e.args[0]) == f"{var}.occluding":
                return A
            if isinstance(e, ast.Compare) and len(e.ops) == 1 and unparse(e.left) == f"{var}.occluding" and isinstance(e.comparators[0], ast.Constant) and isinstance(e.comparators[0].value, bool):
                k, op = e.comparators[0].value, e.ops[0]
                same = (B == k) and not A  # a random value is neither True nor False
                if isinstance(op, (ast.Is, ast.Eq)):
                    return same
                if isinstance(op, (ast.IsNot, ast.NotEq)):
                    return not same
            raise AnalysisError(f"shape not recognised: term `{unparse(e)}` of the candidate-occluder filter")

        lost = [d for (A, B, d) in ((True, False, "a random `occluding` (e.g. `with occluding Options([True, False])`)"), (False, True, "`occluding` True")) if not ev(pred, A, B)]
        if lost:
            ctx.finding(
                R,
                c,
                f"{dotted(c.func)} candidate occluders drop {'random' if 'random' in lost[0] else 'true'} occluding",
                f"{sc.name}: the candidate occluders of {dotted(c.func)} are filtered at compile time by `{unparse(pred)}`, which drops an object with {lost[0]}: "
                f"when that object is sampled as occluding and hides the target, the scene is still accepted as 'visible'",
            )
        else:
            ctx.ok(R, c, f"{dotted(c.func)}: compile-time filter `{unparse(pred)}` keeps random and true `occluding`")
    ctx.floor(R, n_req, 2, "visibility requirements created by the scenario")


def check(ctx):
    ctx.run(check_frames)
    ctx.run(check_occluders)
    ctx.run(check_wrappers)
    ctx.run(check_plumbing)
