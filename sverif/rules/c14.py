"""C14 -- simulations leave scenes, scenarios and global state untouched, even on failure (structural part)."""

import ast

from .. import lib
from ..model import AnalysisError, ancestors, dotted, norm_text, parent, unparse, walk_local

VE = "scenic.syntax.veneer"
SI = "scenic.core.simulators"
DS = "scenic.core.dynamics.scenarios"
OT = "scenic.core.object_types"
RQ = "scenic.core.requirements"
TR = "scenic.syntax.translator"

MUTATORS = {"append", "extend", "pop", "remove", "clear", "update", "add", "insert", "discard", "setdefault"}


def _is_ctxmgr(fn):
    return any(dotted(d) in ("contextmanager", "contextlib.contextmanager") for d in fn.decorator_list)


def check_globals(ctx, R="C14.globals"):
    ctx.rule(
        R,
        "global write/reset accounting: every module-level state variable of veneer.py that some function rebinds (`global` + assignment) or "
        "mutates is either (a) written only by context managers that restore it in `finally`, or (b) reset by deactivate() (at activity 0) "
        "and/or endSimulation(), matching the phase (compilation / simulation) in which it is written; a variable written but never reset "
        "makes a later compile/sample/simulate differ from a fresh process",
    )
    model = ctx.model
    m = model.module(VE)
    funcs = {q: f for q, f in m.functions.items() if "." not in q}
    declared = {}
    for q, f in funcs.items():
        for n in walk_local(f):
            if isinstance(n, ast.Global):
                for name in n.names:
                    declared.setdefault(name, set()).add(q)
    # module-level mutable containers mutated through methods
    module_vars = {t.id for s in m.tree.body if isinstance(s, ast.Assign) for t in s.targets if isinstance(t, ast.Name)}
    writers = {}
    for q, f in funcs.items():
        g = {name for n in walk_local(f) if isinstance(n, ast.Global) for name in n.names}
        for n in walk_local(f):
            if isinstance(n, (ast.Assign, ast.AugAssign, ast.AnnAssign)):
                tg = n.targets if isinstance(n, ast.Assign) else [n.target]
                for t in tg:
                    for x in ast.walk(t):
                        if isinstance(x, ast.Name) and isinstance(x.ctx, ast.Store) and x.id in g:
                            writers.setdefault(x.id, set()).add(q)
            if isinstance(n, ast.Call) and isinstance(n.func, ast.Attribute) and n.func.attr in MUTATORS and isinstance(n.func.value, ast.Name):
                nm = n.func.value.id
                if nm in module_vars and nm not in lib.bound_in_scope(f) - g:
                    writers.setdefault(nm, set()).add(q)
    state = sorted(v for v in writers if v in module_vars)
    ctx.floor(R, len(state), 14, "mutable state globals of veneer.py")

    def resets_of(fname, only_at_zero=False):
        f = funcs.get(fname)
        if f is None:
            raise AnalysisError(f"anchor veneer.{fname} missing")
        out = set()
        for n in walk_local(f):
            if isinstance(n, ast.Assign):
                for t in n.targets:
                    for x in ast.walk(t):
                        if isinstance(x, ast.Name) and isinstance(x.ctx, ast.Store):
                            out.add(x.id)
            if isinstance(n, ast.Call) and isinstance(n.func, ast.Attribute) and n.func.attr in ("pop", "clear") and isinstance(n.func.value, ast.Name):
                out.add(n.func.value.id)
            if isinstance(n, ast.AugAssign) and isinstance(n.target, ast.Name):
                out.add(n.target.id)
        return out

    r_deact = resets_of("deactivate")
    r_endsim = resets_of("endSimulation")
    # phase in which a writer can run (frozen; everything not listed runs only while compiling)
    SIM_ONLY = {"beginSimulation", "endSimulation", "startScenario", "endScenario"}
    BOTH = {"finishScenarioSetup"}  # setup blocks run at compile time (top level) and during simulations (sub-scenarios)

    def self_restoring(fname, v):
        """the function assigns v and assigns it again in a finally of its own"""
        f = funcs[fname]
        for tnode in walk_local(f):
            if isinstance(tnode, ast.Try) and tnode.finalbody:
                for s in tnode.finalbody:
                    for n in ast.walk(s):
                        if isinstance(n, ast.Assign) and any(isinstance(x, ast.Name) and x.id == v for tg in n.targets for x in ast.walk(tg)):
                            return True
        return False

    for v in state:
        ws = writers[v]
        node = next((s for s in m.tree.body if isinstance(s, ast.Assign) and any(isinstance(t, ast.Name) and t.id == v for t in s.targets)), m.tree)
        cm = {w for w in ws if _is_ctxmgr(funcs[w])}
        bad_cm = [w for w in cm if not _restores_in_finally(funcs[w], v)]
        if bad_cm:
            ctx.finding(R, funcs[bad_cm[0]], f"{v}: context manager {bad_cm[0]} does not restore", f"veneer.{bad_cm[0]} sets `{v}` but does not restore it in a `finally` around its yield")
            continue
        plain = {w for w in ws - cm - {"deactivate", "endSimulation"} if not self_restoring(w, v)}
        if not plain:
            ctx.ok(R, node, f"`{v}`: written only by context managers / functions that restore it themselves ({sorted(ws)})")
            continue
        need_endsim = any(w in SIM_ONLY or w in BOTH for w in plain)
        need_deact = any(w not in SIM_ONLY for w in plain)
        miss = []
        if need_deact and v not in r_deact:
            miss.append("deactivate()")
        if need_endsim and v not in r_endsim:
            miss.append("endSimulation()")
        if miss:
            ctx.finding(
                R,
                node,
                f"{v} not reset by {'/'.join(miss)}",
                f"veneer.{v} is written by {sorted(plain)} but {' and '.join(miss)} never reset{'s' if len(miss) == 1 else ''} it: after a compilation or "
                f"simulation (finished or failed) the value persists, so the next compile/generate/simulate in this process behaves differently from a fresh process",
            )
        else:
            ctx.ok(R, node, f"`{v}`: written by {sorted(plain)}; reset by " + ", ".join(x for x, c in (("deactivate()", v in r_deact), ("endSimulation()", v in r_endsim)) if c))
    # the three class bindings swapped in 2-D mode
    for fname, resetter in (("activate", "deactivate"), ("beginSimulation", "endSimulation")):
        f, r = funcs[fname], funcs[resetter]
        swaps = {unparse(n.targets[0]) for n in walk_local(f) if isinstance(n, ast.Assign) and unparse(n.targets[0]).startswith("scenic.core.object_types.")}
        backs = {unparse(n.targets[0]) for n in walk_local(r) if isinstance(n, ast.Assign) and unparse(n.targets[0]).startswith("scenic.core.object_types.")}
        if swaps and swaps <= backs and any("_originalConstructibles" in unparse(n) for n in walk_local(r)):
            ctx.ok(R, r, f"{resetter} restores the 2-D class swap of {fname} ({sorted(swaps)})")
        elif swaps:
            ctx.finding(R, r, f"{resetter} 2-D restore", f"veneer.{fname} swaps {sorted(swaps)} for 2-D mode but {resetter} does not restore {sorted(swaps - backs)}")
    # behaviour namespaces: rebound in beginSimulation, restored in endSimulation
    def _ns_update(f):
        """index (1 = sampled, 2 = original) of the namespace a loop over behaviorNamespaces installs, after clearing"""
        for l in walk_local(f):
            if isinstance(l, ast.For) and unparse(l.iter).endswith(".behaviorNamespaces.items()") and isinstance(l.target, ast.Tuple) and len(l.target.elts) == 2 and isinstance(l.target.elts[1], ast.Tuple) and len(l.target.elts[1].elts) == 3:
                trio = [unparse(x) for x in l.target.elts[1].elts]
                body = [unparse(x) for x in l.body]
                if f"{trio[0]}.clear()" in body:
                    for k in (1, 2):
                        if f"{trio[0]}.update({trio[k]})" in body and body.index(f"{trio[0]}.clear()") < body.index(f"{trio[0]}.update({trio[k]})"):
                            return k
        return None

    if _ns_update(funcs["beginSimulation"]) == 1 and _ns_update(funcs["endSimulation"]) == 2:
        ctx.ok(R, funcs["endSimulation"], "behaviour namespaces rebound for the simulation are restored from originalNS")
    else:
        ctx.finding(R, funcs["endSimulation"], "behaviour namespaces", "endSimulation no longer restores the module namespaces rebound by beginSimulation")


def _restores_in_finally(fn, var):
    """Does the context manager assign var before its yield and again in a finally enclosing the yield?"""
    ys = [n for n in walk_local(fn) if isinstance(n, ast.Yield)]
    if not ys:
        return False
    y = ys[0]
    tries = [a for a in ancestors(y) if isinstance(a, ast.Try) and a.finalbody]
    for t in tries:
        for s in t.finalbody:
            for n in ast.walk(s):
                if isinstance(n, ast.Assign) and any(isinstance(x, ast.Name) and x.id == var for tg in n.targets for x in ast.walk(tg)):
                    return True
    return False


def check_context_managers(ctx, R="C14.ctxmgr"):
    ctx.rule(
        R,
        "context managers restore in finally: every @contextmanager of veneer.py / translator.py / utils.py that assigns a global or an "
        "attribute of its argument before `yield` has the `yield` inside a try whose `finally` assigns the same target back",
    )
    model = ctx.model
    n = 0
    for mn in (VE, TR, "scenic.core.utils"):
        m = model.module(mn)
        for q, f in m.functions.items():
            if not _is_ctxmgr(f):
                continue
            ys = [x for x in walk_local(f) if isinstance(x, ast.Yield)]
            if len(ys) != 1:
                continue
            y = ys[0]
            n += 1
            g = {name for x in walk_local(f) if isinstance(x, ast.Global) for name in x.names}
            before = []
            for s in walk_local(f):
                if isinstance(s, ast.Assign) and s.lineno < y.lineno:
                    for t in s.targets:
                        if isinstance(t, ast.Name) and t.id in g:
                            before.append(unparse(t))
                        elif isinstance(t, ast.Attribute) and isinstance(t.value, ast.Name) and t.value.id in g:
                            before.append(unparse(t))
                if isinstance(s, ast.Call) and s.lineno < y.lineno and isinstance(s.func, ast.Attribute) and s.func.attr in ("insert", "append") and "sys.path" in unparse(s.func.value):
                    before.append("sys.path")
            tries = [a for a in ancestors(y) if isinstance(a, ast.Try) and a.finalbody]
            fin = " ; ".join(unparse(s) for t in tries for s in t.finalbody)
            missing = []
            for tgt in sorted(set(before)):
                if tgt == "sys.path":
                    if "sys.path" not in fin:
                        missing.append(tgt)
                elif f"{tgt} = " not in fin and f"del {tgt}" not in fin:
                    missing.append(tgt)
            if missing:
                ctx.finding(R, f, f"{q} does not restore {missing}", f"context manager {mn.split('.')[-1]}.{q} sets {missing} before its yield but does not restore them in a `finally` around the yield: an exception in the managed block leaves them changed")
            else:
                ctx.ok(R, f, f"{q}: {sorted(set(before)) or 'nothing'} restored in finally")
    ctx.floor(R, n, 5, "context managers")


def check_cleanup(ctx, R="C14.cleanup"):
    ctx.rule(
        R,
        "cleanup robustness of Simulation.__init__: every self.<attr> read in the cleanup `finally` is definitely assigned before the `try` "
        "is entered (not only inside a call made within the try); the last-resort reset veneer.endSimulation(self) cannot be skipped by an "
        "exception of an earlier cleanup statement (it sits in an inner `finally` or is the first statement); every object whose dynamic proxy "
        "was enabled is disabled in the same loop over self.objects",
    )
    model = ctx.model
    fn = model.func(SI, "Simulation.__init__")
    tries = [s for s in fn.body if isinstance(s, ast.Try) and s.finalbody]
    if len(tries) != 1:
        raise AnalysisError("shape not recognised: Simulation.__init__ try/finally")
    tr = tries[0]
    pre = fn.body[: fn.body.index(tr)]
    assigned = set()
    for s in pre:
        for n in ast.walk(s):
            if isinstance(n, ast.Attribute) and isinstance(n.ctx, ast.Store) and isinstance(n.value, ast.Name) and n.value.id == "self":
                assigned.add(n.attr)
        # methods called before the try may assign attributes too
        for c in ast.walk(s):
            if isinstance(c, ast.Call) and isinstance(c.func, ast.Attribute) and isinstance(c.func.value, ast.Name) and c.func.value.id == "self":
                callee = model.try_func(SI, f"Simulation.{c.func.attr}")
                if callee is not None:
                    for n in ast.walk(callee):
                        if isinstance(n, ast.Attribute) and isinstance(n.ctx, ast.Store) and isinstance(n.value, ast.Name) and n.value.id == "self":
                            assigned.add(n.attr)
    ci = model.cls(SI, "Simulation")
    methods = set(ci.methods)
    reads = []
    for s in tr.finalbody:
        for n in ast.walk(s):
            if isinstance(n, ast.Attribute) and isinstance(n.ctx, ast.Load) and isinstance(n.value, ast.Name) and n.value.id == "self" and n.attr not in methods:
                reads.append(n)
    ctx.floor(R, len(reads), 2, "self attributes read in the cleanup block")
    for n in reads:
        if n.attr in assigned:
            ctx.ok(R, n, f"cleanup reads self.{n.attr}, assigned before the try")
        else:
            where = [q for q, f in model.module(SI).functions.items() if q.startswith("Simulation.") and any(isinstance(x, ast.Attribute) and isinstance(x.ctx, ast.Store) and x.attr == n.attr and isinstance(x.value, ast.Name) and x.value.id == "self" for x in ast.walk(f))]
            ctx.finding(
                R,
                n,
                f"cleanup reads unassigned self.{n.attr}",
                f"the cleanup `finally` of Simulation.__init__ reads self.{n.attr}, which is first assigned in {where or 'no method'} (called inside the try): if the "
                f"simulator fails before that point the finally raises AttributeError and veneer.endSimulation is skipped, leaving a simulation 'in progress'",
            )
    # last-resort reset placement
    fb = tr.finalbody
    idx = next((i for i, s in enumerate(fb) if "veneer.endSimulation(self)" in unparse(s)), None)
    if idx is None:
        ctx.finding(R, tr, "endSimulation missing", "Simulation.__init__ no longer calls veneer.endSimulation(self) in its cleanup")
    else:
        holder = fb[idx]
        protected = False
        if isinstance(holder, ast.Try):
            in_final = any("veneer.endSimulation(self)" in unparse(s) for s in holder.finalbody)
            first_in_body = bool(holder.body) and "veneer.endSimulation(self)" in unparse(holder.body[0]) and not isinstance(holder.body[0], ast.Try)
            protected = in_final or (idx == 0 and first_in_body)
        elif idx == 0:
            protected = True
        if protected:
            ctx.ok(R, holder, "veneer.endSimulation(self) runs even if destroying the simulation or stopping behaviours raises")
        else:
            risky = [norm_text(s, 50) for s in fb[:idx] if any(isinstance(c, ast.Call) for c in ast.walk(s))]
            ctx.finding(
                R,
                holder,
                "endSimulation can be skipped",
                f"veneer.endSimulation(self) is the last statement of the cleanup block and is preceded by calls that can raise ({risky}): an exception in the "
                f"simulator's destroy() or in a behaviour's _stop() leaves currentSimulation set, and every later compile/simulate in the process fails",
            )
    # proxies
    co = model.func(SI, "Simulation._createObject")
    t = unparse(co)
    op_ = co.args.args[1].arg
    i_en, i_cr = t.find(f"enableDynamicProxyFor({op_})"), t.find(f"self.createObjectInSimulator({op_})")
    if 0 <= i_en < i_cr:
        ctx.ok(R, co, "the dynamic proxy is enabled before the object is created in the simulator")
    else:
        ctx.finding(R, co, "proxy before creation", "Simulation._createObject no longer enables the dynamic proxy before createObjectInSimulator")
    dis = [s for s in ast.walk(tr) if isinstance(s, ast.For) and unparse(s.iter) == "self.objects" and isinstance(s.target, ast.Name) and f"disableDynamicProxyFor({s.target.id})" in unparse(s)]
    if dis and any(s in ast.walk(ast.Module(body=tr.finalbody, type_ignores=[])) for s in dis):
        ctx.ok(R, dis[0], "every object of the simulation has its proxy disabled in the cleanup")
    else:
        ctx.finding(R, tr, "proxy disabling", "the cleanup no longer disables the dynamic proxy of every object in self.objects")
    # the behaviours stopped by the cleanup are those of the scene's own objects: they are read after the proxies are gone
    # (through an enabled proxy `agent.behavior` is whatever an `override` put there for this run; the scene's own behaviour
    # object, started at the beginning of the run, would stay marked as running and the scene could not be simulated again)
    stops = [s for s in ast.walk(ast.Module(body=tr.finalbody, type_ignores=[])) if isinstance(s, ast.For) and isinstance(s.target, ast.Name) and any(isinstance(c, ast.Call) and unparse(c.func) == f"{s.target.id}.behavior._stop" for c in ast.walk(s))]
    if stops and dis:
        if all((d.lineno, d.col_offset) < (st_.lineno, st_.col_offset) for d in dis[:1] for st_ in stops):
            ctx.ok(R, stops[0], "agents' behaviours are stopped after the dynamic proxies were disabled (the scene's own behaviour objects)")
        else:
            ctx.finding(
                R,
                stops[0],
                "behaviours stopped through the proxies",
                "the cleanup stops `agent.behavior` while the dynamic proxies are still enabled: for an object whose behaviour was overridden during the run this is the overriding "
                "behaviour; the scene's own behaviour object stays marked as running, and simulating the same scene again fails with 'tried to reuse behavior object'",
            )
    elif not stops:
        ctx.finding(R, tr, "behaviour stopping", "the cleanup no longer stops the behaviours of the agents that are still running")
    if "self.objects.append(obj)" in t:
        i_app = t.find("self.objects.append(obj)")
        if i_app < i_cr or i_app < t.find("enableDynamicProxyFor(obj)") + 40:
            ctx.ok(R, co, "the object is listed in self.objects (the list the cleanup iterates) before anything that can fail")
        else:
            ctx.finding(R, co, "objects registration order", "Simulation._createObject appends to self.objects only after createObjectInSimulator: if creation fails the enabled proxy is never disabled")


def check_overrides(ctx, R="C14.override"):
    ctx.rule(
        R,
        "G8 must-use token: the undo record returned by Object._override must, on every path through DynamicScenario._override, be stored "
        "in (or merged into) self._overrides; _stop reverts every entry of _overrides before the scenario is reported as ended",
    )
    model = ctx.model
    fn = model.func(DS, "DynamicScenario._override")
    # the undo record: the result of <object>._override(...), bound to a local or used where it is computed
    tok = None
    tok_call = None
    tok_stmt = None
    for n in walk_local(fn):
        if isinstance(n, ast.Call) and isinstance(n.func, ast.Attribute) and n.func.attr == "_override" and unparse(n.func.value) not in ("self", "super()"):
            tok_call = n
            p_ = parent(n)
            if isinstance(p_, ast.Assign) and isinstance(p_.targets[0], ast.Name):
                tok = p_.targets[0].id
                tok_stmt = p_
    if tok_call is None:
        raise AnalysisError("shape not recognised: DynamicScenario._override undo token")
    if tok is None:
        tok = "<undo record>"

    def mentions(e):
        return tok in lib.names_loaded(e) or any(x is tok_call for x in ast.walk(e))

    def consumes(s):
        for n in ast.walk(s):
            if isinstance(n, ast.Assign) and any("self._overrides[" in unparse(t) for t in n.targets) and mentions(n.value):
                return True
            if isinstance(n, ast.Call) and isinstance(n.func, ast.Attribute) and n.func.attr in ("update", "setdefault") and "self._overrides" in unparse(n.func.value) and any(mentions(a) for a in n.args):
                return True
            if isinstance(n, ast.Return) and n.value is not None and mentions(n.value):
                return True
        return False

    def all_paths(stmts):
        for s in stmts:
            if isinstance(s, ast.If):
                if all_paths(s.body) and all_paths(s.orelse):
                    return True
            elif isinstance(s, (ast.For, ast.While)):
                continue
            elif isinstance(s, ast.Try):
                if all_paths(s.body) or all_paths(s.finalbody):
                    return True
            elif consumes(s):
                return True
        return False

    # merging with an earlier record of the same object must keep the EARLIEST saved value of every property
    for c in walk_local(fn):
        if isinstance(c, ast.Call) and isinstance(c.func, ast.Attribute) and c.func.attr == "update" and c.args:
            recv, arg = unparse(c.func.value), c.args[0]
            if "self._overrides" in recv and mentions(arg):
                ctx.finding(
                    R,
                    c,
                    "undo record merged newest-first",
                    f"DynamicScenario._override merges with `{unparse(c)}`: the values saved by the NEW override replace the ones saved earlier for the same object, so after a second "
                    f"override of a property the scenario reverts it to the intermediate value, not to the original one",
                )
            elif recv == tok and "self._overrides" in unparse(arg):
                ctx.ok(R, c, "an earlier record of the same object wins when records are merged (the original values are kept)")
        if isinstance(c, ast.Dict) and any(k is None for k in c.keys):
            spreads = [unparse(v) for k, v in zip(c.keys, c.values) if k is None]
            if len(spreads) == 2 and tok in spreads[1] and "self._overrides" in spreads[0]:
                ctx.finding(R, c, "undo record merged newest-first", f"DynamicScenario._override builds `{unparse(c)}`: the newly saved values replace the earlier ones")
    rest = fn.body[fn.body.index(tok_stmt) + 1 :] if tok_stmt is not None and tok_stmt in fn.body else fn.body
    if all_paths(rest):
        ctx.ok(R, fn, f"the undo record `{tok}` is stored into self._overrides on every path")
    else:
        ctx.finding(
            R,
            fn,
            f"undo record {tok} dropped on some path",
            f"DynamicScenario._override keeps the undo record `{tok}` only on some paths (`{norm_text(rest[0], 60) if rest else ''}` has no else): a second "
            f"`override` of the same object loses the old values of the newly overridden properties, which are then never reverted when the scenario ends",
        )
    st = model.func(DS, "DynamicScenario._stop")
    body = [unparse(s) for s in st.body]

    def _reverts(s_):
        return (
            isinstance(s_, ast.For)
            and unparse(s_.iter) == "self._overrides.items()"
            and isinstance(s_.target, ast.Tuple)
            and len(s_.target.elts) == 2
            and all(isinstance(e, ast.Name) for e in s_.target.elts)
            and any(unparse(x) == f"{s_.target.elts[0].id}._revert({s_.target.elts[1].id})" for x in s_.body)
        )

    i_rev = next((i for i, s_ in enumerate(st.body) if _reverts(s_)), None)
    i_end = next((i for i, s in enumerate(body) if "veneer.endScenario(self" in s), None)
    if i_rev is not None and i_end is not None and i_rev < i_end:
        ctx.ok(R, st, "_stop reverts every recorded override before reporting the scenario as ended")
    else:
        ctx.finding(R, st, "_stop revert order", "DynamicScenario._stop no longer reverts all of self._overrides before veneer.endScenario")
    ov = model.func(OT, "Constructible._override")
    rv = model.func(OT, "Constructible._revert")
    rec = [r.value.id for r in lib.returns_of(ov) if isinstance(r.value, ast.Name)]
    recorded = bool(rec) and any(
        isinstance(n, ast.Assign)
        and isinstance(n.targets[0], ast.Subscript)
        and unparse(n.targets[0].value) == rec[0]
        and unparse(n.value) == f"getattr(self, {unparse(n.targets[0].slice)})"
        for n in walk_local(ov)
    )
    restored = any(
        isinstance(l, ast.For)
        and isinstance(l.target, ast.Tuple)
        and len(l.target.elts) == 2
        and unparse(l.iter) == f"{rv.args.args[1].arg}.items()"
        and any(unparse(x) == f"object.__setattr__(self, {unparse(l.target.elts[0])}, {unparse(l.target.elts[1])})" for x in l.body)
        for l in walk_local(rv)
    )
    if recorded and restored:
        ctx.ok(R, ov, "Object._override records the previous value of every overridden property and _revert writes them back")
    else:
        ctx.finding(R, ov, "Object._override record", "Constructible._override/_revert no longer record and restore the previous value of each overridden property")


def check_requirement_rebinding(ctx, R="C14.rebind"):
    ctx.rule(
        R,
        "requirement evaluation restores what it rebinds: every write to the module namespace dict or to a closure cell inside the "
        "requirement closure is paired with a restore after evaluation (try/finally); otherwise sampled values of one scene stay bound in "
        "the program's namespace for the next scene / simulation",
    )
    model = ctx.model
    fn = model.func(RQ, "PendingRequirement.compile")
    cl = [f for f in ast.walk(fn) if isinstance(f, ast.FunctionDef) and f is not fn and any(isinstance(a, ast.Attribute) and a.attr == "__globals__" for a in ast.walk(f))]
    if not cl:
        raise AnalysisError("shape not recognised: PendingRequirement.compile.closure")
    c = cl[0]
    nsv = set(lib.locals_assigned(c, lambda v: isinstance(v, ast.Attribute) and v.attr == "__globals__"))  # the module namespace dict
    writes = []
    for n in walk_local(c):
        if isinstance(n, ast.Assign):
            for t in n.targets:
                if isinstance(t, ast.Subscript) and unparse(t.value) in nsv:
                    writes.append(("namespace", n))
                if isinstance(t, ast.Attribute) and t.attr == "cell_contents":
                    writes.append(("cell", n))
    ctx.floor(R, len(writes), 2, "rebinding writes in the requirement closure")
    tries = [t for t in walk_local(c) if isinstance(t, ast.Try) and t.finalbody]
    unrestored = []
    for kind, n in writes:
        restored = False
        for t in tries:
            fin = " ".join(unparse(s) for s in t.finalbody)
            if (kind == "namespace" and any(f"{v}[" in fin for v in nsv)) or (kind == "cell" and "cell_contents" in fin):
                restored = True
        if restored:
            ctx.ok(R, n, f"{kind} rebinding is undone in a finally")
        else:
            unrestored.append((kind, n))
    if unrestored:
        kinds = sorted({k for k, _ in unrestored})
        ctx.finding(
            R,
            unrestored[0][1],
            "requirement closure rebinding not restored",
            f"the requirement closure rebinds {', '.join('`' + norm_text(n.targets[0], 30) + '`' for _, n in unrestored)} to the sampled values and never restores "
            f"them: after checking a sample the program's module namespace / closure cells keep that sample's values (a later scene's behaviours can see a previous scene's value)",
        )


# Frozen: run-time state of a scenario that needs no reset, with the reason.
RUNSTATE_OK = {
    "_overrides": "every entry is reverted in _stop; a stale entry only repeats a revert to the values the object already has, and merging with it keeps the original values",
}
RUNTIME_METHODS = ("_step", "_invokeInner", "_override", "_addDynamicRequirement", "_addMonitor", "_runMonitors")
RESET_METHODS = ("_start", "_bindTo", "_stop")


def check_runstate(ctx, R="C14.runstate"):
    ctx.rule(
        R,
        "per-run state of a scenario is reset: the top-level DynamicScenario object is reused by every simulation of a compiled scenario, so "
        "each attribute that the methods running during a simulation assign or mutate (_step, _invokeInner, _override, _addDynamicRequirement, "
        "_addMonitor, _runMonitors) is (re)initialised in _start / _bindTo or cleared in _stop; otherwise the previous run's value (elapsed time, "
        "sub-scenarios, monitors ...) is what the next run starts with",
    )
    model = ctx.model
    ds = model.cls(DS, "DynamicScenario")
    MUT = ("append", "extend", "add", "update", "pop", "remove", "clear", "insert", "setdefault")

    def writes(fn):
        out = {}
        for n in ast.walk(fn):
            tg = []
            if isinstance(n, ast.Assign):
                tg = n.targets
            elif isinstance(n, (ast.AugAssign, ast.AnnAssign)):
                tg = [n.target]
            for t in tg:
                for x in ast.walk(t):
                    if isinstance(x, ast.Attribute) and isinstance(x.value, ast.Name) and x.value.id == "self" and isinstance(x.ctx, ast.Store):
                        out.setdefault(x.attr, n)
                    if isinstance(x, ast.Subscript) and isinstance(x.value, ast.Attribute) and isinstance(x.value.value, ast.Name) and x.value.value.id == "self":
                        out.setdefault(x.value.attr, n)
            if isinstance(n, ast.Call) and isinstance(n.func, ast.Attribute) and n.func.attr in MUT and isinstance(n.func.value, ast.Attribute) and isinstance(n.func.value.value, ast.Name) and n.func.value.value.id == "self":
                out.setdefault(n.func.value.attr, n)
        return out

    runtime = {}
    for mn in RUNTIME_METHODS:
        fn = ds.methods.get(mn)
        if fn is None:
            continue
        for a, node in writes(fn).items():
            runtime.setdefault(a, (mn, node))
    resets = set()
    for mn in RESET_METHODS:
        fn = ds.methods.get(mn)
        if fn is None:
            raise AnalysisError(f"DynamicScenario.{mn} missing")
        # only plain (re)assignments count as a reset
        for n in ast.walk(fn):
            if isinstance(n, ast.Assign):
                for t in n.targets:
                    for x in ast.walk(t):
                        if isinstance(x, ast.Attribute) and isinstance(x.value, ast.Name) and x.value.id == "self" and isinstance(x.ctx, ast.Store):
                            resets.add(x.attr)
    ctx.floor(R, len(runtime), 5, "attributes written while a simulation runs")
    for a, (mn, node) in sorted(runtime.items()):
        if a in resets:
            ctx.ok(R, node, f"self.{a} (written in {mn}) is re-initialised in _start / _bindTo / _stop")
        elif a in RUNSTATE_OK:
            ctx.ok(R, node, f"self.{a} (written in {mn}) needs no reset: {RUNSTATE_OK[a]}")
        else:
            ctx.finding(
                R,
                node,
                f"self.{a} is never reset between simulations",
                f"DynamicScenario.{mn} changes self.{a} while a simulation runs, but neither _start, _bindTo nor _stop assigns it: the top-level scenario object is reused, so the next "
                f"simulation of the same scenario starts with the previous run's {a} (e.g. a time limit already reached, or sub-scenarios of the last run still consulted at step 0)",
            )


import builtins as _builtins

_BUILTIN_NAMES = set(dir(_builtins))

# calls allowed between marking a scenario as running and registering it for cleanup, without protection (reason each)
UNPROTECTED_START_CALLS = {
    "toMonitor": "builds an rv_ltl monitor object from an already compiled proposition; evaluates no user code",
}


def check_started(ctx, R="C14.started"):
    ctx.rule(
        R,
        "a scenario marked as running is registered for cleanup or unmarked: Simulation's cleanup stops exactly the scenarios in "
        "veneer.runningScenarios, and the top-level scenario object is started again by every simulation; so between `super()._start()` "
        "(which sets _isRunning) and `veneer.startScenario(self)` (which registers) DynamicScenario._start makes no call that can raise "
        "(guards and other user code) unless it sits in a try whose handler unmarks the scenario (`super()._stop()` / `_isRunning = False`) "
        "and re-raises",
    )
    model = ctx.model
    fn = model.func(DS, "DynamicScenario._start")
    mark = [c for c in walk_local(fn) if isinstance(c, ast.Call) and unparse(c.func) == "super()._start"]
    reg = [c for c in walk_local(fn) if isinstance(c, ast.Call) and unparse(c.func).endswith("startScenario") and [unparse(a) for a in c.args] == ["self"]]
    if len(mark) != 1 or len(reg) != 1:
        raise AnalysisError("shape not recognised: running mark / registration in DynamicScenario._start")
    sim = model.func(SI, "Simulation.__init__")
    cleans = [l for l in ast.walk(sim) if isinstance(l, ast.For) and "runningScenarios" in unparse(l.iter) and any(isinstance(c, ast.Call) and isinstance(c.func, ast.Attribute) and c.func.attr == "_stop" for c in ast.walk(l))]
    if not cleans:
        raise AnalysisError("shape not recognised: the cleanup loop over veneer.runningScenarios in Simulation.__init__")
    lo, hi = (mark[0].lineno, mark[0].col_offset), (reg[0].lineno, reg[0].col_offset)
    n = 0
    for c in walk_local(fn):
        if not isinstance(c, ast.Call) or c is mark[0] or c is reg[0] or not (lo < (c.lineno, c.col_offset) < hi):
            continue
        name = c.func.attr if isinstance(c.func, ast.Attribute) else c.func.id if isinstance(c.func, ast.Name) else unparse(c.func)
        if any(isinstance(a, ast.Assert) for a in ancestors(c)):
            continue
        if isinstance(c.func, ast.Name) and c.func.id in _BUILTIN_NAMES:
            continue  # round / len / tuple ...: no user code behind them
        n += 1
        if name in UNPROTECTED_START_CALLS:
            ctx.ok(R, c, f"`{norm_text(c, 40)}` before registration: {UNPROTECTED_START_CALLS[name]}")
            continue
        prot = False
        inside_handler = False
        child = c
        for a in ancestors(c):
            if a is fn:
                break
            if isinstance(a, ast.ExceptHandler):
                inside_handler = True
            if isinstance(a, ast.Try) and any(child is s_ for s_ in a.body):
                for h in a.handlers:
                    catches_all = h.type is None or unparse(h.type) in ("BaseException", "Exception")
                    unmarks = any(
                        (isinstance(x, ast.Call) and unparse(x.func) in ("super()._stop", "Invocable._stop"))
                        or (isinstance(x, ast.Assign) and any(unparse(t) == "self._isRunning" for t in x.targets) and isinstance(x.value, ast.Constant) and x.value.value is False)
                        for s_ in h.body
                        for x in ast.walk(s_)
                    )
                    reraises = any(isinstance(x, ast.Raise) and x.exc is None for s_ in h.body for x in ast.walk(s_))
                    if catches_all and unmarks and reraises:
                        prot = True
            child = a
        if prot or inside_handler:
            ctx.ok(R, c, f"`{norm_text(c, 40)}` before registration is covered by a handler that unmarks the scenario and re-raises")
        else:
            ctx.finding(
                R,
                c,
                f"unprotected call {norm_text(c, 40)} before registration",
                f"DynamicScenario._start calls `{norm_text(c, 60)}` after marking the scenario as running and before registering it with the veneer: if the call raises (a "
                f"precondition violation, say) nothing stops the scenario, and every later simulation of the same compiled scenario fails `assert not self._isRunning`",
            )
    ctx.floor(R, n, 2, "calls between the running mark and the registration")



SN = "scenic.core.sensors"
TR = "scenic.syntax.translator"


def check_recorders(ctx, R="C14.recorders"):
    ctx.rule(
        R,
        "recorders carry nothing from one simulation into the next: a recorder object belongs to the compiled scenario and is reused "
        "by every simulation, so each self.<attr> that its per-step method fills (append / add / extend / item store in recordValue) is "
        "emptied on EVERY path through endRecording -- also when the recording is cancelled because the simulation was rejected or "
        "failed -- or re-created in beginRecording",
    )
    model = ctx.model
    base = model.cls(SN, "Recorder")
    n = 0
    for ci in model.classes.values():
        if ci.module.name != SN or base not in model.mro(ci):
            continue
        filled = set()
        for mn in ("recordValue", "_record"):
            f = ci.methods.get(mn)
            if f is None:
                continue
            for c in walk_local(f):
                if isinstance(c, ast.Call) and isinstance(c.func, ast.Attribute) and c.func.attr in ("append", "add", "extend", "update", "insert") and isinstance(c.func.value, ast.Attribute) and unparse(c.func.value.value) == "self":
                    filled.add(c.func.value.attr)
                if isinstance(c, (ast.Assign, ast.AugAssign)):
                    for t in c.targets if isinstance(c, ast.Assign) else [c.target]:
                        if isinstance(t, ast.Subscript) and isinstance(t.value, ast.Attribute) and unparse(t.value.value) == "self":
                            filled.add(t.value.attr)
        for attr in sorted(filled):
            n += 1
            begin = model.find_method(ci, "beginRecording")
            fresh = begin is not None and any(isinstance(a, ast.Assign) and any(unparse(t) == f"self.{attr}" for t in a.targets) for a in walk_local(begin[1]))
            end = model.find_method(ci, "endRecording")
            if fresh:
                ctx.ok(R, begin[1], f"{ci.name}: self.{attr} is re-created when a recording begins")
                continue
            if end is None:
                ctx.finding(R, ci.node, f"{ci.name}.{attr} never emptied", f"{ci.name} fills self.{attr} at every step but has no endRecording that empties it")
                continue
            leaky = []
            for asm, env, ex in lib.enumerate_paths(end[1]):
                if isinstance(ex, ast.Raise):
                    continue
                tr = env.get(lib.TRACE, ())
                emptied = any(
                    (isinstance(c, ast.Call) and isinstance(c.func, ast.Attribute) and c.func.attr == "clear" and unparse(c.func.value) == f"self.{attr}")
                    or (isinstance(c, ast.Assign) and any(unparse(t) == f"self.{attr}" for t in c.targets))
                    for st in tr
                    if not isinstance(st, (ast.For, ast.While, ast.Try))
                    for c in ast.walk(st)
                )
                if not emptied:
                    leaky.append(asm)
            if leaky:
                ctx.finding(
                    R,
                    end[1],
                    f"{end[0].name}.endRecording keeps self.{attr} on some path",
                    f"{end[0].name}.endRecording does not empty self.{attr} on the path {dict(leaky[0]) or '{}'}: the recorder is reused by the next simulation of the scenario, whose "
                    f"recording then starts with the values accumulated in a rejected / failed run",
                )
            else:
                ctx.ok(R, end[1], f"{ci.name}: self.{attr} is emptied on every path through endRecording")
    ctx.floor(R, n, 2, "attributes filled per step by recorder classes")


def check_stop_order(ctx, R="C14.override"):
    """part of C14.override: nested undo is last-in first-out"""
    model = ctx.model
    st = model.func(DS, "DynamicScenario._stop")
    subs = [l for l in walk_local(st) if isinstance(l, ast.For) and unparse(l.iter) == "self._subScenarios" and isinstance(l.target, ast.Name) and any(isinstance(c, ast.Call) and unparse(c.func) == f"{l.target.id}._stop" for c in ast.walk(l))]
    revs = [l for l in walk_local(st) if isinstance(l, ast.For) and "self._overrides" in unparse(l.iter) and any(isinstance(c, ast.Call) and isinstance(c.func, ast.Attribute) and c.func.attr == "_revert" for c in ast.walk(l))]
    if not subs or not revs:
        raise AnalysisError("shape not recognised: sub-scenario stopping / override reverting loops of DynamicScenario._stop")
    if (subs[0].lineno, subs[0].col_offset) < (revs[0].lineno, revs[0].col_offset):
        ctx.ok(R, revs[0], "a scenario undoes its own overrides after its sub-scenarios have undone theirs (last in, first out)")
    else:
        ctx.finding(
            R,
            revs[0],
            "own overrides reverted before the sub-scenarios stop",
            "DynamicScenario._stop reverts this scenario's overrides before stopping its sub-scenarios: a sub-scenario that overrode the same property saved the parent's overridden value and "
            "writes it back afterwards, so the property keeps the parent's override after both scenarios have ended",
        )


def check_purge(ctx, R="C14.globals"):
    """part of C14.globals: modules imported by a failed compilation are purged like those of a successful one"""
    model = ctx.model
    fn = model.func(TR, "_scenarioFromStream")
    calls = [c for c in walk_local(fn) if isinstance(c, ast.Call) and dotted(c.func) == "purgeModulesUnsafeToCache"]
    if not calls:
        raise AnalysisError("shape not recognised: purgeModulesUnsafeToCache in _scenarioFromStream")
    for c in calls:
        in_finally = False
        child = c
        for a in ancestors(c):
            if a is fn:
                break
            if isinstance(a, ast.Try) and any(any(child is y for y in ast.walk(x)) for x in a.finalbody):
                in_finally = True
            child = a
        if in_finally:
            ctx.ok(R, c, "Scenic modules imported while compiling are purged in a `finally`: also when the compilation fails")
        else:
            ctx.finding(
                R,
                c,
                "module purge skipped on failure",
                "_scenarioFromStream calls purgeModulesUnsafeToCache outside a `finally`: when a compilation fails, the Scenic modules it imported stay in sys.modules, and a later "
                "compilation in the same process reuses them instead of recompiling (it does not behave as in a fresh process)",
            )


def check_start_idempotent(ctx, R="C14.start"):
    ctx.rule(
        R,
        "starting a scenario is idempotent on the compiled scenario object: the top-level DynamicScenario is started again by every simulation, so an "
        "attribute that _start updates from its own previous value (`self.x /= t`, `self.x = f(self.x)`, `self.x.append(...)` is covered by C14.runstate) "
        "must have been re-initialised earlier in the same _start from something else; otherwise the second simulation starts from what the first one "
        "left (e.g. a time limit in seconds divided by the timestep once per run)",
    )
    model = ctx.model
    fn = model.func(DS, "DynamicScenario._start")
    stmts = sorted((x for x in walk_local(fn) if isinstance(x, (ast.Assign, ast.AugAssign, ast.AnnAssign))), key=lambda x: (x.lineno, x.col_offset))

    def self_attrs(t):
        if isinstance(t, ast.Attribute) and isinstance(t.value, ast.Name) and t.value.id == "self":
            return [t.attr]
        if isinstance(t, (ast.Tuple, ast.List)):
            return [a for e in t.elts for a in self_attrs(e)]
        return []

    def reads(e, attr):
        return any(isinstance(x, ast.Attribute) and isinstance(x.value, ast.Name) and x.value.id == "self" and x.attr == attr and isinstance(x.ctx, ast.Load) for x in ast.walk(e))

    fresh = set()
    n = 0
    for st in stmts:
        targets = [st.target] if isinstance(st, (ast.AugAssign, ast.AnnAssign)) else st.targets
        for t in targets:
            for a in self_attrs(t):
                n += 1
                selfdep = isinstance(st, ast.AugAssign) or (st.value is not None and reads(st.value, a))
                if not selfdep:
                    # unconditional re-initialisation only
                    if not [1 for t_, _ in lib.guard_tests(st, fn)]:
                        fresh.add(a)
                    ctx.ok(R, st, f"_start sets self.{a} from other state")
                elif a in fresh:
                    ctx.ok(R, st, f"_start updates self.{a}, re-initialised earlier in _start")
                else:
                    ctx.finding(
                        R,
                        st,
                        f"_start updates self.{a} from its previous value",
                        f"DynamicScenario._start executes `{norm_text(st, 70)}` without having re-initialised self.{a} first: the compiled top-level scenario is started by every "
                        f"simulation, so the update compounds (or a flag flipped by the first run changes what the second one does): simulations of the same scene are no longer independent "
                        f"of the runs before them",
                    )
    ctx.floor(R, n, 6, "attribute writes of DynamicScenario._start")


def check(ctx):
    ctx.run(check_recorders)
    ctx.run(check_stop_order)
    ctx.run(check_purge)
    ctx.run(check_started)
    ctx.run(check_runstate)
    ctx.run(check_globals)
    ctx.run(check_context_managers)
    ctx.run(check_cleanup)
    ctx.run(check_overrides)
    ctx.run(check_requirement_rebinding)
    ctx.run(check_start_idempotent)
