"""C03 -- positions drawn in/on a region lie in it and are uniform (structural necessary conditions)."""

import ast

from .. import lib, regions_kit as rk
from ..linform import equal, lin, lin_src
from ..model import AnalysisError, ancestors, dotted, norm_text, parent, unparse, walk_local

RG = rk.RG


def check_membership(ctx, R="C03.member"):
    ctx.rule(
        R,
        "generic samplers of composed regions: the intersection sampler returns a candidate only under all(_trueContainsPoint) over ALL "
        "operands; the difference sampler rejects a candidate that _trueContainsPoint of the subtracted region accepts; the union sampler "
        "counts containment over ALL operands and rejects with probability 1 - 1/count (multiplicity correction)",
    )
    model = ctx.model
    # intersection
    fn = model.func(RG, "IntersectionRegion.genericSampler")
    p0 = fn.args.args[0].arg
    env = {n.targets[0].id: n.value for n in walk_local(fn) if isinstance(n, ast.Assign) and len(n.targets) == 1 and isinstance(n.targets[0], ast.Name)}
    rets = [r for r in lib.returns_of(fn) if r.value is not None]
    if not rets:
        ctx.finding(R, fn, "intersection sampler returns", "IntersectionRegion.genericSampler returns no point")
    for r in rets:
        ok = False
        for t, pol in lib.guard_tests(r, fn):
            if not pol or not (isinstance(t, ast.Call) and dotted(t.func) == "all" and t.args and isinstance(t.args[0], ast.GeneratorExp)):
                continue
            g = t.args[0]
            gen = g.generators[0]
            src = gen.iter
            src = env.get(src.id, src) if isinstance(src, ast.Name) else src
            e = g.elt
            if (
                unparse(src) == f"{p0}.regions"
                and not gen.ifs
                and isinstance(e, ast.Call)
                and isinstance(e.func, ast.Attribute)
                and e.func.attr == "_trueContainsPoint"
                and unparse(e.func.value) == unparse(gen.target)
                and [unparse(a) for a in e.args] == [unparse(r.value)]
            ):
                ok = True
        if ok:
            ctx.ok(R, r, "intersection sampler: candidate returned only if every operand's _trueContainsPoint accepts it")
        else:
            ctx.finding(
                R,
                r,
                "intersection sampler membership",
                f"IntersectionRegion.genericSampler returns `{unparse(r.value)}` without testing it against _trueContainsPoint of all operands "
                f"(`{p0}.regions`, unfiltered): points outside the intersection can be produced",
            )
    # difference
    fn = model.func(RG, "DifferenceRegion.genericSampler")
    p0 = fn.args.args[0].arg
    env = {}
    for n in walk_local(fn):
        if isinstance(n, ast.Assign) and len(n.targets) == 1:
            t, v = n.targets[0], n.value
            if isinstance(t, ast.Tuple) and isinstance(v, ast.Tuple):
                for a, b in zip(t.elts, v.elts):
                    env[unparse(a)] = unparse(b)
            else:
                env[unparse(t)] = unparse(v)

    def res(e):
        t = unparse(e)
        return env.get(t, t)

    rets = [r for r in lib.returns_of(fn) if r.value is not None]
    good = False
    for r in rets:
        src = res(r.value)
        if src != f"{res(ast.parse('regionA', mode='eval').body) if 'regionA' in env else p0 + '.regionA'}.uniformPointInner()" and not src.endswith(".uniformPointInner()"):
            continue
        base = src[: -len(".uniformPointInner()")]
        if env.get(base, base) != f"{p0}.regionA":
            continue
        for t in lib.prior_exit_guards(r, fn):
            if isinstance(t, ast.Call) and isinstance(t.func, ast.Attribute) and t.func.attr == "_trueContainsPoint":
                recv = res(t.func.value)
                if recv == f"{p0}.regionB" and [unparse(a) for a in t.args] == [unparse(r.value)]:
                    good = True
    if good:
        ctx.ok(R, fn, "difference sampler: a point of A is rejected when B's _trueContainsPoint accepts it")
    else:
        ctx.finding(R, fn, "difference sampler membership", "DifferenceRegion.genericSampler does not reject candidates of regionA that regionB._trueContainsPoint accepts")
    # union
    fn = model.func(RG, "UnionRegion.genericSampler")
    p0 = fn.args.args[0].arg
    rej = None
    for n in walk_local(fn):
        if isinstance(n, ast.If) and any(isinstance(x, ast.Raise) for x in n.body) and "random.random()" in unparse(n.test):
            rej = n

    def is_count(e):
        """e is sum(<membership of the point in reg> for reg in <all operands>) -- locals already inlined"""
        if not (isinstance(e, ast.Call) and dotted(e.func) == "sum" and e.args and isinstance(e.args[0], ast.GeneratorExp)):
            return False
        g = e.args[0]
        gen = g.generators[0]
        return len(g.generators) == 1 and "_trueContainsPoint" in unparse(g.elt) and unparse(gen.iter) == f"{p0}.regions" and not gen.ifs

    if rej is not None:
        t = rej.test
        okp = False
        cnt_txt = "count"
        if isinstance(t, ast.Compare) and len(t.ops) == 1:
            l, op, r = t.left, t.ops[0], t.comparators[0]
            bound = None
            if unparse(l) == "random.random()" and isinstance(op, (ast.Lt, ast.LtE)):
                bound = r
            elif unparse(r) == "random.random()" and isinstance(op, (ast.Gt, ast.GtE)):
                bound = l
            if bound is not None:
                # the bound with its locals inlined must be 1 - 1/k, k the containment count over all operands
                be = ast.parse(lib.role_text(fn, bound), mode="eval").body
                counts = [c for c in ast.walk(be) if is_count(c)]
                if counts:
                    cnt_txt = unparse(counts[0])
                    k = unparse(counts[0])

                    class K(ast.NodeTransformer):
                        def visit_Call(self, n):
                            if unparse(n) == k:
                                return ast.Name(id="_k_", ctx=ast.Load())
                            return self.generic_visit(n)

                    okp = equal(lin(K().visit(be)), lin_src("1 - 1 / _k_"))
        if okp:
            ctx.ok(R, rej, f"union sampler: a point lying in k operands is kept with probability 1/k (k counted over all of `{p0}.regions`)")
        else:
            ctx.finding(R, rej, "union multiplicity correction", f"UnionRegion.genericSampler rejects under `{unparse(t)}`, not with probability 1 - 1/k for k the number of operands (all of `{p0}.regions`) containing the point: overlaps are over-sampled")
    else:
        ctx.finding(R, fn, "union multiplicity correction", "UnionRegion.genericSampler lacks the containment count over all operands or the 1 - 1/count rejection: points in overlaps are over-sampled")
    # the samplers are what uniformPointInner uses
    for cname in ("IntersectionRegion", "UnionRegion", "DifferenceRegion"):
        f = model.func(RG, f"{cname}.uniformPointInner")
        t = unparse(f)
        applied = [
            c
            for c in walk_local(f)
            if isinstance(c, ast.Call)
            and len(c.args) == 1
            and unparse(c.args[0]) == "self"
            and not c.keywords
            and (
                (isinstance(c.func, ast.Name) and c.func.id in lib.locals_assigned(f, lambda v: "self.sampler" in unparse(v) or "self.genericSampler" in unparse(v)))
                or "self.genericSampler" in unparse(c.func)
            )
        ]
        if "self.genericSampler" in t and applied:
            ctx.ok(R, f, f"{cname}.uniformPointInner applies the (generic) sampler to this region")
        else:
            ctx.finding(R, f, f"{cname}.uniformPointInner sampler", f"{cname}.uniformPointInner no longer calls `sampler(self)` with genericSampler as default")


def check_height(ctx, R="C03.height"):
    ctx.rule(
        R,
        "height is kept by planar samplers: in uniformPointInner of a class with a z field every Vector(x, y, ·) carries the region's height "
        "(never a literal, never omitted); Region.orient keeps all three coordinates; PointInRegionDistribution samples the *sampled* region",
    )
    model = ctx.model
    planar = rk.planar_classes(model)
    n = 0
    for ci in planar:
        fn = ci.methods.get("uniformPointInner")
        if fn is None:
            continue
        for c in ast.walk(fn):
            if isinstance(c, ast.Call) and dotted(c.func) == "Vector":
                n += 1
                if len(c.args) < 3 and not any(isinstance(a, ast.Starred) for a in c.args):
                    ctx.finding(R, c, f"{ci.name}.uniformPointInner Vector without z", f"{ci.name}.uniformPointInner builds `{unparse(c)}` without a height: the sample lies at z=0, not in the region")
                elif len(c.args) >= 3 and isinstance(c.args[2], ast.Constant):
                    # allowed only as an offset vector passed to offsetRotated etc.
                    p = parent(c)
                    if isinstance(p, ast.Call) and isinstance(p.func, ast.Attribute) and p.func.attr in ("offsetRotated", "offsetLocally", "__add__") or isinstance(p, ast.BinOp):
                        ctx.ok(R, c, f"{ci.name}.uniformPointInner: `{unparse(c)}` is a planar offset added to a positioned point")
                    else:
                        ctx.finding(R, c, f"{ci.name}.uniformPointInner literal z", f"{ci.name}.uniformPointInner builds `{unparse(c)}` with a literal height instead of the region's z")
                else:
                    ctx.ok(R, c, f"{ci.name}.uniformPointInner: `{norm_text(c, 60)}` carries the region's height")
    ctx.floor(R, n, 4, "Vector constructions in planar samplers")
    fn = model.func(RG, "Region.orient")
    v = fn.args.args[1].arg
    ov = [c for c in ast.walk(fn) if isinstance(c, ast.Call) and dotted(c.func) == "OrientedVector"]
    if ov and all([unparse(a) for a in c.args[:3]] == [f"{v}.x", f"{v}.y", f"{v}.z"] for c in ov):
        ctx.ok(R, fn, "Region.orient keeps x, y and z of the sampled point")
    else:
        ctx.finding(R, fn, "Region.orient coordinates", "Region.orient does not rebuild the oriented vector from vec.x, vec.y, vec.z")
    rets = [r for r in lib.returns_of(fn) if r.value is not None]
    if any(unparse(r.value) == v for r in rets):
        ctx.ok(R, fn, "Region.orient returns the point itself when there is no orientation")
    fn = model.func(RG, "PointInRegionDistribution.sampleGiven")
    rets = [r for r in lib.returns_of(fn) if r.value is not None]
    val = fn.args.args[1].arg
    if len(rets) == 1 and unparse(rets[0].value) == f"{val}[self.region].uniformPointInner()":
        ctx.ok(R, fn, "a point `in` a region is drawn by the sampled region's own uniformPointInner")
    else:
        ctx.finding(R, fn, "PointInRegionDistribution.sampleGiven", "PointInRegionDistribution.sampleGiven is not value[self.region].uniformPointInner()")


def check_rays(ctx, R="C03.rays"):
    ctx.rule(
        R,
        "sibling ray queries agree: inside one function every `<mesh>.ray.intersects_location(...)` call is made with the same options "
        "(e.g. multiple_hits); the branches of MeshVolumeRegion.intersect that clip a path / polyline against the volume split each "
        "segment at ALL its boundary crossings, so a branch asking only for the first hit returns pieces lying outside the volume",
    )
    model = ctx.model
    n = 0
    for mn in (RG, "scenic.core.visibility"):
        m = model.module(mn)
        for q, fn in m.functions.items():
            sites = [c for c in walk_local(fn) if isinstance(c, ast.Call) and isinstance(c.func, ast.Attribute) and c.func.attr == "intersects_location"]
            if len(sites) < 2:
                continue
            n += 1
            opts = [tuple(sorted((k.arg, unparse(k.value)) for k in c.keywords if k.arg not in ("ray_origins", "ray_directions", None))) for c in sites]
            major = max(sorted(set(opts)), key=opts.count)
            odd = [(c, o) for c, o in zip(sites, opts) if o != major]
            if not odd:
                ctx.ok(R, fn, f"{q}: {len(sites)} ray queries, all with options {dict(major) or 'default (all hits)'}")
            elif opts.count(major) * 2 <= len(opts):
                ctx.finding(R, fn, f"{q}: ray queries disagree", f"{q}: its {len(sites)} ray queries are made with different options {sorted({str(dict(o)) for o in opts})}: the branches disagree on which boundary crossings they see (all hits vs. first hit only)")
                continue
            for c, o in odd:
                ctx.finding(R, c, f"{q}: ray query options {dict(o)}", f"{q}: `{norm_text(c, 90)}` is made with options {dict(o)} while the sibling queries of the same function use {dict(major) or 'the defaults (all hits)'}: the branches disagree on which crossings they see")
    ctx.floor(R, n, 2, "functions with several ray queries")


def check_cache(ctx, R="C03.cache"):
    ctx.rule(
        R,
        "cached over-approximation: PolygonalFootprintRegion.approxBoundFootprint may hand back the cached prism only when the cached z-interval "
        "[pc - ph/2, pc + ph/2] CONTAINS the requested one [c - h/2, c + h/2] (both inequalities, compared as linear forms); the cache entry "
        "stores exactly the centre and height the cached prism was built with",
    )
    from ..linform import add, equal, lin, lin_src, scale
    from fractions import Fraction

    model = ctx.model
    fn = model.func(RG, "PolygonalFootprintRegion.approxBoundFootprint")
    c_, h_ = fn.args.args[1].arg, fn.args.args[2].arg
    unp = [n for n in walk_local(fn) if isinstance(n, ast.Assign) and isinstance(n.targets[0], ast.Tuple) and len(n.targets[0].elts) == 3 and unparse(n.value) == "self._bounded_cache"]
    if len(unp) != 1 or not all(isinstance(e, ast.Name) for e in unp[0].targets[0].elts):
        raise AnalysisError("shape not recognised: unpacking of self._bounded_cache")
    pc, ph, preg = (e.id for e in unp[0].targets[0].elts)
    rets = [r for r in lib.returns_of(fn) if r.value is not None and unparse(r.value) == preg]
    if not rets:
        raise AnalysisError("shape not recognised: approxBoundFootprint never returns the cached region")
    need = {
        "upper": lin_src(f"({pc} + {ph} / 2) - ({c_} + {h_} / 2)"),
        "lower": lin_src(f"({c_} - {h_} / 2) - ({pc} - {ph} / 2)"),
    }
    for r in rets:
        have = []
        for t, pol in lib.guard_tests(r, fn):
            conj = t.values if isinstance(t, ast.BoolOp) and isinstance(t.op, ast.And) and pol else [t]
            for cpt in conj:
                if isinstance(cpt, ast.Compare) and len(cpt.ops) == 1 and isinstance(cpt.ops[0], (ast.Lt, ast.LtE, ast.Gt, ast.GtE)) and pol:
                    big, small = (cpt.comparators[0], cpt.left) if isinstance(cpt.ops[0], (ast.Lt, ast.LtE)) else (cpt.left, cpt.comparators[0])
                    have.append(add(lin(big), scale(lin(small), Fraction(-1))))
        miss = [k for k, f in need.items() if not any(equal(f, g) for g in have)]
        if miss:
            # the same containment written with an absolute value:  |c - pc| + h/2 <= ph/2
            for g in have:
                absk = [k for k in g if k.startswith("abs(")]
                if len(absk) == 1 and g.get(absk[0]) == -1:
                    inner = lin_src(absk[0][4:-1])
                    rest = {k: v for k, v in g.items() if k != absk[0]}
                    if (equal(inner, lin_src(f"{c_} - {pc}")) or equal(inner, lin_src(f"{pc} - {c_}"))) and equal(rest, lin_src(f"{ph} / 2 - {h_} / 2")):
                        miss = []
        if miss:
            ctx.finding(R, r, f"cache reuse without {'/'.join(miss)} containment", f"approxBoundFootprint returns the cached prism without checking that its {' and '.join(miss)} z-bound covers the requested one: a prism that only overlaps the request is too short, so part of the region is cut off")
        else:
            ctx.ok(R, r, "the cached prism is reused only when its z-interval contains the requested interval")
    # what is stored is what was built
    st = [n for n in walk_local(fn) if isinstance(n, ast.Assign) and unparse(n.targets[0]) == "self._bounded_cache" and isinstance(n.value, ast.Tuple) and len(n.value.elts) == 3]
    ok = False
    for n in st:
        built = lib.role_text(fn, n.value.elts[2])
        want = f"self.boundFootprint({lib.role_text(fn, n.value.elts[0])}, {lib.role_text(fn, n.value.elts[1])})"
        ok = ok or built == want
    if st and ok:
        ctx.ok(R, st[0], "the cache entry records the centre and height its prism was built with")
    else:
        ctx.finding(R, fn, "cache entry mismatch", "approxBoundFootprint stores a (centre, height) that is not the one its cached prism was built with")


def check_precision(ctx, R="C03.precision"):
    ctx.rule(
        R,
        "geometry that samples are drawn from is computed in double precision: the geometry / region / vector modules never narrow "
        "coordinates to float32 / float16 (dtype arguments, astype, *_float32 routines); a single-precision triangulation moves the "
        "vertices of a polygon with large coordinates (UTM-like maps) by up to a decimetre, so sampled points fall outside the region",
    )
    model = ctx.model
    n = 0
    NARROW = ("float32", "float16", "single", "half")
    for mn in ("scenic.core.geometry", RG, "scenic.core.vectors", "scenic.core.shapes", "scenic.core.utils"):
        if not model.has_module(mn):
            continue
        m = model.module(mn)
        hits = []
        for node in ast.walk(m.tree):
            if isinstance(node, ast.Attribute) and (node.attr in NARROW or node.attr.endswith(("_float32", "_float16"))):
                hits.append(node)
            elif isinstance(node, ast.Constant) and isinstance(node.value, str) and node.value in NARROW and isinstance(parent(node), (ast.Call, ast.keyword)):
                hits.append(node)
        n += 1
        if not hits:
            ctx.ok(R, m.path, f"{mn}: no narrowing to single precision", qualname=mn)
        for h in hits:
            ctx.finding(R, h, f"{lib.qualname_of(h)}: single precision {norm_text(h, 40)}", f"{lib.qualname_of(h)}: `{norm_text(lib.statement_of(h), 80)}` computes geometry in single precision: with coordinates of magnitude 1e5-1e6 the rounding error is centimetres to decimetres, and points sampled from the resulting pieces lie outside the region")
    ctx.floor(R, n, 3, "geometry modules scanned")


def sampler_scope(mname, subname):
    return mname in ("genericSampler", "uniformPointInner") or subname == "sampler"


def check(ctx):
    def weights(ctx):
        n = rk.check_weighted_choices(ctx, "C03.weights", [RG])
        ctx.floor("C03.weights", n, 4, "weighted random.choices sites in regions.py")

    def operand(ctx):
        n = rk.check_operand_interface(ctx, "C03.operand", scope=sampler_scope)
        ctx.floor("C03.operand", n, 3, "operand attribute reads in sampler code")

    # a position specified `in` a region is drawn from the PRUNED region: every part of the feasible set must survive pruning
    # (C08's bound-polarity and subset rules are necessary conditions of "every part of positive measure can be produced")
    from . import c08

    ctx.run(c08.check_polarity, R="C03.pruned.polarity")
    ctx.run(c08.check_subset, R="C03.pruned.subset")
    ctx.run(weights)
    ctx.run(check_membership)
    ctx.run(check_height)
    ctx.run(check_rays)
    ctx.run(check_cache)
    ctx.run(check_precision)
    ctx.run(operand)
