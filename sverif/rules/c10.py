"""C10 -- the front end is total: a scenario or a located syntax error, never a crash (structural part)."""

import ast
import re
import tokenize

from .. import lib
from ..model import AnalysisError, ancestors, dotted, norm_text, parent, unparse, walk_local

CO = "scenic.syntax.compiler"
TR = "scenic.syntax.translator"
SA = "scenic.syntax.ast"
GRAMFILE = "src/scenic/syntax/scenic.gram"

TOKENINFO_FIELDS = set(tokenize.TokenInfo._fields) | {"exact_type", "index", "count"}


def check_visitors(ctx, R="C10.visitors"):
    ctx.rule(
        R,
        "visitor exhaustiveness: every Scenic syntax node a grammar action can build has a visit_<X> in the compiler (or in the "
        "proposition transformer), or is consumed by name (isinstance test in a parent's visitor), or is a protocol node read through a "
        "class-level attribute (functionName / keyword / unitStr) or through its fields in its parent's visitor; otherwise compiling it "
        "reaches the `needs visitor` assertion",
    )
    model = ctx.model
    g = ctx.grammar
    built = sorted({n for _, _, k, n in g.constructor_calls() if k == "s" and n != "parameter"})
    ctx.floor(R, len(built), 105, "Scenic syntax classes built by grammar actions")
    comp = model.module(CO)
    sa = model.module(SA)
    vis = {q.split(".visit_")[1] for q in comp.functions if ".visit_" in q}
    isin = set()
    for n in ast.walk(comp.tree):
        if isinstance(n, ast.Call) and isinstance(n.func, ast.Name) and n.func.id == "isinstance" and len(n.args) == 2:
            for x in ast.walk(n.args[1]):
                if isinstance(x, ast.Attribute) and isinstance(x.value, ast.Name) and x.value.id == "s":
                    isin.add(x.attr)
    attrs_read = {n.attr for n in ast.walk(comp.tree) if isinstance(n, ast.Attribute) and isinstance(n.ctx, ast.Load)}
    for c in built:
        cls = sa.classes.get(c)
        if cls is None:
            ctx.finding(R, GRAMFILE, f"s.{c} undefined", f"grammar builds s.{c}, which syntax/ast.py does not define", qualname=c)
            continue
        if c in vis:
            ctx.ok(R, cls, f"s.{c}: compiler has visit_{c}")
        elif c in isin:
            ctx.ok(R, cls, f"s.{c}: consumed by an isinstance test in its parent's visitor")
        else:
            consts = [t.id for s_ in cls.body if isinstance(s_, ast.Assign) for t in s_.targets if isinstance(t, ast.Name)]
            fields = [s_.target.id for s_ in cls.body if isinstance(s_, ast.AnnAssign) and isinstance(s_.target, ast.Name)]
            if consts and all(k in attrs_read for k in consts):
                ctx.ok(R, cls, f"s.{c}: protocol node read through {consts}")
            elif fields and all(f in attrs_read for f in fields) and not consts and any(
                c in unparse(s2.annotation) for oc in sa.classes.values() if oc is not cls for s2 in oc.body if isinstance(s2, ast.AnnAssign)
            ):
                ctx.ok(R, cls, f"s.{c}: a sub-node of another syntax node, read through its fields {fields} by that node's visitor")
            else:
                ctx.finding(
                    R,
                    cls,
                    f"s.{c} has no visitor",
                    f"the grammar can build s.{c} but the compiler has neither visit_{c} nor a parent that consumes it: compiling such a program dies "
                    f"with AssertionError ('needs visitor in compiler') instead of a syntax error",
                )
    # temporal nodes need proposition-transformer visitors
    pt = model.cls(CO, "PropositionTransformer")
    for c in ("Always", "Eventually", "Next", "UntilOp", "ImpliesOp"):
        if f"visit_{c}" in pt.methods:
            ctx.ok(R, pt.methods[f"visit_{c}"], f"PropositionTransformer.visit_{c} present")
        elif c in built:
            ctx.finding(R, pt.node, f"PropositionTransformer.visit_{c} missing", f"temporal node s.{c} has no visitor in PropositionTransformer")


def _error_call(exc):
    """Does `raise <exc>` raise a ScenicParseError?"""
    if exc is None:
        return True  # re-raise
    if isinstance(exc, ast.Call):
        cn = dotted(exc.func) or ""
        if cn == "ScenicParseError" or cn.endswith("._build_syntax_error") or cn.endswith(".makeSyntaxError") or cn.endswith(".make_syntax_error"):
            return True
    return False


def check_raises(ctx, R="C10.raises"):
    ctx.rule(
        R,
        "only syntax errors leave the front end: every `raise` in the parser's hand-written helpers (grammar @subheader) and in the compiler "
        "raises ScenicParseError (directly, via _build_syntax_error or via makeSyntaxError); compiler assertions are limited to a frozen list "
        "of conditions the grammar makes unreachable",
    )
    model = ctx.model
    g = ctx.grammar
    sh = g.subheader_tree()
    n = 0
    for fn in [x for x in ast.walk(sh) if isinstance(x, ast.FunctionDef)]:
        for r in [x for x in ast.walk(fn) if isinstance(x, ast.Raise)]:
            n += 1
            if _error_call(r.exc):
                ctx.ok(R, GRAMFILE, f"parser helper {fn.name}: `{norm_text(r, 60)}` is a Scenic syntax error", qualname=f"subheader.{fn.name}")
            else:
                ctx.finding(
                    R,
                    GRAMFILE,
                    f"subheader.{fn.name}: {norm_text(r, 70)}",
                    f"parser helper `{fn.name}` (grammar @subheader) raises `{norm_text(r.exc, 80)}`, which is not a ScenicParseError: the input that "
                    f"reaches it makes parsing escape with an internal exception instead of a located syntax error",
                    qualname=f"subheader.{fn.name}",
                )
    ctx.floor(R, n, 10, "raise statements in the parser helpers")
    comp = model.module(CO)
    n2 = 0
    for q, fn in comp.functions.items():
        if isinstance(parent(fn), (ast.FunctionDef,)):
            pass
        for r in [x for x in walk_local(fn) if isinstance(x, ast.Raise)]:
            n2 += 1
            if _error_call(r.exc):
                ctx.ok(R, r, f"{q}: raises a Scenic syntax error")
            else:
                ctx.finding(R, r, f"{q}: {norm_text(r, 70)}", f"compiler `{q}` raises `{norm_text(r.exc, 80)}`, not a ScenicParseError")
    ctx.floor(R, n2, 14, "raise statements in the compiler")
    # makeSyntaxError itself raises ScenicParseError with the node's position
    mk = model.func(CO, "Transformer.makeSyntaxError")
    t = unparse(mk)
    ev = lib.locals_assigned(mk, lambda v: isinstance(v, ast.Call) and dotted(v.func) == "SyntaxError")
    nd = mk.args.args[2].arg if len(mk.args.args) >= 3 else "node"
    if len(ev) == 1 and f"raise ScenicParseError({ev[0]})" in t and f"{ev[0]}.lineno = {nd}.lineno" in t:
        ctx.ok(R, mk, "makeSyntaxError raises ScenicParseError located at the node")
    else:
        ctx.finding(R, mk, "makeSyntaxError", "Transformer.makeSyntaxError no longer raises a ScenicParseError carrying node.lineno")
    # assertions: frozen list (function -> why unreachable)
    ALLOWED_ASSERTS = {
        "ScenicToPythonTransformer.generic_visit": "every grammar-built node has a visitor (rule C10.visitors)",
        "ScenicToPythonTransformer.visit": "the parser only produces AST nodes and lists of them",
        "ScenicToPythonTransformer.visit_PropertyDef": "property definitions occur only in class bodies, handled by visit_ClassDef",
        "ScenicToPythonTransformer.makeGuardCheckers": "guards are only Precondition / Invariant nodes (grammar rule scenic_behavior_header)",
        "ScenicToPythonTransformer.separatePreconditionsAndInvariants": "the behaviour header rule builds only Precondition / Invariant nodes",
        "ScenicToPythonTransformer.makeBehaviorLikeDef": "called with the two literal base-class names only",
        "ScenicToPythonTransformer.visit_DirectionOfSpecifier": "the grammar builds only the six direction nodes",
        "ScenicToPythonTransformer.visit_AngleFromOp": "the grammar requires at least one of `to`/`from`",
        "ScenicToPythonTransformer.visit_AltitudeFromOp": "the grammar requires at least one of `to`/`from`",
    }
    for q, fn in comp.functions.items():
        for a in [x for x in walk_local(fn) if isinstance(x, ast.Assert)]:
            owner = q
            # nested helper functions report under their outermost method
            parts = q.split(".")
            owner2 = ".".join(parts[:2])
            if owner in ALLOWED_ASSERTS or owner2 in ALLOWED_ASSERTS:
                ctx.ok(R, a, f"{q}: assertion allowed ({ALLOWED_ASSERTS.get(owner, ALLOWED_ASSERTS.get(owner2))})")
            else:
                ctx.finding(R, a, f"{q}: {norm_text(a, 60)}", f"compiler `{q}` asserts `{norm_text(a.test, 60)}`; if user input can falsify it compilation escapes with AssertionError (not in the list of grammar-guaranteed conditions)")



def check_group_values(ctx, R="C10.groups"):
    ctx.rule(
        R,
        "what a bracketed group evaluates to: in a pegen grammar an alternative without an action yields its single item, or -- when it "
        "has several items -- the LIST of all of them; so a variable bound to an optional / parenthesised group with several items and no "
        "action (`n=['as' name]`) holds a list, and an action that hands such a variable to a node constructor or helper (instead of "
        "indexing it or only testing it) builds a node with a list where a string / node is expected: compiling it fails with TypeError",
    )
    from pegen import grammar as gr

    g = ctx.grammar

    def counted(items):
        return [i for i in items if not isinstance(i.item if isinstance(i, gr.NamedItem) else i, (gr.PositiveLookahead, gr.NegativeLookahead, gr.Cut))]

    def list_valued(node):
        """node is an optional / plain group all of whose alternatives have several items and no action"""
        if isinstance(node, gr.Opt):
            node = node.node
        if isinstance(node, gr.Group):
            node = node.rhs
        if not isinstance(node, gr.Rhs):
            return False
        return bool(node.alts) and all(a.action is None and len(counted(a.items)) > 1 for a in node.alts)

    n = 0
    for a in g.alts:
        if a.action is None:
            continue
        for it in a.alt.items:
            if not (isinstance(it, gr.NamedItem) and it.name and isinstance(it.item, (gr.Opt, gr.Group))):
                continue
            n += 1
            if not list_valued(it.item):
                continue
            var = it.name
            handed = []
            for c in ast.walk(a.action):
                if isinstance(c, ast.Call):
                    for x in list(c.args) + [k.value for k in c.keywords]:
                        if isinstance(x, ast.Name) and x.id == var:
                            handed.append(c)
            if handed:
                ctx.finding(
                    R,
                    GRAMFILE,
                    f"{a.rule}: group variable {var} handed on as a value",
                    f"grammar rule {a.rule} (line ~{g.line_of_rule(a.rule)}): `{var}` is bound to the group `{str(it.item)[:50]}`, which has several items and no action and therefore evaluates to a list "
                    f"of them, and the action passes it on (`{norm_text(handed[0], 60)}`): the node gets a list where a name / node is expected and compiling the statement fails with TypeError",
                    qualname=a.rule,
                )
            else:
                ctx.ok(R, GRAMFILE, f"{a.rule}: list-valued group `{var}` is only indexed / tested by its action", qualname=a.rule)
    ctx.floor(R, n, 60, "variables bound to optional or parenthesised groups in alternatives with actions")



# AST-valued fields of the Python node classes the compiler has visitors for
PY_CHILD_FIELDS = {
    "Return": {"value"},
    "Yield": {"value"},
    "YieldFrom": {"value"},
    "Call": {"func", "args", "keywords"},
    "ClassDef": {"bases", "keywords", "body", "decorator_list"},
}
# helpers that only inspect a subtree (they embed nothing in the output)
INSPECTING_CALLS = {"LocalFinder.findIn", "len", "isinstance", "bool", "str", "repr", "type"}


def check_children(ctx, R="C10.children"):
    ctx.rule(
        R,
        "children are compiled before they are re-embedded: in a visit_<Class> method of the Scenic-to-Python transformer every use of an "
        "AST-valued field `node.<field>` either goes through self.<method>(...) (self.visit, self.generic_visit, a helper method, or a "
        "local helper that visits its argument), or only inspects the child (a test, a comparison, an attribute of it, an iteration whose "
        "elements are then visited, an inspecting helper); a child placed into the output unvisited still contains Scenic nodes, and "
        "compile() then fails with TypeError for programs that use Scenic syntax in that position",
    )
    model = ctx.model
    am = model.module("scenic.syntax.ast")
    fields = {}
    for q, c in am.classes.items():
        fs = set()
        for st in c.body:
            if isinstance(st, ast.AnnAssign) and isinstance(st.target, ast.Name):
                t = unparse(st.annotation)
                if "ast." in t or "AST" in t or '"' in t or "'" in t:
                    fs.add(st.target.id)
        fields[q] = fs
    ci = model.cls(CO, "ScenicToPythonTransformer")
    n = 0
    for mn, fn in ci.methods.items():
        if not mn.startswith("visit_") or len(fn.args.args) < 2:
            continue
        fs = fields.get(mn[6:]) or PY_CHILD_FIELDS.get(mn[6:])
        if not fs:
            continue
        npar = fn.args.args[1].arg
        # local helpers that pass a parameter of theirs to self.visit
        visiting_locals = set()
        for f in ast.walk(fn):
            if isinstance(f, ast.FunctionDef) and f is not fn:
                ps = {a.arg for a in f.args.args}
                if any(isinstance(c, ast.Call) and unparse(c.func) in ("self.visit", "self.generic_visit") and c.args and isinstance(c.args[0], ast.Name) and c.args[0].id in ps for c in ast.walk(f)):
                    visiting_locals.add(f.name)
        for x in ast.walk(fn):
            if not (isinstance(x, ast.Attribute) and isinstance(x.value, ast.Name) and x.value.id == npar and isinstance(x.ctx, ast.Load) and x.attr in fs):
                continue
            n += 1
            ok = False
            ch = x
            for a in ancestors(x):
                if a is fn:
                    break
                if isinstance(a, ast.Call):
                    in_args = any(ch is y for y in list(a.args) + [k.value for k in a.keywords])
                    cn = dotted(a.func) or ""
                    if in_args and (cn.startswith("self.") or cn in visiting_locals or cn in INSPECTING_CALLS):
                        ok = True
                        break
                if isinstance(a, (ast.If, ast.While, ast.Assert, ast.IfExp)) and any(x is y for y in ast.walk(a.test)):
                    ok = True
                    break
                if isinstance(a, ast.Attribute) and a.value is ch:
                    ok = True  # an attribute of the child (its name, its location ...)
                    break
                if isinstance(a, (ast.For, ast.comprehension)) and any(x is y for y in ast.walk(a.iter)):
                    ok = True  # iterated: the elements are what is used (and checked where they are used)
                    break
                if isinstance(a, (ast.Compare, ast.JoinedStr)):
                    ok = True
                    break
                ch = a
            if ok:
                ctx.ok(R, x, f"{mn}: `{unparse(x)}` is visited or only inspected")
            else:
                ctx.finding(
                    R,
                    x,
                    f"{mn}: unvisited child {unparse(x)}",
                    f"ScenicToPythonTransformer.{mn} uses `{unparse(x)}` in `{norm_text(lib.statement_of(x), 70)}` without passing it through self.visit: the child is placed into the compiled "
                    f"tree as it is, so Scenic syntax inside it (e.g. `3 deg`, `new Object`) reaches compile() and fails with TypeError",
                )
    ctx.floor(R, n, 120, "uses of AST-valued fields in the transformer's visitors")


def check_tokeninfo(ctx, R="C10.errargs"):
    ctx.rule(
        R,
        "error construction cannot itself fail: in the parser helpers a parameter annotated tokenize.TokenInfo is accessed only through "
        f"TokenInfo's fields {sorted(TOKENINFO_FIELDS)} (a token has no lineno/col_offset); raise_syntax_error_known_* dispatch on "
        "isinstance(·, tokenize.TokenInfo) before touching node attributes",
    )
    g = ctx.grammar
    sh = g.subheader_tree()
    n = 0
    for fn in [x for x in ast.walk(sh) if isinstance(x, ast.FunctionDef)]:
        tok_params = [a.arg for a in fn.args.args if a.annotation is not None and unparse(a.annotation) == "tokenize.TokenInfo"]
        allbad = {}
        for p in tok_params:
            n += 1
            bad = sorted({x.attr for x in ast.walk(fn) if isinstance(x, ast.Attribute) and isinstance(x.value, ast.Name) and x.value.id == p and x.attr not in TOKENINFO_FIELDS})
            if bad:
                allbad[p] = bad
            else:
                ctx.ok(R, GRAMFILE, f"{fn.name}: `{p}` accessed only through TokenInfo fields", qualname=f"subheader.{fn.name}")
        if allbad:
            ctx.finding(
                R,
                GRAMFILE,
                f"subheader.{fn.name}: TokenInfo attributes {allbad}",
                f"parser helper `{fn.name}`: parameters {sorted(allbad)} are tokenize.TokenInfo but {allbad} are read; TokenInfo has no such "
                f"attributes, so the input that reaches this check raises AttributeError instead of a syntax error",
                qualname=f"subheader.{fn.name}",
            )
        # Union[ast.AST, TokenInfo] parameters: node attributes only in the non-token branch
        uni = [a.arg for a in fn.args.args if a.annotation is not None and "tokenize.TokenInfo" in unparse(a.annotation) and "Union" in unparse(a.annotation)]
        for p in uni:
            n += 1
            ok = True
            for x in ast.walk(fn):
                if isinstance(x, ast.Attribute) and isinstance(x.value, ast.Name) and x.value.id == p:
                    guards = [(unparse(t), pol) for t, pol in lib.guard_tests(x, fn)]
                    is_tok = any(t == f"isinstance({p}, tokenize.TokenInfo)" and pol for t, pol in guards)
                    not_tok = any(t == f"isinstance({p}, tokenize.TokenInfo)" and not pol for t, pol in guards)
                    if x.attr in ("lineno", "col_offset", "end_lineno", "end_col_offset") and not not_tok:
                        ok = False
                    if x.attr in ("start", "end") and not is_tok:
                        ok = False
            if ok:
                ctx.ok(R, GRAMFILE, f"{fn.name}: `{p}` dispatches on TokenInfo before reading positions", qualname=f"subheader.{fn.name}")
            else:
                ctx.finding(R, GRAMFILE, f"subheader.{fn.name}: undispatched {p}", f"parser helper `{fn.name}` reads token/node positions of `{p}` without the isinstance(·, tokenize.TokenInfo) dispatch", qualname=f"subheader.{fn.name}")
    ctx.floor(R, n, 6, "token / node parameters of error helpers")
    # get_expr_name: the table lookup must have a default (the invalid-target rules call it with any expression node)
    gen = next((x for x in ast.walk(sh) if isinstance(x, ast.FunctionDef) and x.name == "get_expr_name"), None)
    if gen is None:
        raise AnalysisError("parser helper get_expr_name not found")
    for sub in ast.walk(gen):
        if isinstance(sub, ast.Subscript) and unparse(sub.value) == "EXPR_NAME_MAPPING" and isinstance(sub.ctx, ast.Load):
            protected = False
            cur = sub
            while getattr(cur, "_parent", None) is not None:
                cur = cur._parent
                if isinstance(cur, ast.Try) and any(h.type is not None and "KeyError" in unparse(h.type) and not any(isinstance(x, ast.Raise) and not _error_call(x.exc) for x in ast.walk(h)) for h in cur.handlers):
                    protected = True
            if not protected:
                ctx.finding(
                    R,
                    GRAMFILE,
                    "subheader.get_expr_name: lookup without default",
                    "get_expr_name indexes EXPR_NAME_MAPPING without a default: Scenic expression nodes (and any node class missing from the table) reach it "
                    "through the invalid-target rules and escape as KeyError instead of a syntax error",
                    qualname="subheader.get_expr_name",
                )
    # grammar actions: variables bound to tokens (or to rules that return a token) are TokenInfo
    from pegen import grammar as gr

    token_rules = set()
    helpers = {x.name: x for x in ast.walk(sh) if isinstance(x, ast.FunctionDef)}
    for name, rule in g.rules.items():
        acts = [a_.action for a_ in rule.rhs.alts]
        if len(acts) == 1 and acts[0]:
            m_ = re.match(r"\s*self\s*\.\s*(\w+)\s*\(", acts[0])
            if m_ and m_.group(1) in helpers and helpers[m_.group(1)].returns is not None and unparse(helpers[m_.group(1)].returns) == "tokenize.TokenInfo":
                token_rules.add(name)
    n_tok = 0
    for a_ in g.alts:
        if a_.action is None:
            continue
        tokvars = {}
        for it in a_.alt.items:
            if not isinstance(it, gr.NamedItem) or not it.name:
                continue
            node = it.item
            if isinstance(node, gr.Opt):
                node = node.node
                if isinstance(node, gr.Rhs) and len(node.alts) == 1 and len(node.alts[0].items) == 1:
                    node = node.alts[0].items[0]
                    node = node.item if isinstance(node, gr.NamedItem) else node
            if isinstance(node, gr.StringLeaf) or (isinstance(node, gr.NameLeaf) and (node.value.isupper() or node.value in token_rules)):
                tokvars[it.name] = str(node)
        for v, src in tokvars.items():
            uses = [x for x in ast.walk(a_.action) if isinstance(x, ast.Attribute) and isinstance(x.value, ast.Name) and x.value.id == v]
            if not uses:
                continue
            n_tok += 1
            bad = sorted({x.attr for x in uses if x.attr not in TOKENINFO_FIELDS})
            if bad:
                ctx.finding(
                    R,
                    GRAMFILE,
                    f"{a_.rule}: token {v}.{bad}",
                    f"grammar rule {a_.rule} (line ~{g.line_of_rule(a_.rule)}): `{v}` is bound to the token `{src}` (a tokenize.TokenInfo) but the action reads "
                    f"`{v}.{bad[0]}`: TokenInfo has no such attribute, so every input taking this alternative raises AttributeError",
                    qualname=a_.rule,
                )
            else:
                ctx.ok(R, GRAMFILE, f"{a_.rule}: token `{v}` read only through TokenInfo fields", qualname=a_.rule)
    ctx.floor(R, n_tok, 60, "token-bound variables used in grammar actions")


def check_nullable_loops(ctx, R="C10.loops"):
    ctx.rule(
        R,
        "no repetition over a nullable item: in a PEG, `e*`/`e+`/`sep.e+` with e able to match the empty string never terminates; pegen's own "
        "nullable analysis is applied to every repetition of the grammar",
    )
    from pegen import grammar as gr
    from pegen.parser_generator import NullableVisitor, compute_nullables

    g = ctx.grammar
    compute_nullables(g.rules)
    nv = NullableVisitor(g.rules)
    n = 0

    def walk(rule, node):
        nonlocal n
        if isinstance(node, (gr.Repeat0, gr.Repeat1)):
            n += 1
            inner = node.node
            if _nullable(nv, inner, gr):
                ctx.finding(R, GRAMFILE, f"{rule}: repetition of nullable {str(inner)[:50]}", f"rule {rule}: `{str(node)[:70]}` repeats an item that can match the empty string: the parser loops for ever on some inputs", qualname=rule)
        if isinstance(node, gr.Gather):
            n += 1
            if _nullable(nv, node.node, gr) and _nullable(nv, node.separator, gr):
                ctx.finding(R, GRAMFILE, f"{rule}: gather of nullable {str(node)[:50]}", f"rule {rule}: `{str(node)[:70]}` gathers nullable items with a nullable separator", qualname=rule)
        for child in _children(node, gr):
            walk(rule, child)

    for name, rule in g.rules.items():
        walk(name, rule.rhs)
    ctx.floor(R, n, 120, "repetitions in the grammar")
    ctx.ok(R, GRAMFILE, f"{n} repetitions examined, none over a nullable item", qualname="grammar")


def _nullable(nv, node, gr):
    try:
        return bool(nv.visit(node))
    except Exception:
        return False


def _children(node, gr):
    if isinstance(node, gr.Rhs):
        return list(node.alts)
    if isinstance(node, gr.Alt):
        return list(node.items)
    if isinstance(node, gr.NamedItem):
        return [node.item]
    if isinstance(node, (gr.Opt, gr.Repeat0, gr.Repeat1, gr.Forced, gr.PositiveLookahead, gr.NegativeLookahead)):
        return [node.node]
    if isinstance(node, gr.Gather):
        return [node.separator, node.node]
    if isinstance(node, gr.Group):
        return [node.rhs]
    return []


def check_deactivate(ctx, R="C10.deactivate"):
    ctx.rule(
        R,
        "veneer always deactivated: in the translator every veneer.activate(...) is followed by a try whose finally calls "
        "veneer.deactivate(), with nothing that can raise in between",
    )
    model = ctx.model
    m = model.module(TR)
    n = 0
    for q, fn in m.functions.items():
        acts = [c for c in walk_local(fn) if isinstance(c, ast.Call) and dotted(c.func) == "veneer.activate"]
        for c in acts:
            n += 1
            st = lib.statement_of(c)
            # (A) the statement holding activate() (possibly `if activate:`) is immediately followed by try/finally: deactivate
            holder = st
            while isinstance(parent(holder), ast.If) and parent(holder) is not fn:
                holder = parent(holder)
            blk = _block(holder)
            i = next((k for k, x in enumerate(blk) if x is holder), None)
            nxt = blk[i + 1] if i is not None and i + 1 < len(blk) else None

            def deact(tr):
                return isinstance(tr, ast.Try) and any(isinstance(x, ast.Call) and dotted(x.func) == "veneer.deactivate" for s_ in tr.finalbody for x in ast.walk(s_))

            enclosing = [a for a in ancestors(c) if isinstance(a, ast.Try) and deact(a) and any(x is c for b in a.body for x in ast.walk(b))]
            if deact(nxt):
                ctx.ok(R, c, f"{q}: activate() is immediately followed by try/finally: deactivate()")
            elif enclosing:
                ctx.ok(R, c, f"{q}: activate() runs inside a try whose finally deactivates the veneer")
                ctx.note(f"{q}: activate() is inside the protected try: if activate() itself fails before incrementing the counter, the finally still decrements it")
            else:
                ctx.finding(R, c, f"{q}: activate without finally", f"{q}: `{unparse(c)[:60]}` is neither followed by nor inside a try whose finally deactivates the veneer: an exception while compiling leaves the interpreter state active")
    ctx.floor(R, n, 1, "veneer.activate call sites")
    # deactivate resets when the activity counter reaches zero
    ve = model.func("scenic.syntax.veneer", "deactivate")
    t = unparse(ve)
    if "activity -= 1" in t and "activity == 0" in t.replace("if activity <= 0", "if activity == 0"):
        ctx.ok(R, ve, "deactivate() decrements the activity counter and resets state at zero")
    else:
        ctx.note("veneer.deactivate shape changed (checked in detail by C14)")


def _block(stmt):
    p = parent(stmt)
    for f in ("body", "orelse", "finalbody"):
        seq = getattr(p, f, None)
        if isinstance(seq, list) and any(x is stmt for x in seq):
            return seq
    return []


def check_reference(ctx, R="C10.reference"):
    ctx.rule(
        R,
        "reference coverage: every specifier heading of docs/reference/specifiers.rst and every statement heading of statements.rst has a "
        "grammar alternative that contains the heading's literal keywords in order",
    )
    from ..docs import sections

    model = ctx.model
    g = ctx.grammar
    alts_kw = []
    for a in g.alts:
        kws = [s for s, q, opt in a.strings() if s.replace("_", "").isalpha()]
        if kws:
            alts_kw.append((a, kws))

    def words(title):
        title = re.sub(r"\*[^*]*\*", " ", title)  # placeholders
        title = re.sub(r"\[[^\]]*\]", " ", title)  # optional parts
        groups = re.findall(r"\(([^()]*)\)", title)
        base = re.sub(r"\([^()]*\)", " @ ", title)
        toks = []
        gi = 0
        for w in base.split():
            if w == "@":
                alt0 = groups[gi].split("|")[0].strip() if gi < len(groups) else ""
                gi += 1
                toks.extend(x for x in alt0.split() if x.isalpha())
            elif w.isalpha():
                toks.append(w)
        return toks

    n = 0
    for rel in ("docs/reference/specifiers.rst", "docs/reference/statements.rst"):
        if not model.exists(rel):
            raise AnalysisError(f"{rel} missing")
        text = model.read(rel)
        for title, line, body in sections(text, "-"):
            ws = [w for w in words(title) if w.islower() and w not in ("seconds", "steps")]  # duration units are a rule of their own
            if not ws or title.startswith(("..",)):
                continue
            n += 1
            hit = False
            for a, kws in alts_kw:
                it = iter(kws)
                if all(any(w == k for k in it) for w in ws):
                    hit = True
                    break
            if hit:
                ctx.ok(R, rel, f"'{title[:50]}': grammar alternative with keywords {ws}", qualname=title[:40])
            else:
                # headings built from Python syntax (class/def/import...) are covered by inherited rules
                PY = {"class", "def", "import", "from", "if", "for", "while", "try", "with", "return", "pass", "raise"}
                if ws and ws[0] in PY:
                    ctx.ok(R, rel, f"'{title[:50]}': inherited Python syntax", qualname=title[:40])
                else:
                    ctx.finding(R, rel, f"no grammar alternative for '{title[:50]}'", f"{rel}:{line} documents `{title}` but no grammar alternative contains the keywords {ws} in order", qualname=title[:40])
    ctx.floor(R, n, 40, "reference headings")


def check_frontend_partial(ctx, R="C10.partial"):
    ctx.rule(
        R,
        "partial operations of the front end are protected: (a) the tokenizer's get_lines, which raises KeyError for a line without "
        "tokens, is called under a KeyError handler; (b) ast.literal_eval of token text, which raises SyntaxError / ValueError for literals "
        "the tokenizer lets through (`01`, `1__0`), is called only under a handler for both that reports a syntax error; (c) literal values "
        "are concatenated only after a bytes-vs-str test that raises a syntax error; (d) every Scenic node class that only the "
        "PropositionTransformer compiles is rejected with a syntax error by the main transformer's generic_visit (it can be nested inside an "
        "ordinary expression); (e) a parenthesised temporal expression may be followed by every binary connective of the temporal grammar; "
        "(b') token text is never converted with float() / int() / complex() directly; (f) a try statement built by the compiler has an else block only together with handlers",
    )
    g = ctx.grammar
    sh = g.subheader_tree()

    def protected(node, kinds):
        cur = node
        while getattr(cur, "_parent", None) is not None:
            par = cur._parent
            if isinstance(par, ast.Try) and any(x is cur for x in par.body):
                for h in par.handlers:
                    ht = unparse(h.type) if h.type is not None else "BaseException"
                    if all(any(k in ht for k in alts) for alts in kinds):
                        return h
            cur = par
        return None

    # (a)
    gl = [c for c in ast.walk(sh) if isinstance(c, ast.Call) and isinstance(c.func, ast.Attribute) and c.func.attr == "get_lines"]
    ctx.floor(R, len(gl), 1, "get_lines calls in the parser helpers")
    for c in gl:
        if protected(c, [("KeyError", "LookupError", "Exception", "BaseException")]):
            ctx.ok(R, GRAMFILE, f"get_lines is called under a KeyError handler", qualname="subheader")
        else:
            ctx.finding(R, GRAMFILE, "subheader: unprotected get_lines", f"parser helper calls `{norm_text(c, 60)}` without a KeyError handler: a syntax error whose range covers a line without tokens (a blank line inside brackets) escapes as KeyError", qualname="subheader")
    # (b)
    sites = [(None, c) for c in ast.walk(sh) if isinstance(c, ast.Call) and dotted(c.func) == "ast.literal_eval"]
    for a in g.alts:
        if a.action is not None:
            for c in ast.walk(a.action):
                if isinstance(c, ast.Call) and dotted(c.func) == "ast.literal_eval":
                    sites.append((a, c))
    ctx.floor(R, len(sites), 1, "ast.literal_eval sites in the grammar")
    for a, c in sites:
        h = protected(c, [("SyntaxError", "Exception", "BaseException"), ("ValueError", "Exception", "BaseException")]) if a is None else None
        if h is not None and any(isinstance(x, ast.Call) and isinstance(x.func, ast.Attribute) and x.func.attr.startswith("raise_syntax_error") for x in ast.walk(h)):
            ctx.ok(R, GRAMFILE, "ast.literal_eval of token text reports invalid literals as syntax errors", qualname="subheader")
        else:
            where = f"rule {a.rule}" if a is not None else "a parser helper"
            ctx.finding(R, GRAMFILE, f"unprotected literal_eval in {where}", f"{where} evaluates `{norm_text(c, 50)}` without converting SyntaxError / ValueError: a literal the tokenizer accepts but Python rejects (`01`, `1__0`) escapes as a raw Python error instead of a located Scenic syntax error", qualname=a.rule if a is not None else "subheader")
    # (b') the same conversions spelled float(x.string) / int(x.string) / complex(x.string): they raise ValueError for number
    # tokens Python accepts in another notation (`0x1`, `1j`, `1_0` is fine, `0o7`)
    nconv = 0
    conv_sites = [(None, c) for c in ast.walk(sh) if isinstance(c, ast.Call)]
    for a in g.alts:
        if a.action is not None:
            conv_sites.extend((a, c) for c in ast.walk(a.action) if isinstance(c, ast.Call))
    for a, c in conv_sites:
        if not (isinstance(c.func, ast.Name) and c.func.id in ("float", "int", "complex") and len(c.args) == 1):
            continue
        arg = c.args[0]
        if not (isinstance(arg, ast.Attribute) and arg.attr == "string"):
            continue
        nconv += 1
        h = protected(c, [("ValueError", "Exception", "BaseException")]) if a is None else None
        if h is not None:
            continue
        where = f"rule {a.rule}" if a is not None else "a parser helper"
        ctx.finding(
            R,
            GRAMFILE,
            f"token text converted with {c.func.id}() in {where}",
            f"{where} converts the text of a token with `{norm_text(c, 40)}`: a NUMBER token Python accepts in another notation (`0x1`, `0o7`, `1j`) makes it raise ValueError, "
            f"which escapes the front end instead of a located syntax error (use the protected literal evaluation)",
            qualname=a.rule if a is not None else "subheader",
        )
    if nconv == 0:
        ctx.ok(R, GRAMFILE, "no grammar action converts token text with float() / int() / complex() directly", qualname="grammar actions")
    # (f) a try statement the compiler builds is one compile() accepts: `else` needs handlers (and handlers or `finally` must
    # exist); the emptiness of the emitted lists is that of the source lists they are computed from
    comp = ctx.model.module(CO)

    def source_list(e, fn_):
        for _ in range(4):
            if isinstance(e, ast.Name):
                v = lib.local_value(fn_, e.id)
                if v is None:
                    break
                e = v
            elif isinstance(e, ast.ListComp) and len(e.generators) == 1 and not e.generators[0].ifs:
                e = e.generators[0].iter
            elif isinstance(e, ast.Call) and unparse(e.func) in ("self.visit", "list", "tuple") and len(e.args) == 1:
                e = e.args[0]
            else:
                break
        return e

    ntry = 0
    for q, fn_ in comp.functions.items():
        for c in walk_local(fn_):
            if not (isinstance(c, ast.Call) and dotted(c.func) == "ast.Try" and len(c.args) >= 4):
                continue
            ntry += 1
            handlers, orelse = source_list(c.args[1], fn_), source_list(c.args[2], fn_)
            if isinstance(orelse, (ast.List, ast.Tuple)) and not orelse.elts:
                ctx.ok(R, c, f"{q}: the emitted try statement has no else block")
                continue
            env = {unparse(handlers): False, unparse(orelse): True}
            blocked = any((lambda v: v is not None and v != p_)(lib.tri_eval(t_, env)) for t_, p_ in lib.guard_tests(c, fn_))
            if blocked:
                ctx.ok(R, c, f"{q}: an `else` block is emitted only together with handlers")
            else:
                ctx.finding(
                    R,
                    c,
                    f"{q}: ast.Try with else but possibly no handlers",
                    f"{q} builds `{norm_text(c, 60)}` on a path where `{unparse(orelse)}` may be non-empty while `{unparse(handlers)}` is empty: compile() rejects a try statement with "
                    f"`else` but no `except` (ValueError), so e.g. a try-interrupt statement with `else` and `finally` but no `except` escapes the front end with an internal error",
                )
    ctx.floor(R, ntry, 1, "ast.Try constructions in the compiler")
    # (c)
    for fn in [f for f in ast.walk(sh) if isinstance(f, ast.FunctionDef)]:
        augs = [n for n in ast.walk(fn) if isinstance(n, ast.AugAssign) and isinstance(n.op, ast.Add) and isinstance(n.value, (ast.Name, ast.Call))]
        lit = [n for n in augs if any(isinstance(c, ast.Call) and (dotted(c.func) == "ast.literal_eval" or (isinstance(c.func, ast.Attribute) and c.func.attr == "literal_value")) for c in ast.walk(fn))]
        if not lit or fn.name == "literal_value":
            continue
        tests = [i for i in ast.walk(fn) if isinstance(i, ast.If) and "bytes" in unparse(i.test) and any(isinstance(x, ast.Call) and isinstance(x.func, ast.Attribute) and x.func.attr.startswith("raise_syntax_error") for x in ast.walk(i))]
        if tests and min(t.lineno for t in tests) <= min(n.lineno for n in lit):
            ctx.ok(R, GRAMFILE, f"{fn.name}: literal values are concatenated only after the bytes / str test", qualname=f"subheader.{fn.name}")
        else:
            ctx.finding(R, GRAMFILE, f"subheader.{fn.name}: literal values concatenated without a bytes / str test", f"parser helper `{fn.name}` adds up the values of adjacent literals (`{norm_text(lit[0], 40)}`) without first rejecting a mix of bytes and str: `b\"a\" \"b\"` escapes as TypeError instead of CPython's syntax error", qualname=f"subheader.{fn.name}")
    # (d)
    model = ctx.model
    comp = model.module(CO)
    pt = model.cls(CO, "PropositionTransformer")
    mt = model.cls(CO, "ScenicToPythonTransformer")
    only_pt = sorted(m[len("visit_"):] for m in pt.methods if m.startswith("visit_") and m not in mt.methods and m[len("visit_"):] in _scenic_node_classes(model))
    ctx.floor(R, len(only_pt), 3, "node classes compiled only by the PropositionTransformer")
    gv = mt.methods.get("generic_visit")
    if gv is None:
        raise AnalysisError("ScenicToPythonTransformer.generic_visit missing")
    rejected = set()
    for c in ast.walk(gv):
        if isinstance(c, ast.Call) and isinstance(c.func, ast.Attribute) and c.func.attr == "makeSyntaxError":
            for coll in ast.walk(gv):
                if isinstance(coll, (ast.Dict, ast.Set, ast.Tuple, ast.List)):
                    elems = coll.keys if isinstance(coll, ast.Dict) else coll.elts
                    for e in elems:
                        if isinstance(e, ast.Attribute) and isinstance(e.value, ast.Name) and e.value.id == "s":
                            rejected.add(e.attr)
    miss = [n for n in only_pt if n not in rejected]
    if miss:
        ctx.finding(R, gv, f"temporal nodes {miss} reach an assertion", f"the node classes {miss} are compiled only by the PropositionTransformer; nested inside an ordinary expression (`require x if y else (always z)`) they reach ScenicToPythonTransformer.generic_visit, which does not report them as syntax errors: the compiler fails with AssertionError")
    else:
        ctx.ok(R, gv, f"{only_pt} outside a proposition are reported as syntax errors")
    # (e)
    grp = g.rules.get("scenic_temporal_group")
    if grp is None:
        raise AnalysisError("grammar rule scenic_temporal_group missing")
    from pegen import grammar as gr

    look = set()
    for it in grp.rhs.alts[0].items:
        node = it.item if isinstance(it, gr.NamedItem) else it
        if isinstance(node, gr.PositiveLookahead):
            inner = node.node
            rhs = inner.rhs if isinstance(inner, gr.Group) else inner
            for a_ in getattr(rhs, "alts", []):
                for x in a_.items:
                    xn = x.item if isinstance(x, gr.NamedItem) else x
                    if isinstance(xn, gr.StringLeaf):
                        look.add(xn.value[1:-1])
    infix = set()
    for rname in ("scenic_until", "scenic_implication", "scenic_temporal_disjunction", "scenic_temporal_conjunction"):
        rule = g.rules.get(rname)
        if rule is None:
            raise AnalysisError(f"grammar rule {rname} missing")
        for a in [x for x in g.alts if x.rule == rname]:
            for tok, _q, _opt in a.strings():
                if tok.isalpha():
                    infix.add(tok)
    missing = sorted(infix - look)
    if missing:
        ctx.finding(R, GRAMFILE, f"scenic_temporal_group lookahead lacks {missing}", f"a parenthesised temporal expression is recognised only when followed by one of {sorted(look)}; the connectives {missing} of the temporal grammar are missing, so e.g. `require (always A) implies B` (an example of the reference) is a syntax error", qualname="scenic_temporal_group")
    else:
        ctx.ok(R, GRAMFILE, f"a parenthesised temporal expression may be followed by every connective {sorted(infix)}", qualname="scenic_temporal_group")


def _scenic_node_classes(model):
    m = model.module("scenic.syntax.ast")
    return {c.split(".")[-1] for c in m.classes}


def check_shadowing(ctx, R="C10.shadow"):
    ctx.rule(
        R,
        "no alternative is shadowed in an ordered choice: PEG tries alternatives in order and does not come back to a rule once one of its "
        "alternatives succeeded, so an earlier alternative that consists of just the keywords K1..Kn (nothing mandatory after them) makes "
        "every later alternative of the same rule that starts with K1..Kn Kn+1 unreachable -- the longer documented form (`terminate "
        "simulation` after `terminate`) is then rejected with 'invalid syntax'",
    )
    from pegen import grammar as gr

    g = ctx.grammar
    nullable = g.nullable_rules()

    def literal_prefix(alt, depth=0):
        """(tuple of leading literal tokens, True if nothing mandatory follows them)"""
        toks = []
        items = list(alt.items)
        i = 0
        while i < len(items):
            it = items[i]
            node = it.item if isinstance(it, gr.NamedItem) else it
            if isinstance(node, gr.StringLeaf):
                toks.append(node.value[1:-1])
                i += 1
                continue
            if isinstance(node, gr.NameLeaf) and node.value in g.rules and depth < 3 and not toks:
                sub = g.rules[node.value].rhs.alts
                if len(sub) == 1:
                    st, srest = literal_prefix(sub[0], depth + 1)
                    toks.extend(st)
                    if srest:
                        i += 1
                        continue
                    return tuple(toks), False
            break
        rest_nullable = True
        for it in items[i:]:
            node = it.item if isinstance(it, gr.NamedItem) else it
            if isinstance(node, (gr.Opt, gr.Repeat0, gr.PositiveLookahead, gr.NegativeLookahead)):
                continue
            if isinstance(node, gr.NameLeaf) and node.value in nullable:
                continue
            rest_nullable = False
            break
        return tuple(toks), rest_nullable

    n = 0
    for rname, rule in g.rules.items():
        alts = rule.rhs.alts
        if len(alts) < 2:
            continue
        forms = [literal_prefix(a) for a in alts]
        for i, (ti, complete_i) in enumerate(forms):
            if not ti or not complete_i:
                continue
            for j in range(i + 1, len(alts)):
                tj, _ = forms[j]
                n += 1
                if len(tj) > len(ti) and tj[: len(ti)] == ti:
                    ctx.finding(
                        R,
                        GRAMFILE,
                        f"{rname}: alternative {' '.join(ti)} shadows {' '.join(tj)}",
                        f"grammar rule {rname} (line ~{g.line_of_rule(rname)}): alternative {i + 1} `{alts[i]}` accepts the bare keywords `{' '.join(ti)}`, and comes before alternative {j + 1} `{alts[j]}`, which "
                        f"starts with `{' '.join(tj)}`: the parser commits to the shorter form and the longer documented statement is a syntax error",
                        qualname=rname,
                    )
    ctx.floor(R, n, 20, "ordered pairs of alternatives after a keyword-only alternative")
    ctx.ok(R, GRAMFILE, f"{n} ordered pairs checked", qualname="grammar")


# Frozen: unguarded `[-1]` / `[0]` on a possibly-empty component that the grammar context makes non-empty.
INDEX_OK = {
    ("invalid_arguments", "args ',' args", "a[1]"): "the first `args` can only be followed by `,` `args` when a keyword argument stopped its positional part, so its keyword list is not empty",
}


def check_indexing(ctx, R="C10.index"):
    ctx.rule(
        R,
        "error paths do not index past the end: (a) in grammar actions, `v[i][-1]` / `v[i][0]` on a component of a rule result that some "
        "alternative of that rule can leave empty (e.g. the keyword list of `args`) is guarded by a test of that component (frozen "
        "exceptions carry their reason); (b) in scenic/core/errors.py a subscript whose index depends on a parameter (a line number or "
        "offset taken from the error) is guarded by a length / truth test or sits in a try that catches IndexError",
    )
    g = ctx.grammar
    # (a) which components of tuple-valued rules may be empty
    maybe_empty = {}
    exclusive = {}
    from pegen import grammar as gr

    def _plus(alt, nonempty_rules=()):
        out = set()
        for it in alt.items:
            if isinstance(it, gr.NamedItem) and it.name and (isinstance(it.item, (gr.Repeat1, gr.Gather)) or str(it.item) in nonempty_rules):
                out.add(it.name)
        return out

    # rules whose result is always a non-empty list (every alternative is a `+` repetition or a concatenation with one)
    nonempty_rules = set()
    for rname, rule in g.rules.items():
        alts = [a for a in g.alts if a.rule == rname and not a.nested]
        if alts and all(
            (a.action is None and len(a.alt.items) == 1 and isinstance(getattr(a.alt.items[0], "item", a.alt.items[0]), (gr.Repeat1, gr.Gather)))
            or (a.action is not None and _nonempty(a.action, _plus(a.alt)))
            for a in alts
        ):
            nonempty_rules.add(rname)
    for rname, rule in g.rules.items():
        alts = [a for a in g.alts if a.rule == rname and not a.nested]
        if not alts or not all(a.action is not None and isinstance(a.action, ast.Tuple) for a in alts):
            continue
        width = {len(a.action.elts) for a in alts}
        if len(width) != 1:
            continue
        comps = [False] * width.pop()
        for a in alts:
            plus_items = _plus(a.alt, nonempty_rules)
            for i, e in enumerate(a.action.elts):
                comps[i] = comps[i] or not _nonempty(e, plus_items)
            # pairs of components of which at least one is non-empty in this alternative
            pairs = set()
            for i, ei in enumerate(a.action.elts):
                for j, ej in enumerate(a.action.elts):
                    if i != j and (_nonempty(ei, plus_items) or _nonempty(ej, plus_items) or _complementary(ei, ej, plus_items)):
                        pairs.add((i, j))
            exclusive[rname] = pairs if rname not in exclusive else (exclusive[rname] & pairs)
        maybe_empty[rname] = comps
    n = 0
    for a in g.alts:
        if a.action is None:
            continue
        from pegen import grammar as gr

        bound = {it.name: str(it.item) for it in a.alt.items if isinstance(it, gr.NamedItem) and it.name and str(it.item) in maybe_empty}
        if not bound:
            continue
        for node in ast.walk(a.action):
            if not (isinstance(node, ast.Subscript) and isinstance(node.slice, (ast.Constant, ast.UnaryOp)) and isinstance(node.value, ast.Subscript) and isinstance(node.value.value, ast.Name) and node.value.value.id in bound):
                continue
            idx = node.value.slice
            if not (isinstance(idx, ast.Constant) and isinstance(idx.value, int)):
                continue
            rname = bound[node.value.value.id]
            if idx.value >= len(maybe_empty[rname]) or not maybe_empty[rname][idx.value]:
                continue
            n += 1
            comp = unparse(node.value)
            shape_txt = " ".join(str(i) for i in a.alt.items)
            others = [f"{node.value.value.id}[{j}]" for (i_, j) in exclusive.get(rname, set()) if i_ == idx.value]
            if _guarded_in_action(a.action, node, comp, others):
                ctx.ok(R, GRAMFILE, f"{a.rule}: `{unparse(node)}` is guarded by a test of `{comp}`", qualname=a.rule)
            elif (a.rule, shape_txt, comp) in INDEX_OK:
                ctx.ok(R, GRAMFILE, f"{a.rule}: `{unparse(node)}` unguarded, frozen exception: {INDEX_OK[(a.rule, shape_txt, comp)]}", qualname=a.rule)
            else:
                ctx.finding(
                    R,
                    GRAMFILE,
                    f"{a.rule}: unguarded {unparse(node)} in `{shape_txt}`",
                    f"grammar rule {a.rule} (line ~{g.line_of_rule(a.rule)}), alternative `{shape_txt}`: the action evaluates `{unparse(node)}` although `{comp}` "
                    f"(component {idx.value} of `{rname}`) is empty for some inputs: the error path raises IndexError instead of the syntax error",
                    qualname=a.rule,
                )
    ctx.floor(R, n, 3, "indexed possibly-empty components in grammar actions")
    # (b) errors.py
    m = ctx.model.module("scenic.core.errors")
    nb = 0
    for q, fn in m.functions.items():
        params = {x.arg for x in fn.args.args + fn.args.kwonlyargs}
        for node in walk_local(fn):
            if not (isinstance(node, ast.Subscript) and isinstance(node.ctx, ast.Load)):
                continue
            if isinstance(node.slice, ast.Slice) or not (lib.names_loaded(node.slice) & params):
                continue
            nb += 1
            caught = False
            for anc in ancestors(node):
                if isinstance(anc, ast.Try) and any(x is node for b in anc.body for x in ast.walk(b)):
                    for h in anc.handlers:
                        ht = unparse(h.type) if h.type is not None else "BaseException"
                        if any(k in ht for k in ("IndexError", "LookupError", "Exception", "BaseException")):
                            caught = True
            guarded = any(unparse(node.value) in unparse(t) for t, p in lib.guard_tests(node, fn)) or any(isinstance(anc, ast.IfExp) and unparse(node.value) in unparse(anc.test) for anc in ancestors(node))
            if caught or guarded:
                ctx.ok(R, node, f"errors.{q}: `{unparse(node)}` cannot raise out of the error report")
            else:
                ctx.finding(R, node, f"errors.{q}: unguarded {norm_text(node, 50)}", f"scenic.core.errors.{q}: `{unparse(node)}` indexes by a value taken from the error being reported without a length check or an IndexError handler: an error located at the end of a file makes the report itself fail with IndexError")
    # next(it) without a default raises StopIteration when the error sits past the end of the file
    for q, fn in m.functions.items():
        for c in walk_local(fn):
            if isinstance(c, ast.Call) and dotted(c.func) == "next" and len(c.args) == 1 and not c.keywords:
                nb += 1
                caught = False
                for anc in ancestors(c):
                    if isinstance(anc, ast.Try) and any(x is c for b in anc.body for x in ast.walk(b)):
                        for h in anc.handlers:
                            ht = unparse(h.type) if h.type is not None else "BaseException"
                            if any(k in ht for k in ("StopIteration", "Exception", "BaseException")):
                                caught = True
                if caught:
                    ctx.ok(R, c, f"errors.{q}: `{unparse(c)}` is protected against an exhausted iterator")
                else:
                    ctx.finding(R, c, f"errors.{q}: unguarded {norm_text(c, 50)}", f"scenic.core.errors.{q}: `{unparse(c)}` has no default and no StopIteration handler: when the error is reported one line past the end of a file the report itself fails with StopIteration")
    ctx.note(f"errors.py: {nb} parameter-indexed subscripts / bare next() calls")


def _nonempty(e, plus_items):
    """the list expression e is certainly non-empty"""
    if isinstance(e, ast.Name):
        return e.id in plus_items
    if isinstance(e, ast.BinOp) and isinstance(e.op, ast.Add):
        return _nonempty(e.left, plus_items) or _nonempty(e.right, plus_items)
    if isinstance(e, ast.List):
        return bool(e.elts)
    return False


def _complementary(ei, ej, plus_items):
    """[e for e in S if P(e)] and [e for e in S if not P(e)] over a non-empty S: not both empty"""
    if not (isinstance(ei, ast.ListComp) and isinstance(ej, ast.ListComp)):
        return False
    gi, gj = ei.generators, ej.generators
    if len(gi) != 1 or len(gj) != 1 or len(gi[0].ifs) != 1 or len(gj[0].ifs) != 1:
        return False
    if unparse(gi[0].iter) != unparse(gj[0].iter) or not _nonempty(gi[0].iter, plus_items):
        return False
    if unparse(ei.elt) != unparse(gi[0].target) or unparse(ej.elt) != unparse(gj[0].target):
        return False
    a, b = gi[0].ifs[0], gj[0].ifs[0]
    neg = lambda t: t.operand if isinstance(t, ast.UnaryOp) and isinstance(t.op, ast.Not) else None
    return (neg(a) is not None and unparse(neg(a)) == unparse(b)) or (neg(b) is not None and unparse(neg(b)) == unparse(a))


def _guarded_in_action(action, node, comp, others=()):
    parents = {}
    for p in ast.walk(action):
        for c in ast.iter_child_nodes(p):
            parents[id(c)] = p
    cur = node
    while id(cur) in parents:
        par = parents[id(cur)]
        if isinstance(par, ast.IfExp) and comp in unparse(par.test) and (cur is par.body or cur is par.orelse):
            # body is taken when the test is true: `x[-1] if x else ...` or `... if len(x) > 1 else None`
            if cur is par.body or (isinstance(par.test, ast.UnaryOp) and isinstance(par.test.op, ast.Not)):
                return True
        if isinstance(par, ast.IfExp) and cur is par.orelse and unparse(par.test) in others:
            # `.. if v[j] else v[i][-1]`: v[j] is empty here, and v[i], v[j] are never both empty
            return True
        if isinstance(par, ast.BoolOp) and isinstance(par.op, ast.And):
            i = par.values.index(cur) if cur in par.values else -1
            if i > 0 and any(comp in unparse(v) for v in par.values[:i]):
                return True
        cur = par
    return False


def check(ctx):
    ctx.run(check_frontend_partial)
    ctx.run(check_shadowing)
    ctx.run(check_indexing)
    ctx.run(check_visitors)
    ctx.run(check_raises)
    ctx.run(check_tokeninfo)
    ctx.run(check_group_values)
    ctx.run(check_children)
    ctx.run(check_nullable_loops)
    ctx.run(check_deactivate)
    if ctx.tier == "thorough":
        ctx.run(check_reference)
