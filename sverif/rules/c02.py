"""C02 -- every generated scene satisfies all of its requirements.

Decided (structural necessary conditions):
  C02.skip      only optional / inactive requirements may be skipped by a SampleChecker
  C02.optional  which requirement classes may be optional (frozen: BlanketCollisionRequirement)
  C02.polarity  falsifiedByInner of the built-in requirements has the polarity of its predicate
  C02.coverage  generateDefaultRequirements creates the built-in requirements for all objects
  C02.oneshot   no one-shot iterator is consumed twice in scenarios.py / requirements.py (G5)
  C02.accept    the scene is assembled from the sample that passed the checker
"""

import ast

from .. import lib
from ..lib import tri_eval
from ..model import AnalysisError, ancestors, dotted, norm_text, parent, unparse, walk_local

SC = "scenic.core.sample_checking"
RQ = "scenic.core.requirements"
SN = "scenic.core.scenarios"

# Frozen: requirement classes that may default to optional, with the reason.
MAY_BE_OPTIONAL = {
    "BlanketCollisionRequirement": "surface-collision pre-check; every pair it covers also has a mandatory IntersectionRequirement",
}


def _req_derived_names(fn, model, ci):
    """Local names (and expressions) in fn holding (subsets of) the requirement list."""
    derived = set()
    params = [a.arg for a in fn.args.args]
    if "requirements" in params:
        derived.add("requirements")

    def is_req_expr(e):
        if isinstance(e, ast.Name):
            return e.id in derived
        if isinstance(e, ast.Attribute) and isinstance(e.value, ast.Name) and e.value.id == "self":
            return e.attr == "requirements"
        if isinstance(e, ast.Call):
            cn = dotted(e.func)
            if cn in ("list", "tuple", "sorted", "reversed", "iter", "enumerate") and e.args:
                return is_req_expr(e.args[0])
            if cn and cn.startswith("self.") and cn.count(".") == 1:
                found = model.find_method(ci, cn.split(".")[1])
                if found and _returns_requirements(found[1], model, ci):
                    return True
        if isinstance(e, (ast.ListComp, ast.GeneratorExp, ast.SetComp)):
            return is_req_expr(e.generators[0].iter)
        if isinstance(e, ast.Subscript) and isinstance(e.slice, ast.Slice):
            return is_req_expr(e.value)
        return False

    changed = True
    while changed:
        changed = False
        for n in walk_local(fn):
            if isinstance(n, ast.Assign) and len(n.targets) == 1 and isinstance(n.targets[0], ast.Name):
                if n.targets[0].id not in derived and is_req_expr(n.value):
                    derived.add(n.targets[0].id)
                    changed = True
    return derived, is_req_expr


_ret_cache = {}


def _returns_requirements(fn, model, ci):
    key = id(fn)
    if key in _ret_cache:
        return _ret_cache[key]
    _ret_cache[key] = False
    derived, is_req = _req_derived_names(fn, model, ci)
    res = any(r.value is not None and is_req(r.value) for r in lib.returns_of(fn))
    _ret_cache[key] = res
    return res


def _guards_env(node, stop, var, env):
    """Conjunction of guards of node (up to stop) evaluated under env; returns True/False/None."""
    vals = []
    for test, pol in lib.guard_tests(node, stop):
        v = tri_eval(test, env, {var: "$"} if var else None)
        if v is not None and not pol:
            v = not v
        vals.append(v)
    for test in lib.prior_exit_guards(lib.statement_of(node) if not isinstance(node, ast.stmt) else node, stop):
        v = tri_eval(test, env, {var: "$"} if var else None)
        vals.append(None if v is None else (not v))
    if any(v is False for v in vals):
        return False
    if all(v is True for v in vals):
        return True
    return None


def check_skip(ctx):
    R = "C02.skip"
    ctx.rule(
        R,
        "in every SampleChecker subclass each construct that drops or skips an element of the requirement list "
        "(filter, pop/remove/del/slice, continue/break/early return in the checking loop, non-append in a builder loop, "
        "guard in front of falsifiedBy) is evaluated three-valuedly under the assumption 'the element is active and not optional' "
        "and must then definitely not drop it",
    )
    model = ctx.model
    base = model.cls(SC, "SampleChecker")
    classes = model.subclasses(base)
    ctx.floor(R, len(classes), 3, "SampleChecker classes")
    n_sites = 0
    for ci in classes:
        for mname, fn in ci.methods.items():
            per_sample = mname != "setRequirements" and mname != "__init__"
            env = {"$.optional": False}
            if per_sample:
                env["$.active"] = True
            derived, is_req = _req_derived_names(fn, model, ci)
            # (1) filters in comprehensions over requirements
            for n in walk_local(fn):
                if isinstance(n, (ast.ListComp, ast.GeneratorExp, ast.SetComp)) and is_req(n.generators[0].iter):
                    st = lib.statement_of(n)
                    # only comprehensions whose value becomes a requirement list matter
                    feeds = isinstance(st, (ast.Assign, ast.Return)) and (
                        st.value is n
                        or (isinstance(st.value, ast.Call) and dotted(st.value.func) in ("list", "tuple", "sorted") and n in st.value.args)
                    )
                    if not feeds:
                        continue
                    g = n.generators[0]
                    if not (isinstance(n.elt, ast.Name) and isinstance(g.target, ast.Name) and n.elt.id == g.target.id):
                        continue
                    for t in g.ifs:
                        n_sites += 1
                        v = tri_eval(t, env, {g.target.id: "$"})
                        if v is True:
                            ctx.ok(R, n, f"filter `{unparse(t)}` keeps every active non-optional requirement")
                        else:
                            ctx.finding(
                                R,
                                n,
                                f"filter {norm_text(t)}",
                                f"{ci.name}.{mname}: filter `{unparse(t)}` over the requirement list can drop a requirement "
                                f"that is active and not optional (three-valued result: {v})",
                            )
                # (2) destructive operations on requirement lists
                if isinstance(n, ast.Call) and isinstance(n.func, ast.Attribute) and n.func.attr in ("pop", "remove", "clear", "popleft"):
                    if is_req(n.func.value):
                        n_sites += 1
                        lst = unparse(n.func.value)
                        if n.func.attr == "pop" and not n.args:
                            elem = f"{lst}[-1]"
                        elif n.func.attr == "pop" and isinstance(n.args[0], ast.Constant):
                            elem = f"{lst}[{n.args[0].value}]"
                        elif n.func.attr == "remove" and n.args:
                            elem = unparse(n.args[0])
                        else:
                            elem = None
                        e2 = {}
                        if elem:
                            e2[f"{elem}.optional"] = False
                            if per_sample:
                                e2[f"{elem}.active"] = True
                        g = _guards_env(n, fn, None, e2)
                        if g is False:
                            ctx.ok(R, n, f"`{unparse(n)}` is unreachable for an active non-optional element (guards evaluate to False)")
                        else:
                            ctx.finding(
                                R,
                                n,
                                f"drop {norm_text(n)}",
                                f"{ci.name}.{mname}: `{unparse(n)}` removes an element of the requirement list and is not "
                                f"guarded by a test of that element's .optional/.active (guards evaluate to {g})",
                            )
                if isinstance(n, ast.Delete):
                    for t in n.targets:
                        if isinstance(t, ast.Subscript) and is_req(t.value):
                            n_sites += 1
                            ctx.finding(R, n, f"drop {norm_text(n)}", f"{ci.name}.{mname}: `{unparse(n)}` deletes from the requirement list")
                if isinstance(n, ast.Subscript) and isinstance(n.slice, ast.Slice) and is_req(n.value) and isinstance(n.ctx, ast.Load):
                    s = n.slice
                    if s.lower is not None or s.upper is not None or s.step is not None:
                        n_sites += 1
                        ctx.finding(
                            R, n, f"slice {norm_text(n)}", f"{ci.name}.{mname}: slice `{unparse(n)}` of the requirement list drops elements regardless of .optional"
                        )
            # (3) loops over requirement lists
            for n in walk_local(fn):
                if not (isinstance(n, ast.For) and is_req(n.iter) and isinstance(n.target, ast.Name)):
                    continue
                var = n.target.id
                body_calls = [c for c in ast.walk(n) if isinstance(c, ast.Call) and isinstance(c.func, ast.Attribute)]
                fals = [c for c in body_calls if c.func.attr in ("falsifiedBy", "falsifiedByInner") and dotted(c.func.value) == var]
                appends = [
                    c
                    for c in body_calls
                    if c.func.attr in ("append", "add") and len(c.args) == 1 and dotted(c.args[0]) == var
                ]
                if fals:
                    # checking loop
                    n_sites += 1
                    res_vars = set()
                    for c in fals:
                        st = lib.statement_of(c)
                        if isinstance(st, ast.Assign) and st.value is c:
                            for t in st.targets:
                                if isinstance(t, ast.Name):
                                    res_vars.add(t.id)
                    okcall = False
                    for c in fals:
                        g = _guards_env(c, n, var, env)
                        # left operands of an enclosing `and`
                        p, child = parent(c), c
                        short = True
                        while p is not None and not isinstance(p, ast.stmt):
                            if isinstance(p, ast.BoolOp):
                                idx = [i for i, v in enumerate(p.values) if v is child or any(x is child for x in ast.walk(v))][0]
                                for left in p.values[:idx]:
                                    v = tri_eval(left, env, {var: "$"})
                                    if isinstance(p.op, ast.And) and v is not True:
                                        short = False
                                    if isinstance(p.op, ast.Or) and v is not False:
                                        short = False
                            child, p = p, parent(p)
                        if g is True and short:
                            okcall = True
                    if okcall:
                        ctx.ok(R, n, f"checking loop of {ci.name}.{mname} evaluates falsifiedBy for every active non-optional requirement")
                    else:
                        ctx.finding(
                            R,
                            n,
                            f"loop {norm_text(n)} falsifiedBy-guard",
                            f"{ci.name}.{mname}: falsifiedBy is not definitely evaluated for a requirement that is active and not optional",
                        )
                    for s in walk_local(n):
                        if isinstance(s, (ast.Continue, ast.Break)):
                            g = _guards_env(s, n, var, env)
                            inner_loop = any(isinstance(a, (ast.For, ast.While)) and a is not n for a in _anc_until(s, n))
                            if inner_loop:
                                continue
                            before_call = all(s.lineno < c.lineno for c in fals)
                            if isinstance(s, ast.Break) or before_call:
                                if g is False:
                                    ctx.ok(R, s, f"`{type(s).__name__.lower()}` unreachable for an active non-optional requirement")
                                else:
                                    ctx.finding(
                                        R,
                                        s,
                                        f"{type(s).__name__.lower()} in loop {norm_text(n)}",
                                        f"{ci.name}.{mname}: `{type(s).__name__.lower()}` in the checking loop can skip an active non-optional requirement (guards: {g})",
                                    )
                        if isinstance(s, ast.Return):
                            # a return inside the loop must report the violation found
                            tests = [t for t, pol in lib.guard_tests(s, n) if pol]
                            mentions = any(
                                any(
                                    (isinstance(x, ast.Call) and isinstance(x.func, ast.Attribute) and x.func.attr in ("falsifiedBy", "falsifiedByInner"))
                                    or (isinstance(x, ast.Name) and x.id in res_vars)
                                    for x in ast.walk(t)
                                )
                                for t in tests
                            )
                            isnone = s.value is None or (isinstance(s.value, ast.Constant) and s.value.value is None)
                            if mentions and not isnone:
                                ctx.ok(R, s, "return inside the checking loop is taken only when falsifiedBy held and returns the violation")
                            else:
                                ctx.finding(
                                    R,
                                    s,
                                    f"return in loop {norm_text(n)}: {norm_text(s)}",
                                    f"{ci.name}.{mname}: `{unparse(s)}` leaves the checking loop before all requirements were examined "
                                    f"without being conditioned on a falsified requirement",
                                )
                    # after the loop: the function must return None only after the loop
                elif appends:
                    n_sites += 1
                    good = False
                    for c in appends:
                        g = _guards_env(c, n, var, env)
                        if g is True:
                            good = True
                    if good:
                        ctx.ok(R, n, f"builder loop of {ci.name}.{mname} keeps every non-optional requirement")
                    else:
                        ctx.finding(
                            R,
                            n,
                            f"builder loop {norm_text(n)}",
                            f"{ci.name}.{mname}: no `append({var})` is definitely reached for a non-optional requirement",
                        )
    ctx.floor(R, n_sites, 5, "skip/drop sites in SampleChecker classes")
    # checkRequirements wrapper: must return the inner result / the rejection
    fn = model.func(SC, "SampleChecker.checkRequirements")
    rets = lib.returns_of(fn)
    inner = [r for r in rets if r.value is not None and "checkRequirementsInner" in unparse(r.value)]
    if inner and all(r.value is not None and not (isinstance(r.value, ast.Constant) and r.value.value is None) for r in rets):
        ctx.ok(R, fn, "checkRequirements returns checkRequirementsInner's verdict (or the RejectionException), never a constant None")
    else:
        ctx.finding(R, fn, "checkRequirements returns", "SampleChecker.checkRequirements can return None without consulting checkRequirementsInner")


def _anc_until(node, stop):
    for a in ancestors(node):
        if a is stop:
            return
        yield a


def check_optional(ctx):
    R = "C02.optional"
    ctx.rule(
        R,
        "every SamplingRequirement subclass passes optional=False (constant, or a parameter defaulting to False) to the base "
        "constructor unless it is in the frozen may-be-optional table; generateDefaultRequirements never passes optional=True "
        "for a mandatory class",
    )
    model = ctx.model
    base = model.cls(RQ, "SamplingRequirement")
    subs = model.subclasses(base, strict=True)
    ctx.floor(R, len(subs), 6, "SamplingRequirement subclasses")
    # base stores the flag unchanged and starts active
    init = base.methods.get("__init__")
    if init is None:
        raise AnalysisError("SamplingRequirement.__init__ missing")
    stores = {unparse(s) for s in init.body}
    if "self.optional = optional" in stores:
        ctx.ok(R, init, "SamplingRequirement stores `optional` unchanged")
    else:
        ctx.finding(R, init, "SamplingRequirement.__init__ optional", "SamplingRequirement.__init__ does not store the `optional` argument unchanged")
    for ci in subs:
        found = model.find_method(ci, "__init__")
        if found is None or found[0] is base:
            continue
        owner, fn = found
        if owner is not ci:
            continue
        supers = [
            c
            for c in ast.walk(fn)
            if isinstance(c, ast.Call) and isinstance(c.func, ast.Attribute) and c.func.attr == "__init__" and "super()" in unparse(c.func.value)
        ]
        if not supers:
            raise AnalysisError(f"shape not recognised: {ci.name}.__init__ has no super().__init__ call")
        for c in supers:
            v = lib.kw(c, "optional") or (c.args[0] if c.args else None)
            if v is None:
                ctx.finding(R, c, f"{ci.name} optional missing", f"{ci.name}.__init__ passes no `optional` to the base")
                continue
            default = None
            if isinstance(v, ast.Constant):
                default = v.value
            elif isinstance(v, ast.Name):
                a = fn.args
                names = [x.arg for x in a.args]
                if v.id in names:
                    i = names.index(v.id) - (len(names) - len(a.defaults))
                    if i >= 0 and isinstance(a.defaults[i], ast.Constant):
                        default = a.defaults[i].value
            allowed = ci.name in MAY_BE_OPTIONAL
            if default is False or (allowed and default in (True, False)):
                ctx.ok(R, c, f"{ci.name}: optional defaults to {default}" + (f" (allowed: {MAY_BE_OPTIONAL[ci.name]})" if allowed else ""))
            else:
                ctx.finding(
                    R,
                    c,
                    f"{ci.name} optional default {default}",
                    f"{ci.name} defaults to optional={default!r}: a SampleChecker may then legally skip this mandatory requirement",
                )
    # call sites
    gen = model.func(SN, "Scenario.generateDefaultRequirements")
    for c in ast.walk(gen):
        if isinstance(c, ast.Call) and isinstance(c.func, ast.Name) and c.func.id.endswith("Requirement"):
            v = lib.kw(c, "optional")
            if c.func.id in MAY_BE_OPTIONAL:
                continue
            if v is not None and not (isinstance(v, ast.Constant) and v.value is False):
                ctx.finding(R, c, f"{c.func.id}(optional=...)", f"generateDefaultRequirements creates {c.func.id} with optional={unparse(v)}")
            else:
                ctx.ok(R, c, f"{c.func.id} created mandatory")


def _parity_of(call, top):
    par = 0
    for a in ancestors(call):
        if isinstance(a, ast.UnaryOp) and isinstance(a.op, ast.Not):
            par += 1
        if a is top:
            break
    return par % 2


def check_polarity(ctx):
    R = "C02.polarity"
    ctx.rule(
        R,
        "falsifiedByInner of each built-in requirement returns its geometric predicate with the right polarity "
        "(intersects: as is; containsObject / canSee: negated; NonVisibility: negation of Visibility) and consults the sampled objects",
    )
    model = ctx.model
    table = [
        ("IntersectionRequirement", "intersects", 0),
        ("ContainmentRequirement", "containsObject", 1),
        ("VisibilityRequirement", "canSee", 1),
        ("NonVisibilityRequirement", "falsifiedByInner", 1),
    ]
    for cname, pred, parity in table:
        ci = model.cls(RQ, cname)
        fn = ci.methods.get("falsifiedByInner")
        if fn is None:
            raise AnalysisError(f"{cname}.falsifiedByInner missing")
        rets = lib.returns_of(fn)
        finals = [r for r in rets if r.value is not None and any(isinstance(c, ast.Call) and isinstance(c.func, ast.Attribute) and c.func.attr == pred for c in ast.walk(r.value))]
        if not finals:
            ctx.finding(R, fn, f"{cname} predicate {pred}", f"{cname}.falsifiedByInner no longer returns a value computed from `{pred}`")
            continue
        for r in finals:
            for c in ast.walk(r.value):
                if isinstance(c, ast.Call) and isinstance(c.func, ast.Attribute) and c.func.attr == pred:
                    p = _parity_of(c, r)
                    if p == parity:
                        ctx.ok(R, r, f"{cname}: falsified ⇔ {'not ' if parity else ''}{pred}(...)")
                    else:
                        ctx.finding(R, r, f"{cname} polarity of {pred}", f"{cname}.falsifiedByInner returns `{unparse(r.value)}`: polarity of `{pred}` is inverted")
        # other returns must be constant False only under an allowCollisions guard
        for r in rets:
            if r in finals:
                continue
            if isinstance(r.value, ast.Constant) and r.value.value is False:
                tests = [unparse(t) for t, pol in lib.guard_tests(r, fn) if pol]
                if cname == "IntersectionRequirement" and tests and all("allowCollisions" in t for t in tests):
                    # must be `A.allowCollisions or B.allowCollisions` over the *sampled* objects
                    ctx.ok(R, r, "early `return False` only when an object allows collisions")
                    continue
            ctx.finding(R, r, f"{cname} extra return {norm_text(r)}", f"{cname}.falsifiedByInner has an unrecognised early `{unparse(r)}`")
        # sampled objects: predicate receivers must be looked up through `sample[...]`
        sampled = set()
        for n in walk_local(fn):
            if isinstance(n, ast.Assign) and len(n.targets) == 1 and isinstance(n.targets[0], ast.Name):
                if "sample[" in unparse(n.value) or "sample" in lib.names_loaded(n.value) or any(x in sampled for x in lib.names_loaded(n.value)):
                    sampled.add(n.targets[0].id)
        for r in finals:
            for c in ast.walk(r.value):
                if isinstance(c, ast.Call) and isinstance(c.func, ast.Attribute) and c.func.attr == pred and pred != "falsifiedByInner":
                    # an operand is sampled when it is a local bound to a lookup in `sample`, or such a lookup itself
                    sample_par = fn.args.args[1].arg if len(fn.args.args) >= 2 else "sample"

                    def is_sampled(e):
                        if isinstance(e, ast.Name):
                            return e.id in sampled
                        return isinstance(e, ast.Subscript) and isinstance(e.value, ast.Name) and (e.value.id == sample_par or e.value.id in sampled)

                    if is_sampled(c.func.value) and all(is_sampled(a) for a in c.args):
                        ctx.ok(R, c, f"{cname}: `{pred}` is applied to the sampled objects")
                    else:
                        ctx.finding(R, c, f"{cname} unsampled operands of {pred}", f"{cname}: `{unparse(c)}` does not use the sampled versions of its operands")
    # falsifiedBy wrapper forwards
    base = model.cls(RQ, "SamplingRequirement")
    fb = base.methods.get("falsifiedBy")
    if fb is None or not any("self.falsifiedByInner(sample)" == unparse(r.value) for r in lib.returns_of(fb) if r.value is not None):
        ctx.finding(R, fb or base.node, "falsifiedBy forwards", "SamplingRequirement.falsifiedBy does not return falsifiedByInner(sample)")
    else:
        ctx.ok(R, fb, "falsifiedBy returns falsifiedByInner(sample)")


def check_coverage(ctx):
    R = "C02.coverage"
    ctx.rule(
        R,
        "generateDefaultRequirements: IntersectionRequirement for every 2-combination of the objects filtered only by allowCollisions; "
        "ContainmentRequirement for every object guarded only by 'container is not AllRegion'; (Non)VisibilityRequirement for every "
        "instance with a (non-)observing entity and every requireVisible object; occluder lists derive from self.objects filtered at most by `occluding`",
    )
    model = ctx.model
    fn = model.func(SN, "Scenario.generateDefaultRequirements")
    loops = [n for n in walk_local(fn) if isinstance(n, ast.For)]

    def creations(loop, cls):
        return [c for c in ast.walk(loop) if isinstance(c, ast.Call) and isinstance(c.func, ast.Name) and c.func.id == cls]

    # --- intersection
    done = False
    for lp in loops:
        cr = creations(lp, "IntersectionRequirement")
        if not cr:
            continue
        done = True
        it = lp.iter
        if not (isinstance(it, ast.Call) and dotted(it.func) in ("itertools.combinations", "combinations") and len(it.args) == 2 and lib.const(it.args[1]) == 2):
            ctx.finding(R, lp, "IntersectionRequirement loop", f"IntersectionRequirement loop iterates `{unparse(it)}`, not all 2-combinations")
            continue
        src, var, tests = lib.iter_source(fn, it.args[0])
        if unparse(src) != "self.objects":
            ctx.finding(R, lp, "IntersectionRequirement source", f"pairs are drawn from `{unparse(src)}`, not self.objects")
            continue
        bad = False
        for t in tests:
            e1 = tri_eval(t, {"$.allowCollisions": False}, {var: "$"})
            e2 = tri_eval(t, {"needsSampling($.allowCollisions)": True}, {var: "$"})
            if e1 is not True or e2 is not True:
                bad = True
                ctx.finding(
                    R,
                    t,
                    f"IntersectionRequirement filter {norm_text(t)}",
                    f"filter `{unparse(t)}` can exclude an object that does not (or only randomly) allow collisions from the pairwise intersection checks",
                )
        # the pair must be used as is
        tgt = lp.target
        names = [n.id for n in ast.walk(tgt) if isinstance(n, ast.Name)]
        for c in cr:
            args = [dotted(a) for a in c.args[:2]]
            g = _guards_env(c, lp, None, {})
            if sorted(args) != sorted(names) or g is not True:
                bad = True
                ctx.finding(R, c, "IntersectionRequirement args", f"`{unparse(c)}` is conditional or does not take the loop's pair {names}")
        if not bad:
            ctx.ok(R, lp, "IntersectionRequirement for every pair of objects that may not collide")
    if not done:
        ctx.finding(R, fn, "IntersectionRequirement missing", "no IntersectionRequirement is created")
    # --- containment
    done = False
    for lp in loops:
        cr = creations(lp, "ContainmentRequirement")
        if not cr:
            continue
        done = True
        src, var, tests = lib.iter_source(fn, lp.iter)
        v = lp.target.id if isinstance(lp.target, ast.Name) else None
        bad = False
        if unparse(src) != "self.objects" or tests:
            bad = True
            ctx.finding(R, lp, "ContainmentRequirement source", f"containment loop iterates `{unparse(lp.iter)}` (filters: {[unparse(t) for t in tests]}), not all of self.objects")
        for c in cr:
            cont = None
            if len(c.args) >= 2:
                cont = c.args[1]
            contv = lib.local_value_in(lp, dotted(cont)) if isinstance(cont, ast.Name) else cont
            if not (contv is not None and unparse(contv) == f"self.containerOfObject({v})" and dotted(c.args[0]) == v):
                bad = True
                ctx.finding(R, c, "ContainmentRequirement args", f"`{unparse(c)}` does not pair the object with self.containerOfObject(obj)")
            gts = lib.guard_tests(c, lp)
            for t, pol in gts:
                txt = unparse(t)
                if not (pol and txt == f"not isinstance({dotted(cont)}, AllRegion)") and not (not pol and txt == f"isinstance({dotted(cont)}, AllRegion)"):
                    bad = True
                    ctx.finding(R, t, f"ContainmentRequirement guard {norm_text(t)}", f"containment requirement is created only under `{txt}`")
            for s in walk_local(lp):
                if isinstance(s, (ast.Continue, ast.Break)):
                    bad = True
                    ctx.finding(R, s, "ContainmentRequirement loop exit", f"`{type(s).__name__.lower()}` in the containment loop")
        if not bad:
            ctx.ok(R, lp, "ContainmentRequirement for every object whose container is not AllRegion")
    if not done:
        ctx.finding(R, fn, "ContainmentRequirement missing", "no ContainmentRequirement is created")
    # --- visibility
    vis = []
    for lp in loops:
        for cls in ("VisibilityRequirement", "NonVisibilityRequirement"):
            for c in creations(lp, cls):
                vis.append((lp, cls, c))
    kinds = set()
    for lp, cls, c in vis:
        src, var, tests = lib.iter_source(fn, lp.iter)
        v = lp.target.id if isinstance(lp.target, ast.Name) else None
        a0, a1 = (unparse(c.args[0]), unparse(c.args[1])) if len(c.args) >= 2 else (None, None)
        ttxt = [unparse(lib._Rename({var: "$"}).visit(ast.parse(unparse(t), mode="eval").body)) if var else unparse(t) for t in tests]
        if a0 == f"{v}._observingEntity" and cls == "VisibilityRequirement":
            kind, want_src, want_tests = "observing", "self._instances", ["$._observingEntity is not None"]
        elif a0 == f"{v}._nonObservingEntity" and cls == "NonVisibilityRequirement":
            kind, want_src, want_tests = "nonobserving", "self._instances", ["$._nonObservingEntity is not None"]
        elif a0 == "self.egoObject" and cls == "VisibilityRequirement":
            kind, want_src, want_tests = "requireVisible", "self.objects", ["$.requireVisible and $ is not self.egoObject"]
        else:
            ctx.finding(R, c, f"visibility creation {norm_text(c)}", f"unrecognised visibility requirement `{unparse(c)}`")
            continue
        kinds.add(kind)
        ok = a1 == v and unparse(src) == want_src
        if kind == "requireVisible":
            for t in tests:
                e = tri_eval(t, {"$.requireVisible": True, "$ is not self.egoObject": True}, {var: "$"})
                if e is not True:
                    ok = False
        else:
            ok = ok and ttxt == want_tests
        # nothing may skip the creation for some instances: no enclosing test inside the loop, no continue / break / return
        # (a guard that raises rejects the whole scenario and skips nothing)
        for t, pol in lib.enclosing_tests(c, lp):
            ok = False
        for s_ in walk_local(lp):
            if isinstance(s_, (ast.Continue, ast.Break, ast.Return)):
                ok = False
        if ok:
            ctx.ok(R, c, f"{cls} created for every {kind} instance")
        else:
            ctx.finding(R, c, f"visibility coverage {kind}", f"`{unparse(c)}` in loop over `{unparse(lp.iter)}` does not cover every {kind} instance (source {unparse(src)}, filters {ttxt})")
        # occluders
        if len(c.args) >= 3:
            osrc, ovar, otests = lib.iter_source(fn, c.args[2])
            good = unparse(osrc) == "self.objects"
            for t in otests:
                e1 = tri_eval(t, {"$.occluding": True}, {ovar: "$"})
                e2 = tri_eval(t, {"needsSampling($.occluding)": True}, {ovar: "$"})
                if e1 is not True or e2 is not True:
                    good = False
            if good:
                ctx.ok(R, c, "occluder candidates derive from self.objects filtered at most by `occluding`")
            else:
                ctx.finding(R, c, f"occluders of {kind}", f"occluder argument `{unparse(c.args[2])}` drops objects that may occlude")
    for k in ("observing", "nonobserving", "requireVisible"):
        if k not in kinds:
            ctx.finding(R, fn, f"visibility kind {k} missing", f"no requirement is created for {k} instances")
    # the result must contain every appended requirement
    rets = lib.returns_of(fn)
    # the accumulator is identified by its role: the receiver of `.append(<SomethingRequirement>(...))`
    accs, loose = set(), []
    for c in walk_local(fn):
        if isinstance(c, ast.Call) and isinstance(c.func, ast.Name) and c.func.id.endswith("Requirement"):
            # appended where it is created, or bound to a local that is appended
            apps = [pa for pa in lib.consuming_calls(fn, c) if isinstance(pa.func, ast.Attribute) and pa.func.attr == "append" and isinstance(pa.func.value, ast.Name)]
            if apps:
                accs.update(pa.func.value.id for pa in apps)
            else:
                loose.append(c)
    for c in loose:
        ctx.finding(R, c, f"requirement not collected {norm_text(c)}", f"`{unparse(c)}` is created but not appended to the list that is returned")
    if len(accs) == 1 and len(rets) == 1:
        acc = next(iter(accs))
        if unparse(rets[0].value) in (f"tuple({acc})", acc, f"list({acc})"):
            ctx.ok(R, rets[0], "all created requirements are returned")
        else:
            ctx.finding(R, fn, "generateDefaultRequirements return", "generateDefaultRequirements does not return the complete list it built")
    else:
        ctx.finding(R, fn, "generateDefaultRequirements return", "generateDefaultRequirements does not return the complete list it built")


def check_oneshot(ctx):
    R = "C02.oneshot"
    ctx.rule(R, "G5: a name bound to a one-shot iterator (filter/map/zip/generator) is not consumed at two program points or inside a loop")
    model = ctx.model
    n_iter = 0
    for modname in (SN, RQ, SC):
        m = model.module(modname)
        for q, fn in m.functions.items():
            res = lib.one_shot_reuse(fn)
            for name, bind, uses, why in res:
                ctx.finding(
                    R,
                    bind,
                    f"one-shot {name}",
                    f"`{name}` is bound to a one-shot iterator (`{norm_text(bind.value, 60)}`) and {why} "
                    f"(lines {sorted({u.lineno for u in uses})}); later consumers see it exhausted",
                )
            for n in walk_local(fn):
                if isinstance(n, ast.Assign) and isinstance(n.value, (ast.GeneratorExp,)) or (
                    isinstance(n, ast.Assign) and isinstance(n.value, ast.Call) and dotted(n.value.func) in lib.ONE_SHOT
                ):
                    n_iter += 1
                    if not any(b is n for _, b, _, _ in res):
                        ctx.ok(R, n, f"one-shot iterator `{norm_text(n.targets[0])}` is consumed once")
    ctx.floor(R, n_iter, 1, "one-shot iterator bindings examined")
    # positive control
    ctl = ast.parse("def f(xs):\n    it = filter(None, xs)\n    for a in xs:\n        g(it)\n").body[0]
    _link(ctl)
    if not lib.one_shot_reuse(ctl):
        raise AnalysisError("positive control for G5 did not fire")


def _link(tree):
    for n in ast.walk(tree):
        for c in ast.iter_child_nodes(n):
            c._parent = n
    tree._parent = None


def check_accept(ctx):
    R = "C02.accept"
    ctx.rule(
        R,
        "Scenario._generateInner: the loop exits only when the checker's verdict on the current sample is None, and the scene is "
        "built from that same `sample` variable",
    )
    from .c01 import rejection_loop_shape

    rejection_loop_shape(ctx, R)


def check(ctx):
    ctx.run(check_skip)
    ctx.run(check_optional)
    ctx.run(check_polarity)
    ctx.run(check_coverage)
    ctx.run(check_oneshot)
    ctx.run(check_accept)
    # a requirement holds in the scene only if the predicate it evaluates is right: the structural conditions on the
    # collision / containment shortcuts (C04) and on the visibility predicate (C17) are necessary conditions here too
    from . import c04, c17

    ctx.run(c04.check_polarity, R="C02.pred.polarity")
    ctx.run(c04.check_fallthrough, R="C02.pred.exhaustive")
    ctx.run(c04.check_planar, R="C02.pred.planar")
    ctx.run(c04.check_computed, R="C02.pred.computed")
    ctx.run(c04.check_transforms, R="C02.pred.transform")
    from .c03 import check_cache

    ctx.run(check_cache, R="C02.pred.cache")
    ctx.run(c17.check_occluders, R="C02.pred.occluders")
    ctx.run(c17.check_plumbing, R="C02.pred.plumbing")
    ctx.run(c17.check_wrappers, R="C02.pred.wrappers")
    ctx.run(c17.check_frames, R="C02.pred.frames")
    from . import c16

    ctx.run(c16.check_algebra, R="C02.pred.algebra")
