"""C15 -- same program, options and seed give identical scenes and runs (structural part)."""

import ast

from .. import lib
from ..model import AnalysisError, ClassInfo, ancestors, dotted, norm_text, parent, unparse, walk_local

SN = "scenic.core.scenarios"
DS = "scenic.core.dynamics.scenarios"
RQ = "scenic.core.requirements"

ORDERED, UNORDERED, UNKNOWN = "ORDERED", "UNORDERED", "UNKNOWN"


class Order:
    """Is the iteration order of a value fixed by the program text (ORDERED) or by hashing / memory layout (UNORDERED)?"""

    def __init__(self, model):
        self.model = model
        self.trace = []

    def join(self, vals):
        vals = list(vals)
        if any(v == UNORDERED for v in vals):
            return UNORDERED
        if vals and all(v == ORDERED for v in vals):
            return ORDERED
        return UNKNOWN if vals else ORDERED

    def of(self, e, fn, ci, depth=0, seen=None):
        seen = seen or set()
        if depth > 12:
            return UNKNOWN
        if isinstance(e, (ast.Set, ast.SetComp)):
            self.trace.append(f"set display/comprehension `{norm_text(e, 40)}`")
            return UNORDERED
        if isinstance(e, (ast.List, ast.Tuple, ast.Dict, ast.Constant, ast.JoinedStr)):
            return ORDERED
        if isinstance(e, (ast.ListComp, ast.GeneratorExp, ast.DictComp)):
            return self.of(e.generators[0].iter, fn, ci, depth + 1, seen)
        if isinstance(e, ast.Starred):
            return self.of(e.value, fn, ci, depth + 1, seen)
        if isinstance(e, ast.BinOp) and isinstance(e.op, (ast.Add, ast.BitOr, ast.Sub, ast.BitAnd, ast.BitXor)):
            return self.join([self.of(e.left, fn, ci, depth + 1, seen), self.of(e.right, fn, ci, depth + 1, seen)])
        if isinstance(e, ast.Call):
            cn = dotted(e.func) or ""
            if cn in ("set", "frozenset"):
                self.trace.append(f"`{norm_text(e, 40)}`")
                return UNORDERED
            if cn in ("sorted",):
                return ORDERED
            if cn in ("tuple", "list", "reversed", "iter", "enumerate") and e.args:
                return self.of(e.args[0], fn, ci, depth + 1, seen)
            if cn in ("dict", "list", "tuple") and not e.args:
                return ORDERED
            if cn in ("dict.fromkeys",) and e.args:
                return self.of(e.args[0], fn, ci, depth + 1, seen)
            if cn in ("itertools.chain",):
                return self.join(self.of(a, fn, ci, depth + 1, seen) for a in e.args)
            if isinstance(e.func, ast.Attribute) and e.func.attr in ("values", "keys", "items", "copy"):
                return self.of(e.func.value, fn, ci, depth + 1, seen)
            if isinstance(e.func, ast.Attribute) and e.func.attr in ("difference", "union", "intersection", "symmetric_difference"):
                self.trace.append(f"`{norm_text(e, 40)}` (set API)")
                return UNORDERED
            return UNKNOWN
        if isinstance(e, ast.Name):
            key = ("n", id(fn), e.id)
            if key in seen:
                return ORDERED
            seen = seen | {key}
            vals = []
            params = {a.arg for a in fn.args.args + fn.args.kwonlyargs} if fn is not None else set()
            for n in ast.walk(fn) if fn is not None else []:
                if isinstance(n, ast.Assign) and any(isinstance(t, ast.Name) and t.id == e.id for t in n.targets):
                    vals.append(self.of(n.value, fn, ci, depth + 1, seen))
                if isinstance(n, ast.Call) and isinstance(n.func, ast.Attribute) and isinstance(n.func.value, ast.Name) and n.func.value.id == e.id:
                    if n.func.attr in ("append", "insert") and n.args:
                        # elements arrive in the order of the enclosing loops
                        for lp in [a for a in ancestors(n) if isinstance(a, ast.For)]:
                            if lp is fn:
                                break
                            vals.append(self.of(lp.iter, fn, ci, depth + 1, seen))
                    if n.func.attr in ("update", "extend") and n.args:
                        vals.append(self.of(n.args[0], fn, ci, depth + 1, seen))
                    if n.func.attr in ("add", "discard"):
                        self.trace.append(f"`{e.id}.{n.func.attr}(...)` (set API)")
                        vals.append(UNORDERED)
            if e.id in params and not vals:
                return self.param(e.id, fn, ci, depth, seen)
            return self.join(vals) if vals else UNKNOWN
        if isinstance(e, ast.Attribute) and isinstance(e.value, ast.Name) and e.value.id == "self" and ci is not None:
            return self.attr(ci, e.attr, depth, seen)
        if isinstance(e, ast.Attribute) and isinstance(e.value, ast.Name) and ci is not None:
            # attribute of another object: look for a class in the repo that assigns it from a constructor parameter
            owners = [c for c in self.model.classes.values() if c.module.path.startswith("src/scenic/core/") and "__init__" in c.methods and any(
                isinstance(n, ast.Assign) and any(unparse(t) == f"self.{e.attr}" for t in n.targets) for n in ast.walk(c.methods["__init__"]))]
            if owners:
                return self.join(self.attr(o, e.attr, depth, seen) for o in owners)
        return UNKNOWN

    def attr(self, ci, name, depth, seen):
        key = ("a", ci.fq, name)
        if key in seen:
            return ORDERED
        seen = seen | {key}
        vals = []
        for c in self.model.mro(ci):
            for mname, f in c.methods.items():
                for n in ast.walk(f):
                    if isinstance(n, ast.Assign) and any(unparse(t) == f"self.{name}" for t in n.targets):
                        vals.append(self.of(n.value, f, c, depth + 1, seen))
                    if isinstance(n, ast.AugAssign) and unparse(n.target) == f"self.{name}" and isinstance(n.op, (ast.Add, ast.BitOr)):
                        vals.append(self.of(n.value, f, c, depth + 1, seen))
                    if isinstance(n, ast.Call) and isinstance(n.func, ast.Attribute) and unparse(n.func.value) == f"self.{name}":
                        if n.func.attr in ("append", "insert") and n.args:
                            # elements arrive in the order of the enclosing loops
                            for lp in [a for a in ancestors(n) if isinstance(a, ast.For)]:
                                if lp is f:
                                    break
                                vals.append(self.of(lp.iter, f, c, depth + 1, seen))
                        if n.func.attr in ("update", "extend") and n.args:
                            vals.append(self.of(n.args[0], f, c, depth + 1, seen))
                        if n.func.attr in ("add", "discard"):
                            self.trace.append(f"`self.{name}.{n.func.attr}(...)` in {c.name}.{mname} (set API)")
                            vals.append(UNORDERED)
        if vals:
            r = self.join(vals)
            if r == UNORDERED:
                self.trace.append(f"{ci.name}.{name}")
            return r
        return UNKNOWN

    def param(self, pname, fn, ci, depth, seen):
        """Follow a constructor parameter to its call sites."""
        if ci is None or fn.name != "__init__":
            return UNKNOWN
        vals = []
        sig = lib.signature(fn, bound=True)
        for m in self.model.modules.values():
            if not m.path.startswith("src/scenic/core/"):
                continue
            for q, f in m.functions.items():
                for c in ast.walk(f):
                    if isinstance(c, ast.Call) and isinstance(c.func, ast.Name) and c.func.id == ci.name:
                        owner_cls = None
                        cn = lib.enclosing_class(f)
                        if cn is not None:
                            owner_cls = self.model.classes.get(f"{m.name}.{cn._qualname}")
                        arg = None
                        if pname in sig["pos"]:
                            i = sig["pos"].index(pname)
                            if i < len(c.args):
                                arg = c.args[i]
                        for k in c.keywords:
                            if k.arg == pname:
                                arg = k.value
                        if arg is not None:
                            r = self.of(arg, f, owner_cls, depth + 1, seen)
                            if r == UNORDERED:
                                self.trace.append(f"argument `{unparse(arg)}` of {ci.name}(...) in {q}")
                            vals.append(r)
        return self.join(vals) if vals else UNKNOWN


def check_order(ctx, R="C15.order"):
    ctx.rule(
        R,
        "G6 unordered -> ordered taint: the sampling order (Scenario.dependencies, the argument of Samplable.sampleAll) must not be derived "
        "from a collection whose iteration order depends on hashing / object addresses (set, frozenset, set comprehension, `.add` API), "
        "followed inter-procedurally through attributes, constructor parameters and .update(...) calls",
    )
    model = ctx.model
    sc = model.cls(SN, "Scenario")
    init = sc.methods["__init__"]
    asg = [n for n in walk_local(init) if isinstance(n, ast.Assign) and any(unparse(t) == "self.dependencies" for t in n.targets)]
    if len(asg) != 1:
        raise AnalysisError("shape not recognised: Scenario.dependencies assignment")
    val = asg[0].value
    parts = []

    def flat(e):
        if isinstance(e, ast.BinOp) and isinstance(e.op, ast.Add):
            flat(e.left)
            flat(e.right)
        else:
            parts.append(e)

    flat(val)
    ctx.floor(R, len(parts), 3, "components of Scenario.dependencies")
    for p in parts:
        o = Order(model)
        r = o.of(p, init, sc)
        if r == UNORDERED:
            chain = " <- ".join(dict.fromkeys(o.trace))
            ctx.finding(
                R,
                p,
                f"Scenario.dependencies component {norm_text(p, 40)} unordered",
                f"Scenario.dependencies (the order in which random values are sampled) includes `{unparse(p)}`, whose order comes from a hash-ordered "
                f"collection: {chain}; with the same seed, values are drawn in a different order in another process (PYTHONHASHSEED / address layout), giving different scenes",
            )
        else:
            ctx.ok(R, p, f"component `{norm_text(p, 50)}` of Scenario.dependencies has a program-defined order ({r})")
    # sampleAll is fed the fixed tuple
    gi = model.func(SN, "Scenario._generateInner")
    calls = [c for c in ast.walk(gi) if isinstance(c, ast.Call) and dotted(c.func) == "Samplable.sampleAll"]
    if calls and all(unparse(c.args[0]) == "self.dependencies" for c in calls):
        ctx.ok(R, calls[0], "sampleAll is given self.dependencies (a tuple built once)")
    else:
        ctx.finding(R, gi, "sampleAll argument", "Samplable.sampleAll is no longer called with self.dependencies")
    # LazilyEvaluable keeps dependencies in given order
    le = model.func("scenic.core.lazy_eval", "LazilyEvaluable.__init__")
    if "self._dependencies = tuple(dependencies)" in unparse(le):  # `dependencies` is a keyword-visible parameter
        ctx.ok(R, le, "a value's own dependencies keep the order in which its constructor listed them")
    else:
        ctx.finding(R, le, "LazilyEvaluable dependencies order", "LazilyEvaluable.__init__ no longer stores `tuple(dependencies)` in the given order")
    sm = model.func("scenic.core.distributions", "Samplable.__init__")
    # the collection handed to LazilyEvaluable.__init__ (super().__init__(<deps>, ...)), whatever the local is called
    sup = [c for c in walk_local(sm) if isinstance(c, ast.Call) and unparse(c.func) == "super().__init__"]
    dname = None
    if sup:
        # bind the call to LazilyEvaluable.__init__(self, requiredProps, dependencies=())
        lparams = [a.arg for a in le.args.args][1:]
        di = lparams.index("dependencies") if "dependencies" in lparams else None
        darg = lib.kw(sup[0], "dependencies") or (sup[0].args[di] if di is not None and di < len(sup[0].args) else None)
        dname = darg.id if isinstance(darg, ast.Name) else None
    deps_defs = [n for n in walk_local(sm) if isinstance(n, ast.Assign) and unparse(n.targets[0]) == dname]
    if deps_defs and all(isinstance(d.value, ast.List) or (isinstance(d.value, ast.Call) and dotted(d.value.func) in ("list", "tuple")) for d in deps_defs):
        ctx.ok(R, sm, "Samplable collects its lazy dependencies in a list (ordered)")
    else:
        ctx.finding(R, sm, "Samplable deps container", "Samplable.__init__ no longer collects dependencies in a list")
    # positive control
    o = Order(model)
    t = ast.parse("def __init__(self):\n    d = set()\n    d.add(1)\n    self.x = tuple(d)\n").body[0]
    if o.of(t.body[2].value, t, None) != UNORDERED:
        raise AnalysisError("positive control for C15.order did not fire")


def check_rng_bracket(ctx, R="C15.rng"):
    ctx.rule(
        R,
        "RNG bracket: in Scenario._generateInner the states of both `random` and `numpy.random` are saved immediately before "
        "checker.checkRequirements(sample) and restored immediately after it, on the same path, so randomness consumed by requirement "
        "checking (ray casting, mesh sampling) does not perturb the user-visible stream",
    )
    model = ctx.model
    fn = model.func(SN, "Scenario._generateInner")
    chk = [n for n in ast.walk(fn) if isinstance(n, ast.Assign) and isinstance(n.value, ast.Call) and isinstance(n.value.func, ast.Attribute) and n.value.func.attr == "checkRequirements"]
    if len(chk) != 1:
        raise AnalysisError("shape not recognised: checkRequirements call in _generateInner")
    st = chk[0]
    blk = parent(st).body if hasattr(parent(st), "body") else []
    i = next((k for k, s in enumerate(blk) if s is st), None)
    if i is None or i == 0:
        raise AnalysisError("shape not recognised: statement block around checkRequirements")
    before = blk[i - 1]
    saved = {}
    if isinstance(before, ast.Assign):
        tg = before.targets[0]
        if isinstance(tg, ast.Tuple) and isinstance(before.value, ast.Tuple):
            for a, b in zip(tg.elts, before.value.elts):
                saved[unparse(b)] = unparse(a)
        else:
            saved[unparse(before.value)] = unparse(tg)
    # allow two separate save statements
    if i >= 2 and isinstance(blk[i - 2], ast.Assign) and len(saved) < 2:
        saved[unparse(blk[i - 2].value)] = unparse(blk[i - 2].targets[0])
    after = [unparse(s) for s in blk[i + 1 : i + 3]]
    ok_py = "random.getstate()" in saved and f"random.setstate({saved.get('random.getstate()')})" in after
    ok_np = "numpy.random.get_state()" in saved and f"numpy.random.set_state({saved.get('numpy.random.get_state()')})" in after
    if ok_py and ok_np:
        ctx.ok(R, st, "random and numpy.random states are saved right before and restored right after the requirement check")
    else:
        ctx.finding(
            R,
            st,
            "RNG bracket around checkRequirements",
            f"the requirement check is not bracketed by save/restore of both generators (python random ok={ok_py}, numpy ok={ok_np}): internal sampling during "
            f"checks shifts the user-visible random stream, so results depend on which checks ran",
        )


# Collections whose iteration order decides in which order properties are resolved / values are sampled.
ORDER_SINKS = [
    ("scenic.core.specifiers", "Specifier.__init__", "self.requiredProperties", "the dependency DFS of _resolveSpecifiers visits them in this order, which fixes the order in which random property values are drawn"),
    ("scenic.core.lazy_eval", "LazilyEvaluable.__init__", "self._requiredProperties", "dependencies of lazily evaluated values are visited in this order"),
    ("scenic.core.lazy_eval", "LazilyEvaluable.__init__", "self._dependencies", "a value's dependencies are sampled in this order"),
]

# attributes (all writers of the class are followed) whose element order is observable
ORDER_SINK_ATTRS = [
    ("scenic.core.simulators", "Simulation", "agents", "the default schedule runs the agents' behaviours, and so their random draws and actions, in this order"),
]

# local collections whose element order is observable
ORDER_SINK_LOCALS = [
    ("scenic.core.object_types", "Constructible._resolveSpecifiers", "specifiers", "the specifiers (the written ones, then the defaults) are evaluated in this order wherever their dependencies allow, which fixes the order of the random draws of their values"),
]

# Functions that may draw from the GLOBAL generators (the user-visible random stream).
GLOBAL_RNG_OK = {"sampleGiven", "uniformPointInner", "genericSampler", "sampler", "appliedTo", "_generateInner"}
GLOBAL_RNG_FROZEN = {
    "MeshVolumeRegion.containsObject": "draws candidate points with trimesh.sample.volume_mesh; during scene generation the checker's save/restore bracket (C15.rng) undoes it",
}


def check_sinks(ctx, R="C15.sinks"):
    ctx.rule(
        R,
        "(a) order sinks: the collections that fix the order in which properties are resolved and values sampled (Specifier.requiredProperties, "
        "LazilyEvaluable._requiredProperties / _dependencies) are built in a program-defined order (sorted / tuple of an ordered value), never "
        "left as a set; (b) who may draw from the global generators: random.* / numpy.random.* / trimesh.sample.* are called only by the "
        "sampling functions (sampleGiven, uniformPointInner, samplers, mutators, the rejection loop); everything else (visibility, geometry "
        "predicates, pruning) must use a private, constant-seeded generator, because it also runs outside the checker's save/restore bracket",
    )
    model = ctx.model
    n = 0
    for mod, q, attr, why in ORDER_SINKS:
        fn = model.func(mod, q)
        ci = model.cls(mod, q.split(".")[0])
        asg = [a for a in walk_local(fn) if isinstance(a, ast.Assign) and any(unparse(t) == attr for t in a.targets)]
        if not asg:
            raise AnalysisError(f"shape not recognised: {q} no longer assigns {attr}")
        for a in asg:
            n += 1
            o = Order(model)
            r = o.of(a.value, fn, ci)
            if r == UNORDERED:
                ctx.finding(
                    R,
                    a,
                    f"{q}: {attr} unordered",
                    f"{q} stores `{unparse(a.value)}` in {attr}: a hash-ordered collection ({' <- '.join(dict.fromkeys(o.trace))}); {why}, so the same program and seed give different scenes "
                    f"under another PYTHONHASHSEED",
                )
            else:
                ctx.ok(R, a, f"{q}: {attr} = `{norm_text(a.value, 50)}` has a program-defined order ({r})")
    for mod, cname, attr, why in ORDER_SINK_ATTRS:
        ci = model.cls(mod, cname)
        n += 1
        o = Order(model)
        r = o.attr(ci, attr, 0, set())
        if r == UNORDERED:
            ctx.finding(
                R,
                ci.node,
                f"{cname}.{attr} unordered",
                f"{cname}.{attr} receives elements in a hash / memory-layout order ({' <- '.join(dict.fromkeys(o.trace))}); {why}, so the same program and seed give different "
                f"simulation results in different processes",
            )
        else:
            ctx.ok(R, ci.node, f"{cname}.{attr} is only ever extended in a program-defined order ({r})")
    for mod, q, local, why in ORDER_SINK_LOCALS:
        fn = model.func(mod, q)
        ci = model.cls(mod, q.split(".")[0])
        n += 1
        o = Order(model)
        r = o.of(ast.Name(id=local, ctx=ast.Load()), fn, ci)
        if r == UNORDERED:
            ctx.finding(
                R,
                fn,
                f"{q}: {local} unordered",
                f"{q} fills `{local}` in a hash-dependent order ({' <- '.join(dict.fromkeys(o.trace))}); {why}, so the same program and seed give different scenes under another PYTHONHASHSEED",
            )
        else:
            ctx.ok(R, fn, f"{q}: `{local}` is only ever extended in a program-defined order ({r})")
    # the names of a scenario's locals: the compiler emits `_locals = frozenset((...))` into every compiled behaviour / scenario
    # class, so whoever turns them into an ordered collection (the dependencies of a LocalsSnapshot) must sort them first
    comp = model.module("scenic.syntax.compiler")
    emitted_unordered = False
    n_emit = 0
    for c in ast.walk(comp.tree):
        if isinstance(c, ast.Call) and dotted(c.func) == "ast.Assign" and c.args and "'_locals'" in unparse(c.args[0]):
            n_emit += 1
            val = c.args[1] if len(c.args) > 1 else None
            fn_c = lib.enclosing_function(c)
            vts = [unparse(val)] if val is not None else []
            if isinstance(val, ast.Name) and fn_c is not None:
                # every value the local handed to ast.Assign may hold
                vts += [unparse(a.value) for a in walk_local(fn_c) if isinstance(a, ast.Assign) and any(isinstance(t, ast.Name) and t.id == val.id for t in a.targets)]
            if any("'frozenset'" in vt or "'set'" in vt for vt in vts):
                emitted_unordered = True
    if n_emit == 0:
        raise AnalysisError("shape not recognised: the compiler no longer emits `_locals = ...`")
    ds = model.module("scenic.core.dynamics.scenarios")
    snap = ds.functions.get("DynamicScenario._makeLocalsSnapshot")
    if snap is None:
        raise AnalysisError("shape not recognised: DynamicScenario._makeLocalsSnapshot")
    n += 1
    loops_ = [l for l in walk_local(snap) if isinstance(l, (ast.For, ast.comprehension)) and "_locals" in unparse(l.iter)]
    bad_ = [l for l in loops_ if not (isinstance(l.iter, ast.Call) and dotted(l.iter.func) == "sorted")]
    if emitted_unordered and bad_:
        ctx.finding(
            R,
            snap,
            "locals snapshot in hash order",
            f"DynamicScenario._makeLocalsSnapshot iterates `{unparse(bad_[0].iter)}`, which the compiler defines as a frozenset of names, to build the dependencies of the LocalsSnapshot: the "
            f"random values bound to a scenario's locals are then sampled in string-hash order, so the same program and seed give different scenes under another PYTHONHASHSEED",
        )
    else:
        ctx.ok(R, snap, "the locals of a scenario are snapshotted in sorted order" if emitted_unordered else "the compiler emits the local names as an ordered collection")
    ctx.floor(R, n, 6, "order sinks")
    PRE = ("random.", "numpy.random.", "np.random.", "trimesh.sample.")
    NOT_DRAWS = ("getstate", "setstate", "get_state", "set_state", "default_rng", "seed", "Random", "RandomState", "Generator")
    nd = 0
    for m in model.modules.values():
        if not (m.path.startswith("src/scenic/core/") or m.path.startswith("src/scenic/syntax/")):
            continue
        if m.name.startswith(("scenic.core.dynamics", "scenic.core.simulators")):
            # the code that drives a simulation: a draw made here IS part of the run's user-visible stream (seeded like any
            # other), not randomness consumed behind the user's back; whether it can be replayed is C18's question
            continue
        for c in ast.walk(m.tree):
            if not isinstance(c, ast.Call):
                continue
            cn = dotted(c.func) or ""
            if not cn.startswith(PRE) or cn.endswith(NOT_DRAWS):
                continue
            nd += 1
            q = lib.qualname_of(c)
            last = q.split(".")[-1]
            if last in GLOBAL_RNG_OK:
                ctx.ok(R, c, f"{q}: `{cn}` is part of sampling")
            elif q in GLOBAL_RNG_FROZEN:
                ctx.ok(R, c, f"{q}: `{cn}` frozen exception: {GLOBAL_RNG_FROZEN[q]}")
            else:
                ctx.finding(
                    R,
                    c,
                    f"{q} draws from the global generator ({cn})",
                    f"{q} calls `{norm_text(c, 60)}`, i.e. it consumes the global random stream although it is not a sampling function: when it runs outside scene generation (a behavior, "
                    f"a monitor, a requirement evaluated during simulation) it shifts every later user-visible random value",
                )
    ctx.floor(R, nd, 25, "draws from the global generators in core / syntax")


def check_private_rng(ctx, R="C15.private"):
    ctx.rule(
        R,
        "private generators: internal sampling that must not touch the global streams uses numpy.random.default_rng(<constant seed>); no "
        "value derived from time.*, id() or hash() is used as a seed or as a sort key in core",
    )
    model = ctx.model
    n = 0
    for mn in ("scenic.core.utils", "scenic.core.visibility", "scenic.core.regions", "scenic.core.object_types", "scenic.core.shapes"):
        m = model.module(mn)
        for c in ast.walk(m.tree):
            if isinstance(c, ast.Call) and dotted(c.func) in ("numpy.random.default_rng", "np.random.default_rng"):
                n += 1
                seed = c.args[0] if c.args else lib.kw(c, "seed")
                if isinstance(seed, ast.Constant) and isinstance(seed.value, int):
                    ctx.ok(R, c, f"{lib.qualname_of(c)}: private generator with constant seed {seed.value}")
                else:
                    ctx.finding(R, c, f"{lib.qualname_of(c)}: unseeded private generator", f"{lib.qualname_of(c)}: `{unparse(c)}` creates a generator without a constant seed: internal sampling differs from run to run")
    ctx.floor(R, n, 1, "private generator sites")
    bad = 0
    for m in model.modules.values():
        if not m.path.startswith("src/scenic/core/"):
            continue
        for c in ast.walk(m.tree):
            if isinstance(c, ast.Call):
                cn = dotted(c.func) or ""
                key = lib.kw(c, "key")
                exprs = []
                if cn in ("sorted", "min", "max") or (isinstance(c.func, ast.Attribute) and c.func.attr == "sort"):
                    if key is not None:
                        exprs.append(key)
                if cn.endswith(".seed") or cn in ("random.seed", "numpy.random.seed"):
                    exprs.extend(c.args)
                for e in exprs:
                    for x in ast.walk(e):
                        if isinstance(x, ast.Call) and (dotted(x.func) or "") in ("id", "hash", "time.time", "time.perf_counter", "time.monotonic"):
                            bad += 1
                            ctx.finding(R, c, f"{lib.qualname_of(c)}: address/time dependent key", f"{lib.qualname_of(c)}: `{norm_text(c, 70)}` orders or seeds by `{unparse(x)}`, which differs between processes")
    if not bad:
        ctx.ok(R, "src/scenic/core", "no sort key or seed in core derives from id()/hash()/time.*", qualname="core")


def check(ctx):
    ctx.run(check_order)
    ctx.run(check_rng_bracket)
    ctx.run(check_sinks)
    ctx.run(check_private_rng)
