"""C09 -- plain Python inside Scenic compiles to what CPython would parse (structural part)."""

import ast
import keyword

from .. import lib
from ..model import AnalysisError, ancestors, dotted, norm_text, parent, unparse, walk_local

CO = "scenic.syntax.compiler"
GRAMFILE = "src/scenic/syntax/scenic.gram"

PYKW = set(keyword.kwlist) | set(keyword.softkwlist)

# Scenic alternatives without a Scenic keyword that are part of the language definition (reason each).
UNMARKED_OK = {
    ("scenic_vector", "term '@' factor"): "`X @ Y` is Scenic's vector constructor by language definition (documented divergence from matrix multiplication)",
    ("scenic_class_property_stmt", "NAME"): "inside a class body `name: value` declares a property default by language definition",
}

# Python node classes the compiler is documented to touch, with what it may do.
PY_VISITORS = {
    "Name": "ego/workspace/globalParameters become accessor calls; behaviour locals become attribute lookups",
    "Call": "str/int/float are lifted; starred arguments are wrapped",
    "ClassDef": "a class without bases derives from Object and gains a property table",
    "For": "bookkeeping only (loop flag)",
    "While": "bookkeeping only (loop flag)",
    "FunctionDef": "bookkeeping only (loop / interrupt flags)",
    "Break": "rewritten only inside an interrupt block",
    "Continue": "rewritten only inside an interrupt block",
    "Return": "rewritten only inside an interrupt block",
    "Yield": "rejected only inside behaviours / compose blocks",
    "YieldFrom": "rejected only inside behaviours / compose blocks",
}
CONTEXT_FLAGS = {"inBehavior", "inCompose", "inMonitor", "inInterruptBlock", "inTryInterrupt", "inLoop", "behaviorLocals", "inSetup", "inGuard"}


def check_capture(ctx, R="C09.capture"):
    ctx.rule(
        R,
        "Scenic alternatives cannot capture plain Python: every alternative of a scenic_* rule that an inherited Python rule refers to "
        "contains, in a mandatory position (directly or through scenic_* sub-rules all of whose alternatives do), a token that is a Scenic "
        "keyword (alphabetic, not a Python keyword), or is a pure pass-through to a Python rule; exceptions are a frozen table with reasons",
    )
    from pegen import grammar as gr

    g = ctx.grammar
    refs = {}
    for a in g.alts:
        for r in a.rule_refs():
            refs.setdefault(r, set()).add(a.rule)
    entry = sorted(r for r, src in refs.items() if r.startswith("scenic_") and any(not s.startswith(("scenic_", "invalid_scenic")) for s in src))
    ctx.floor(R, len(entry), 12, "scenic_* rules referenced from inherited Python rules")
    memo = {}

    def rule_marked(name, stack):
        if name in memo:
            return memo[name]
        if name in stack:
            return True  # recursion: decided by the other alternatives
        r = g.rules.get(name)
        if r is None:
            return False
        res = all(alt_class(a, stack + (name,), name)[0] == "MARKED" for a in r.rhs.alts)
        memo[name] = res
        return res

    def node_marked(node, stack):
        if isinstance(node, gr.NamedItem):
            return node_marked(node.item, stack)
        if isinstance(node, gr.StringLeaf):
            s = node.value[1:-1]
            return s.isalpha() and s not in PYKW
        if isinstance(node, gr.NameLeaf):
            if node.value.startswith("invalid_"):
                return True  # error-only rule: never yields a tree
            return node.value in g.rules and rule_marked(node.value, stack)
        if isinstance(node, gr.Group):
            return all(any(node_marked(i, stack) for i in a.items) for a in node.rhs.alts)
        if isinstance(node, (gr.Repeat1, gr.Forced)):
            return node_marked(node.node, stack)
        if isinstance(node, gr.Gather):
            return node_marked(node.node, stack)
        return False

    def alt_class(alt, stack, rule):
        if any(node_marked(i, stack) for i in alt.items):
            return "MARKED", None
        items = [i.item if isinstance(i, gr.NamedItem) else i for i in alt.items]
        real = [i for i in items if not isinstance(i, (gr.PositiveLookahead, gr.NegativeLookahead, gr.Cut))]
        names = [i for i in real if isinstance(i, gr.NameLeaf)]
        act = (alt.action or "").replace(" ", "")
        if len(real) == 1 and len(names) == 1 and not names[0].value.startswith("scenic_") and act in ("", "a", "[a]"):
            return "PASS", names[0].value
        # structural alternatives only re-package what their items produced (no node constructor in the action)
        builds = False
        if alt.action:
            import re as _re

            builds = bool(_re.search(r"(?<![\w.])(s|ast)\s*\.\s*[A-Z]\w*\s*\(", alt.action)) or "self ." in alt.action or "self." in alt.action
        if not builds:
            return "STRUCT", None
        return "UNMARKED", None

    n = 0
    seen_rules = set()

    def visit_rule(name):
        nonlocal n
        if name in seen_rules:
            return
        seen_rules.add(name)
        r = g.rules.get(name)
        if r is None:
            return
        for alt in r.rhs.alts:
            n += 1
            cls, via = alt_class(alt, (name,), name)
            text = str(alt)
            if cls == "UNMARKED":
                key = next((k for k in UNMARKED_OK if k[0] == name and text.startswith(k[1])), None)
                if key:
                    ctx.ok(R, GRAMFILE, f"{name}: `{text[:60]}` has no Scenic keyword (allowed: {UNMARKED_OK[key]})", qualname=name)
                else:
                    ctx.finding(
                        R,
                        GRAMFILE,
                        f"{name}: unmarked alternative {text[:70]}",
                        f"grammar rule {name} (line ~{g.line_of_rule(name)}): alternative `{text[:100]}` is tried before the inherited Python rule but "
                        f"contains no mandatory Scenic keyword: plain Python text matching it is parsed to `{(alt.action or '').strip()[:60]}` instead of CPython's tree",
                        qualname=name,
                    )
            else:
                why = {"MARKED": "requires a Scenic keyword", "PASS": f"passes {via} through unchanged", "STRUCT": "only re-packages the results of its items"}[cls]
                ctx.ok(R, GRAMFILE, f"{name}: `{text[:60]}` {why}", qualname=name)
            # descend into scenic sub-rules referenced without their own marker in this alt (they inherit exposure)
            if cls != "MARKED":
                for i in alt.items:
                    node = i.item if isinstance(i, gr.NamedItem) else i
                    for sub in _names(node, gr):
                        if sub.startswith("scenic_"):
                            visit_rule(sub)

    for e in entry:
        visit_rule(e)
    ctx.floor(R, n, 40, "alternatives of exposed scenic_* rules")
    # Scenic alternatives are tried first only where listed: the entry references must precede the Python alternative
    ctx.note(f"entry rules: {entry}")


def _names(node, gr):
    if isinstance(node, gr.NameLeaf):
        yield node.value
    elif isinstance(node, gr.NamedItem):
        yield from _names(node.item, gr)
    elif isinstance(node, (gr.Opt, gr.Repeat0, gr.Repeat1, gr.Forced)):
        yield from _names(node.node, gr)
    elif isinstance(node, gr.Gather):
        yield from _names(node.node, gr)
    elif isinstance(node, gr.Group):
        for a in node.rhs.alts:
            for i in a.items:
                yield from _names(i, gr)


def check_visitors(ctx, R="C09.identity"):
    ctx.rule(
        R,
        "Python-node visitors are the identity outside Scenic contexts: the set of Python ast classes the compiler has visitors for equals "
        "the documented set; For/While/FunctionDef only return generic_visit's result; Break/Continue/Return are rewritten only under "
        "inInterruptBlock; Yield/YieldFrom are rejected only under inCompose/inBehavior; Name is rewritten only for the tracked / builtin / "
        "behaviour-local names; Call renames only str/int/float and wraps only starred arguments; ClassDef adds a base only when there is none; "
        "every substituted node is passed through ast.copy_location(·, node)",
    )
    model = ctx.model
    ci = model.cls(CO, "ScenicToPythonTransformer")
    pyvis = {}
    for name, fn in ci.methods.items():
        if name.startswith("visit_"):
            cname = name[len("visit_") :]
            if cname in model.module("scenic.syntax.ast").classes:
                continue  # a Scenic syntax node of the same name shadows the (deprecated) ast class
            if hasattr(ast, cname) and isinstance(getattr(ast, cname), type) and issubclass(getattr(ast, cname), ast.AST):
                pyvis[cname] = fn
    ctx.floor(R, len(pyvis), 11, "Python-node visitors in the compiler")
    for cname, fn in sorted(pyvis.items()):
        if cname not in PY_VISITORS:
            ctx.finding(
                R,
                fn,
                f"undocumented Python-node visitor visit_{cname}",
                f"the compiler has a visitor for the Python node `{cname}`, which is not among the documented rewrites {sorted(PY_VISITORS)}: "
                f"plain Python using it may compile to a tree different from CPython's",
            )
    for cname in PY_VISITORS:
        if cname not in pyvis:
            ctx.note(f"documented visitor visit_{cname} absent (fewer rewrites, not a violation)")

    def flag_guard(node, fn, need):
        # the conditions under which `node` is reached must be unsatisfiable with every flag of `need` unset
        env = {f"self.{n}": False for n in need}
        for t, p in lib.guard_tests(node, fn):
            v = lib.tri_eval(t, env)
            if v is not None and v != p:
                return True
        return False

    # bookkeeping visitors
    for cname in ("For", "While", "FunctionDef"):
        fn = pyvis.get(cname)
        if fn is None:
            continue
        rets = [r for r in lib.returns_of(fn) if r.value is not None]
        env = {n.targets[0].id: n.value for n in walk_local(fn) if isinstance(n, ast.Assign) and isinstance(n.targets[0], ast.Name)}
        good = all(unparse(env.get(r.value.id, r.value) if isinstance(r.value, ast.Name) else r.value) == "self.generic_visit(node)" for r in rets) and rets
        if good:
            ctx.ok(R, fn, f"visit_{cname} returns generic_visit(node) (bookkeeping only)")
        else:
            ctx.finding(R, fn, f"visit_{cname} not identity", f"visit_{cname} returns something other than self.generic_visit(node)")
    for cname in ("Break", "Continue", "Return"):
        fn = pyvis.get(cname)
        if fn is None:
            continue
        for r in lib.returns_of(fn):
            if r.value is None:
                continue
            if unparse(r.value) == "self.generic_visit(node)":
                ctx.ok(R, r, f"visit_{cname}: identity outside interrupt blocks")
            elif flag_guard(r, fn, {"inInterruptBlock"}):
                if _is_copy_location(fn, r.value):
                    ctx.ok(R, r, f"visit_{cname}: rewritten only under inInterruptBlock, location copied")
                else:
                    ctx.finding(R, r, f"visit_{cname} no copy_location", f"visit_{cname} substitutes `{norm_text(r.value, 60)}` without ast.copy_location(·, node): the line number is lost")
            else:
                ctx.finding(R, r, f"visit_{cname} unguarded rewrite", f"visit_{cname} rewrites `{cname.lower()}` (`{norm_text(r.value, 60)}`) outside the inInterruptBlock guard: plain Python loops/functions change meaning")
    for cname in ("Yield", "YieldFrom"):
        fn = pyvis.get(cname)
        if fn is None:
            continue
        for n in walk_local(fn):
            if isinstance(n, ast.Raise):
                if flag_guard(n, fn, {"inCompose", "inBehavior"}):
                    ctx.ok(R, n, f"visit_{cname}: rejected only inside behaviours / compose blocks")
                else:
                    ctx.finding(R, n, f"visit_{cname} unguarded raise", f"visit_{cname} rejects `yield` outside the inCompose/inBehavior guard: plain Python generators stop compiling")
        rets = [r for r in lib.returns_of(fn) if r.value is not None]
        if not all(unparse(r.value) == "self.generic_visit(node)" for r in rets):
            ctx.finding(R, fn, f"visit_{cname} not identity", f"visit_{cname} returns something other than generic_visit(node)")
    # Name
    fn = pyvis.get("Name")
    if fn is not None:
        for n in walk_local(fn):
            if isinstance(n, ast.Call) and dotted(n.func) in ("ast.Call", "ast.Attribute"):
                tests = " && ".join(unparse(t) for t, p in lib.guard_tests(n, fn) if p)
                if any(k in tests for k in ("builtinNames", "trackedNames", "globalParametersName", "behaviorLocals")):
                    wrapped = any(isinstance(a, ast.Call) and dotted(a.func) == "ast.copy_location" for a in ancestors(n)) or _later_copy(fn, n)
                    if wrapped:
                        ctx.ok(R, n, f"visit_Name: `{norm_text(n, 50)}` only for the documented names, location copied")
                    else:
                        ctx.finding(R, n, "visit_Name no copy_location", f"visit_Name substitutes `{norm_text(n, 60)}` without ast.copy_location")
                else:
                    ctx.finding(R, n, f"visit_Name unguarded rewrite {norm_text(n, 40)}", f"visit_Name builds `{norm_text(n, 60)}` for names outside the documented sets (guards: {tests or 'none'})")
        rets = [r for r in lib.returns_of(fn) if r.value is not None]
        if any(unparse(r.value) == "node" for r in rets):
            ctx.ok(R, fn, "visit_Name returns other names unchanged")
        else:
            ctx.finding(R, fn, "visit_Name fallthrough", "visit_Name no longer returns the node itself for ordinary names")
        # the documented name sets
        mod = model.module(CO)
        for var, want in (("trackedNames", {"ego", "workspace"}), ("builtinNames", {"globalParameters", "str", "int", "float"})):
            st = mod.defs.get(var)
            try:
                val = set()
                for e in st.value.elts:
                    val.add(e.value if isinstance(e, ast.Constant) else ast.literal_eval(mod.defs[e.id].value))
            except Exception:
                raise AnalysisError(f"shape not recognised: compiler.{var}")
            if val == want:
                ctx.ok(R, st, f"{var} = {sorted(want)} (the documented special names)")
            else:
                ctx.finding(R, st, f"{var} contents", f"compiler.{var} is {sorted(val)}; the documented special names are {sorted(want)}: other identifiers are rewritten in plain Python")
    # Call
    fn = pyvis.get("Call")
    if fn is not None:
        renames = {}
        nd = fn.args.args[1].arg
        # roles, not names: the visited callee, the rebuilt argument list, the rebuilt keywords, the argument loop variable
        nf = lib.local_from(fn, f"self.visit({nd}.func)", what="visited callee")
        kwl = lib.locals_assigned(fn, lambda v: f"{nd}.keywords" in unparse(v))
        argl = [v for v in lib.locals_assigned(fn, lambda v: unparse(v) == "[]") if any(isinstance(c, ast.Call) and unparse(c.func) == f"{v}.append" for c in walk_local(fn))]
        argloops = [l for l in walk_local(fn) if isinstance(l, ast.For) and unparse(l.iter) == f"{nd}.args" and isinstance(l.target, ast.Name)]
        if len(kwl) != 1 or len(argl) != 1 or len(argloops) != 1:
            raise AnalysisError("shape not recognised: visit_Call argument / keyword lists")
        kwl, argl, av = kwl[0], argl[0], argloops[0].target.id
        for n in walk_local(fn):
            if isinstance(n, ast.Assign) and unparse(n.targets[0]) == f"{nf}.id" and isinstance(n.value, ast.Constant):
                tests = [lib.ctext(t) for t, p in lib.guard_tests(n, fn) if p]
                src = []
                for t in tests:
                    for a, b in ((f"{nf}.id == ", None), (None, f" == {nf}.id")):
                        if a and t.startswith(a):
                            src.append(t[len(a):].strip().strip("'\""))
                        if b and t.endswith(b):
                            src.append(t[: -len(b)].strip().strip("'\""))
                renames[src[0] if src else "?"] = n.value.value
        if set(renames) == {"str", "float", "int"} and all(v.startswith("_to") and v.endswith("Scenic") for v in renames.values()):
            ctx.ok(R, fn, f"visit_Call renames only {sorted(renames)} to their lifted versions")
        else:
            ctx.finding(R, fn, f"visit_Call renames {sorted(renames)}", f"visit_Call renames {renames}; only str/int/float may be replaced by their lifted versions")
        stars = [n for n in walk_local(fn) if isinstance(n, ast.Call) and isinstance(n.func, ast.Attribute) and unparse(n) .startswith("ast.Call(ast.Name('wrapStarredValue'")]
        for n in stars:
            tests = " && ".join(unparse(t) for t, p in lib.guard_tests(n, fn) if p)
            if f"isinstance({av}, ast.Starred)" in tests:
                ctx.ok(R, n, "visit_Call wraps only starred arguments")
            else:
                ctx.finding(R, n, "visit_Call star wrapping", f"visit_Call wraps arguments under `{tests}`, not only starred ones")
        rets = [r for r in lib.returns_of(fn) if r.value is not None]
        if rets and all(_is_copy_location(fn, r.value) for r in rets):
            ctx.ok(R, fn, "visit_Call copies the location of the original call")
        else:
            ctx.finding(R, fn, "visit_Call copy_location", "visit_Call returns a rebuilt call without ast.copy_location(·, node)")
        plain = [n for n in walk_local(fn) if isinstance(n, ast.Call) and unparse(n) == f"ast.Call({nf}, {argl}, {kwl})"]
        if plain:
            ctx.ok(R, plain[0], "an ordinary call is rebuilt as Call(func, args, keywords) in the original order")
        else:
            ctx.finding(R, fn, "visit_Call plain rebuild", "visit_Call no longer rebuilds ordinary calls as ast.Call(<visited func>, <visited args>, <visited keywords>)")
    # ClassDef
    fn = pyvis.get("ClassDef")
    if fn is not None:
        asg = [n for n in walk_local(fn) if isinstance(n, ast.Assign) and unparse(n.targets[0]) == "node.bases"]
        if asg and all(any(unparse(t) == "not node.bases" and p for t, p in lib.guard_tests(n, fn)) for n in asg):
            ctx.ok(R, asg[0], "a default base is added only to classes without bases")
        else:
            ctx.finding(R, fn, "visit_ClassDef default base", "visit_ClassDef changes node.bases outside `if not node.bases`")


def _is_copy_location(fn, value):
    if isinstance(value, ast.Call) and dotted(value.func) == "ast.copy_location":
        return unparse(value.args[-1]) == "node"
    if isinstance(value, ast.Name):
        defs = [n.value for n in walk_local(fn) if isinstance(n, ast.Assign) and any(isinstance(t, ast.Name) and t.id == value.id for t in n.targets)]
        return any(_is_copy_location(fn, d) for d in defs)
    return False


def _later_copy(fn, n):
    """The node built at n is bound to a local that a later, reachable `ast.copy_location(<that local>, ...)` locates."""
    st = lib.statement_of(n)
    if isinstance(st, ast.Assign) and isinstance(st.targets[0], ast.Name):
        v = st.targets[0].id
        blocks = [parent(st)] + list(ancestors(st))

        def reachable(later):
            # a later statement of the same block or of an enclosing one (not a sibling branch)
            ls = lib.statement_of(later)
            return ls is not None and ls.lineno >= st.lineno and any(parent(ls) is b for b in blocks)

        for a in walk_local(fn):
            # the new node must BE the first argument of copy_location (the second one is where the location comes from)
            if isinstance(a, ast.Call) and dotted(a.func) == "ast.copy_location" and a.args and isinstance(a.args[0], ast.Name) and a.args[0].id == v and reachable(a):
                return True
    return isinstance(st, ast.Return) and isinstance(st.value, ast.Call) and dotted(st.value.func) == "ast.copy_location"


def check_locations(ctx, R="C09.lineno"):
    ctx.rule(
        R,
        "line numbers: every grammar action that builds a located node (an ast class with position attributes, or a Scenic syntax node) "
        "passes LOCATIONS or an explicit lineno, so the compiled Python nodes keep the line of their source text",
    )
    g = ctx.grammar
    n = 0
    for a, call, kind, cname in g.constructor_calls():
        if kind == "ast":
            cls = getattr(ast, cname, None)
            if not (isinstance(cls, type) and getattr(cls, "_attributes", ())):
                continue
        elif cname == "parameter":
            continue
        n += 1
        has = any(k.arg is None and isinstance(k.value, ast.Name) and k.value.id == "LOCATIONS" for k in call.keywords) or any(k.arg == "lineno" for k in call.keywords)
        if has:
            ctx.ok(R, GRAMFILE, f"{a.rule}: {kind}.{cname}(...) is located", qualname=a.rule)
        else:
            ctx.finding(
                R,
                GRAMFILE,
                f"{a.rule}: {kind}.{cname} without LOCATIONS",
                f"grammar rule {a.rule} (line ~{g.line_of_rule(a.rule)}): action `{norm_text(a.action_src, 80)}` builds {kind}.{cname} without LOCATIONS; "
                f"the compiled statement inherits the line of an enclosing node, so run-time errors in it point at the wrong line",
                qualname=a.rule,
            )
    ctx.floor(R, n, 300, "located node constructions in grammar actions")


def check_arguments_helper(ctx, R="C09.arguments"):
    ctx.rule(
        R,
        "the parser helper that assembles `ast.arguments` puts the parameter groups in Python's order: `defaults` lists the defaults of the "
        "positional-only parameters before those of the ordinary parameters, `args` lists the parameters without default before those with "
        "one (sources are followed through the helper's locals in evaluation order); the documented class-body rejection of annotated "
        "assignments looks at the class body only, not at nested functions",
    )
    tree = ctx.grammar.subheader_tree()
    fns = [f for f in ast.walk(tree) if isinstance(f, ast.FunctionDef) and f.name == "make_arguments"]
    if not fns:
        raise AnalysisError("shape not recognised: parser helper make_arguments missing")
    fn = fns[0]
    ps = [a.arg for a in fn.args.args]
    if len(ps) != 6:
        raise AnalysisError("shape not recognised: parameters of make_arguments")
    _self, pos_only, pos_def, par_nodef, par_def, after = ps
    build = [c for c in ast.walk(fn) if isinstance(c, ast.Call) and dotted(c.func) == "ast.arguments"]
    if len(build) != 1:
        raise AnalysisError("shape not recognised: make_arguments builds no single ast.arguments")

    def sources(e, depth=0):
        """parameter names mentioned by e in evaluation order, following locals (all their definitions in line order)"""
        out = []
        if depth > 4:
            return out
        if isinstance(e, ast.BinOp):
            return sources(e.left, depth) + sources(e.right, depth)
        if isinstance(e, ast.IfExp):
            return sources(e.body, depth) + sources(e.orelse, depth)
        if isinstance(e, ast.BoolOp):
            for v in e.values:
                out += sources(v, depth)
            return out
        if isinstance(e, (ast.ListComp, ast.GeneratorExp)):
            return sources(e.generators[0].iter, depth)
        if isinstance(e, ast.Name):
            if e.id in ps:
                return [e.id]
            defs = sorted((n for n in ast.walk(fn) if isinstance(n, (ast.Assign, ast.AugAssign)) and any(isinstance(t, ast.Name) and t.id == e.id for t in (n.targets if isinstance(n, ast.Assign) else [n.target]))), key=lambda n: n.lineno)
            for d in defs:
                out += sources(d.value, depth + 1)
            return out
        for ch in ast.iter_child_nodes(e):
            out += sources(ch, depth)
        return out

    want = {"defaults": [pos_def, par_def], "args": [par_nodef, par_def]}
    for field, order in want.items():
        v = lib.kw(build[0], field)
        if v is None:
            raise AnalysisError(f"shape not recognised: ast.arguments(... {field}=...) in make_arguments")
        got = [x for x in dict.fromkeys(sources(v)) if x in order]
        if got == order:
            ctx.ok(R, GRAMFILE, f"make_arguments: {field} = {order[0]} then {order[1]}", qualname="subheader.make_arguments")
        else:
            ctx.finding(
                R,
                GRAMFILE,
                f"make_arguments: {field} built from {got}",
                f"parser helper make_arguments builds `{field}` from {got}; Python's ast.arguments needs {order} in that order (e.g. `def f(a=1, /, c=3)` would get its two defaults swapped): "
                f"functions, lambdas and behaviours with such parameter lists silently bind the wrong default values",
                qualname="subheader.make_arguments",
            )
    # class-body rejection is shallow
    cd = ctx.model.func("scenic.syntax.compiler", "ScenicToPythonTransformer.visit_ClassDef")
    nd = cd.args.args[1].arg
    for r in [x for x in walk_local(cd) if isinstance(x, ast.Raise)]:
        loops = [a for a in ancestors(r) if isinstance(a, ast.For)]
        if not loops:
            continue
        # only rejections of plain-Python statements (guarded by isinstance(<stmt>, ast.X)) are of interest here
        if not any(isinstance(t, ast.Call) and dotted(t.func) == "isinstance" and len(t.args) == 2 and unparse(t.args[1]).startswith("ast.") and p_ for t, p_ in lib.guard_tests(r, cd)):
            continue
        it = unparse(loops[0].iter)
        src_, _v, _t = lib.iter_source(cd, loops[0].iter)
        if it == f"{nd}.body" or unparse(src_) == f"{nd}.body":
            ctx.ok(R, r, "visit_ClassDef rejects annotated assignments among the direct statements of the class body only")
        else:
            ctx.finding(R, r, f"visit_ClassDef rejection ranges over {it}", f"visit_ClassDef raises a syntax error for statements found in `{it}`, not only for the direct statements of the class body ({nd}.body): annotated local variables inside methods of a class (valid Python) are rejected")


def check_reference(ctx, R="C09.reference"):
    ctx.rule(
        R,
        "agreement with CPython's own PEG grammar (3.11, /verif/ref): every rule of the Python part that exists in both grammars and is "
        "not in the frozen table of deliberate deviations has CPython's alternatives in CPython's order (PEG choice is ordered, so a "
        "reordering changes which parse wins); where both actions are a single call of the same helper with plain arguments, the captured "
        "pieces are passed in the same positions (None / [] / NULL all count as 'empty')",
    )
    from .. import refgrammar as rg

    ref = rg.load_reference()
    g = ctx.grammar
    common = [r for r in g.rules if r in ref.rules]
    ctx.floor(R, len(common), 200, "rules shared with the CPython grammar")
    n_struct = n_act = 0
    valid = rg.reachable_valid(g.rules)
    ctx.floor(R, len(valid), 150, "rules reachable from the start rules without an invalid_ rule")
    for r in common:
        if r in rg.DEVIATES:
            continue
        a, b = rg.shape(g.rules[r]), rg.shape(ref.rules[r])
        n_struct += 1
        if a != b:
            k = next((i for i, (x, y) in enumerate(zip(a, b)) if x != y), min(len(a), len(b)))
            ctx.finding(
                R,
                GRAMFILE,
                f"{r}: alternatives differ from CPython",
                f"grammar rule {r} (line ~{g.line_of_rule(r)}): alternative {k + 1} is `{a[k] if k < len(a) else '<missing>'}` where CPython's grammar has "
                f"`{b[k] if k < len(b) else '<none>'}` ({len(a)} vs {len(b)} alternatives): plain Python code is parsed differently from Python",
                qualname=r,
            )
            continue
        ok = True
        if r not in valid:
            # only used while reporting an error: its AST is never the program's AST
            ctx.ok(R, GRAMFILE, f"{r}: {len(a)} alternatives as in CPython (error-path rule: actions not compared)", qualname=r)
            continue
        for i, (x, y) in enumerate(zip(g.rules[r].rhs.alts, ref.rules[r].rhs.alts)):
            px, py = rg.norm_py(x.action), rg.norm_c(y.action)
            cmp_ = rg.comparable(px, py)
            if cmp_ is not None:
                cmp_ = (rg.positions(x, cmp_[0]), rg.positions(y, cmp_[1]))
                n_act += 1
                if cmp_[0] != cmp_[1]:
                    px, py = (px[0], cmp_[0]), (py[0], cmp_[1])
                    ok = False
                    ctx.finding(
                        R,
                        GRAMFILE,
                        f"{r} alt {i + 1}: {px[0]} arguments differ from CPython",
                        f"grammar rule {r} (line ~{g.line_of_rule(r)}), alternative {i + 1} `{rg.shape(g.rules[r])[i]}`: the action calls {px[0]}{px[1]} where "
                        f"CPython's grammar calls {py[0]}{py[1]}: a captured piece ends up in another field of the Python AST",
                        qualname=r,
                    )
        if ok:
            ctx.ok(R, GRAMFILE, f"{r}: {len(a)} alternatives as in CPython", qualname=r)
    ctx.floor(R, n_struct, 180, "rules compared structurally with the CPython grammar")
    ctx.floor(R, n_act, 30, "helper calls compared argument by argument")
    ctx.note(f"reference grammar: {len(common)} shared rules, {len([r for r in common if r in rg.DEVIATES])} frozen deviations, {n_struct} compared, {n_act} helper calls compared")


def check(ctx):
    ctx.run(check_capture)
    ctx.run(check_visitors)
    ctx.run(check_locations)
    ctx.run(check_arguments_helper)
    ctx.run(check_reference)
