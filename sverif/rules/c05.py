"""C05 -- expressions over random values evaluate as in plain Python (structural necessary conditions)."""

import ast

from .. import lib, samplable
from ..linform import equal, lin, lin_src
from ..model import AnalysisError, ancestors, dotted, norm_text, parent, unparse, walk_local
from .c01 import core_classes_with

DI = "scenic.core.distributions"
VE = "scenic.core.vectors"
LE = "scenic.core.lazy_eval"
GE = "scenic.core.geometry"

NON_FORWARDING = {"any", "all", "itertools.chain", "tuple", "len", "isinstance", "toDistribution", "needsSampling", "needsLazyEvaluation", "isLazy", "set", "requiredProperties"}


def check_lifting(ctx, R="C05.lift"):
    ctx.rule(
        R,
        "G4 lifting-decorator agreement: in every inner helper/handler(self, *args[, **kwargs]) of the lifting decorators, each call that "
        "forwards `args` (to a distribution constructor, to makeDelayedFunctionCall, to the wrapped method) also forwards `self` "
        "(as its own argument or as `(self,) + args`) and, where the helper takes **kwargs, the kwargs; a helper without `self` forwards args alone",
    )
    model = ctx.model
    n = 0
    sites = [
        (DI, "distributionFunction"),
        (DI, "distributionMethod"),
        (VE, "scalarOperator"),
        (VE, "vectorOperator"),
        (VE, "vectorDistributionMethod"),
        (VE, "makeVectorOperatorHandler"),
        (LE, "makeDelayedOperatorHandler"),
        (DI, "makeOperatorHandler"),
    ]
    for mod, q in sites:
        outer = model.func(mod, q)
        inners = [f for f in ast.walk(outer) if isinstance(f, ast.FunctionDef) and f is not outer and f.name in ("helper", "handler")]
        if not inners:
            raise AnalysisError(f"shape not recognised: {q} has no inner helper/handler")
        for h in inners:
            params = [a.arg for a in h.args.args]
            has_self = bool(params) and params[0] == "self"
            va = h.args.vararg.arg if h.args.vararg else None
            kwa = h.args.kwarg.arg if h.args.kwarg else None
            if va is None:
                continue
            for c in walk_local(h):
                if not isinstance(c, ast.Call):
                    continue
                cn = dotted(c.func) or ""
                if cn in NON_FORWARDING:
                    continue
                argexprs = list(c.args) + [k.value for k in c.keywords]
                fwd = [a for a in argexprs if _mentions_plain(a, va)]
                if not fwd:
                    continue
                # ignore calls nested in generator tests (any(needsSampling(arg) for arg in args))
                if any(isinstance(a, (ast.GeneratorExp, ast.ListComp)) for a in ancestors(c) if a is not h) and not isinstance(c.func, ast.Name):
                    pass
                n += 1
                mentions_self = any(any(isinstance(x, ast.Name) and x.id == "self" for x in ast.walk(a)) for a in argexprs) or (
                    isinstance(c.func, ast.Attribute) and any(isinstance(x, ast.Name) and x.id == "self" for x in ast.walk(c.func))
                )
                mentions_kw = kwa is None or any(any(isinstance(x, ast.Name) and x.id == kwa for x in ast.walk(a)) for a in argexprs)
                if has_self and not mentions_self:
                    ctx.finding(
                        R,
                        c,
                        f"{q}.{h.name} drops self in {norm_text(c, 70)}",
                        f"{q}: `{unparse(c)}` forwards `{va}` without `self`; when this branch is taken the receiver is lost and the wrapped "
                        f"method is later called with its first argument missing / shifted",
                    )
                elif not mentions_kw:
                    ctx.finding(
                        R,
                        c,
                        f"{q}.{h.name} drops kwargs in {norm_text(c, 70)}",
                        f"{q}: `{unparse(c)}` forwards `{va}` but not `{kwa}`: keyword arguments are lost on this branch",
                    )
                else:
                    ctx.ok(R, c, f"{q}.{h.name}: `{norm_text(c, 70)}` forwards the complete argument list")
    ctx.floor(R, n, 14, "forwarding calls in lifting helpers")
    # makeDelayedFunctionCall itself applies func to *all* evaluated args and kwargs
    f = model.func(LE, "makeDelayedFunctionCall")
    inner = [x for x in ast.walk(f) if isinstance(x, ast.FunctionDef) and x is not f]
    if inner:
        rets = [r for r in lib.returns_of(inner[0]) if r.value is not None]
        fp = [a.arg for a in f.args.args]
        cx = inner[0].args.args[0].arg
        want = lib.role_text(None, f"{fp[0]}(*(valueInContext(a, {cx}) for a in {fp[1]}), **{{n: valueInContext(a, {cx}) for n, a in {fp[2]}.items()}})")
        if len(rets) == 1 and lib.role_text(inner[0], rets[0].value) == want:
            ctx.ok(R, rets[0], "makeDelayedFunctionCall applies func to every evaluated positional and keyword argument")
        else:
            ctx.finding(R, f, "makeDelayedFunctionCall value", "makeDelayedFunctionCall.value does not return func(*subvalues, **kwsubvals)")


def check_containers(ctx, R="C05.containers"):
    ctx.rule(
        R,
        "container literals are lifted at every depth: in toDistribution the elements tested for randomness and the elements handed to "
        "TupleDistribution are the RECURSIVELY converted elements (toDistribution applied to each element first), so a random value nested "
        "inside a constant-looking inner list is still found; FunctionDistribution converts every positional and keyword argument",
    )
    model = ctx.model
    fn = model.func(DI, "toDistribution")
    v = fn.args.args[0].arg
    conv = {lib.role_text(None, f"[toDistribution(c) for c in {v}]"), lib.role_text(None, f"tuple(toDistribution(c) for c in {v})"), lib.role_text(None, f"list(toDistribution(c) for c in {v})")}
    builds = [c for c in walk_local(fn) if isinstance(c, ast.Call) and dotted(c.func) == "TupleDistribution"]
    if not builds:
        raise AnalysisError("shape not recognised: toDistribution builds no TupleDistribution")
    for c in builds:
        star = [a.value for a in c.args if isinstance(a, ast.Starred)]
        handed = lib.role_text(fn, star[0]) if len(star) == 1 else None
        if handed in conv:
            ctx.ok(R, c, "TupleDistribution receives the recursively converted elements")
        else:
            ctx.finding(R, c, "TupleDistribution elements", f"toDistribution builds `{norm_text(c, 70)}` from elements that were not converted recursively: a nested random value stays unlifted")
        tests = [t for t, pol in lib.guard_tests(c, fn) if pol and isinstance(t, ast.Call) and dotted(t.func) == "any"]
        okt = False
        for t in tests:
            g = t.args[0] if t.args else None
            if isinstance(g, (ast.GeneratorExp, ast.ListComp)) and len(g.generators) == 1 and isinstance(g.elt, ast.Call) and dotted(g.elt.func) in ("isLazy", "needsSampling", "needsLazyEvaluation"):
                if lib.role_text(fn, g.generators[0].iter) in conv:
                    okt = True
                else:
                    ctx.finding(
                        R,
                        t,
                        "randomness test on unconverted elements",
                        f"toDistribution decides whether a container is random with `{norm_text(t, 70)}`, which looks at the raw elements: an inner list / tuple holding a "
                        f"random value is an ordinary Python list (not lazy), so `[[Range(0, 1), 5], 7]` is treated as a constant",
                    )
                    okt = None
        if okt is True:
            ctx.ok(R, c, "the randomness test ranges over the converted elements")
        elif okt is False:
            raise AnalysisError("shape not recognised: randomness test of toDistribution's container branch")
    # any other randomness test of the function that ranges over the RAW container (e.g. an early "nothing to wrap" exit)
    for t in walk_local(fn):
        if not (isinstance(t, ast.Call) and dotted(t.func) in ("any", "all") and t.args and t not in [x for c in builds for x, _ in lib.guard_tests(c, fn)]):
            continue
        g = t.args[0]
        if isinstance(g, (ast.GeneratorExp, ast.ListComp)) and len(g.generators) == 1 and isinstance(g.elt, ast.Call) and dotted(g.elt.func) in ("isLazy", "needsSampling", "needsLazyEvaluation"):
            it = g.generators[0].iter
            if isinstance(it, ast.Name) and it.id == v:
                ctx.finding(
                    R,
                    t,
                    "randomness test on unconverted elements",
                    f"toDistribution tests `{norm_text(t, 70)}` on the raw elements of the container: an inner list / tuple holding a random value is an ordinary "
                    f"Python object (not lazy), so `[[Range(0, 1), 5], 7]` is taken for a constant and its random element is never sampled",
                )
    fd = model.func(DI, "FunctionDistribution.__init__")
    t = {lib.role_text(fd, n.value) for n in walk_local(fd) if isinstance(n, ast.Assign)}
    pa, pk = fd.args.args[2].arg, fd.args.args[3].arg
    if lib.role_text(None, f"tuple(toDistribution(a) for a in {pa})") in t and lib.role_text(None, f"{{n: toDistribution(a) for n, a in {pk}.items()}}") in t:
        ctx.ok(R, fd, "FunctionDistribution converts every positional and keyword argument")
    else:
        ctx.finding(R, fd, "FunctionDistribution argument conversion", "FunctionDistribution.__init__ no longer applies toDistribution to every positional and keyword argument")


def _mentions_plain(e, name):
    """e is `name`, `*name`, or an addition/tuple containing it (not a comprehension over it)."""
    if isinstance(e, ast.Starred):
        e = e.value
    if isinstance(e, ast.Name):
        return e.id == name
    if isinstance(e, ast.BinOp) and isinstance(e.op, ast.Add):
        return _mentions_plain(e.left, name) or _mentions_plain(e.right, name)
    return False


def check_evaluate_inner(ctx, R="C05.rebuild"):
    ctx.rule(
        R,
        "G3: every evaluateInner in distributions.py / vectors.py / type_support.py / object_types.py rebuilds its object with a constructor "
        "call that binds to the class's __init__, each argument reading the field that stores that parameter, dependency fields wrapped in "
        "valueInContext(·, context); and every name used in these methods resolves (G1)",
    )
    model = ctx.model
    classes = [c for c in core_classes_with(model, "evaluateInner") if not c.module.name.endswith("regions")]
    ctx.floor(R, len(classes), 14, "evaluateInner implementations outside regions.py")
    n = 0
    for ci in classes:
        fn = ci.methods["evaluateInner"]
        n += samplable.check_rebuild(ctx, R, ci, fn, "evaluateInner")
        bad = lib.unresolved_names(model, fn)
        for b in bad:
            ctx.finding(
                R,
                b,
                f"{ci.name}.evaluateInner name {b.id}",
                f"{ci.name}.evaluateInner: name `{b.id}` is bound in no scope (comprehension variables here are "
                f"{sorted({x.id for g in ast.walk(lib.statement_of(b)) if isinstance(g, ast.comprehension) for x in ast.walk(g.target) if isinstance(x, ast.Name)})}); evaluating this expression raises NameError",
            )
        if not bad:
            ctx.ok(R, fn, f"{ci.name}.evaluateInner: every name resolves")
    ctx.floor(R, n, 10, "constructor calls in evaluateInner")


# frozen table of algebraic identities  x <op> e == x  for every number x (reason per entry)
IDENTITIES = {
    "__add__": (0, "x + 0 == x"),
    "__radd__": (0, "0 + x == x"),
    "__sub__": (0, "x - 0 == x"),
    "__mul__": (1, "x * 1 == x"),
    "__rmul__": (1, "1 * x == x"),
    "__truediv__": (1, "x / 1 == x"),
    "__pow__": (1, "x ** 1 == x"),
}
NOT_IDENTITIES = {
    "__floordiv__": "x // 1 == floor(x), which differs from x for non-integers",
    "__rsub__": "0 - x == -x",
    "__rtruediv__": "1 / x != x",
    "__rfloordiv__": "1 // x != x",
    "__rpow__": "1 ** x == 1",
    "__mod__": "x % 1 != x",
    "__rmod__": "1 % x != x",
}


def check_shortcuts(ctx, R="C05.shortcut"):
    ctx.rule(
        R,
        "algebraic shortcuts in operator handlers: every early `return self` is dominated by (a) a test that the other operand is not lazy / "
        "random, (b) a value test, and (c) for scalar operators the (operator, neutral element) pair is a true identity of Python arithmetic "
        "for every number (frozen table), with the operand's value type tested",
    )
    model = ctx.model
    f = model.func(DI, "makeOperatorHandler")
    n = 0
    # map each inner handler to the operator group guarding its definition
    for node in ast.walk(f):
        if not isinstance(node, ast.If):
            continue
    groups = []

    def visit(stmts):
        for s in stmts:
            if isinstance(s, ast.If):
                ops = None
                t = s.test
                if isinstance(t, ast.Compare) and len(t.ops) == 1 and isinstance(t.ops[0], ast.In) and unparse(t.left) == "op":
                    try:
                        ops = list(ast.literal_eval(t.comparators[0]))
                    except Exception:
                        ops = None
                elif isinstance(t, ast.Compare) and len(t.ops) == 1 and isinstance(t.ops[0], ast.Eq) and unparse(t.left) == "op":
                    ops = [lib.const(t.comparators[0])]
                hs = [x for x in s.body if isinstance(x, ast.FunctionDef)]
                if ops is not None and hs:
                    groups.append((ops, hs[0]))
                visit(s.orelse)

    visit(f.body)
    if len(groups) < 3:
        raise AnalysisError("shape not recognised: makeOperatorHandler operator groups")
    for ops, h in groups:
        arg = h.args.args[1].arg if len(h.args.args) > 1 else None
        for r in lib.returns_of(h):
            if r.value is None or unparse(r.value) != "self":
                continue
            n += 1
            tests = []
            for t, p in lib.guard_tests(r, h):
                if p:
                    tests.extend(t.values if isinstance(t, ast.BoolOp) and isinstance(t.op, ast.And) else [t])
            txt = [unparse(t) for t in tests]
            lazy_ok = f"not isLazy({arg})" in txt
            numeric = "issubclass(self._valueType, numbers.Number)" in txt
            orient = any("Orientation" in t and "issubclass(self._valueType" in t for t in txt)
            vals = [t for t in tests if isinstance(t, ast.Compare) and len(t.ops) == 1 and isinstance(t.ops[0], ast.Eq) and unparse(t.left) == arg]
            if not lazy_ok:
                ctx.finding(R, r, f"shortcut {ops} not lazy-guarded", f"operator shortcut for {ops}: `return self` is not guarded by `not isLazy({arg})`; a random or delayed operand would be compared with a constant")
                continue
            if not vals or not (numeric or orient):
                ctx.finding(R, r, f"shortcut {ops} unguarded", f"operator shortcut for {ops}: `return self` lacks a value test of `{arg}` together with a value-type test of self (guards: {txt})")
                continue
            if numeric:
                neutral = lib.const(vals[0].comparators[0])
                bad = []
                for op in ops:
                    if op in IDENTITIES and IDENTITIES[op][0] == neutral:
                        continue
                    bad.append(op)
                if bad:
                    for op in bad:
                        why = NOT_IDENTITIES.get(op, f"({op}, {neutral}) is not in the table of identities")
                        ctx.finding(
                            R,
                            r,
                            f"shortcut {op} neutral {neutral}",
                            f"operator shortcut: `X.{op}({neutral})` is simplified to X, but {why}; the value in the scene differs from what Python computes on the sample",
                        )
                good = [op for op in ops if op not in bad]
                if good:
                    ctx.ok(R, r, f"shortcut {good} with neutral element {neutral}: " + "; ".join(IDENTITIES[o][1] for o in good))
            else:
                ctx.ok(R, r, f"shortcut {ops}: composition with the global (identity) orientation")
    # vector handlers
    for q in ("makeVectorOperatorHandler", "vectorOperator"):
        outer = model.func(VE, q)
        for h in [x for x in ast.walk(outer) if isinstance(x, ast.FunctionDef) and x is not outer]:
            for r in lib.returns_of(h):
                if r.value is None or unparse(r.value) != "self":
                    continue
                n += 1
                pos = [unparse(v) for t, p in lib.guard_tests(r, h) if p for v in (t.values if isinstance(t, ast.BoolOp) else [t])]
                prior = [unparse(t) for t in lib.prior_exit_guards(r, h)]
                flag = [x for x in pos if x in ("zeroIdentity", "preservesZero")]
                zero = [x for x in pos if "coord == 0 for coord in" in x]
                if "preservesZero" in flag:
                    lazy = "not needsSampling(self)" in pos
                    subject = any("self.coordinates" in z for z in zero)
                elif "zeroIdentity" in flag:
                    lazy = "not isLazy(args[0])" in pos or (
                        any("needsSampling(arg) for arg in args" in p for p in prior) and any("needsLazyEvaluation(arg) for arg in args" in p for p in prior)
                    )
                    subject = any("args[0]" in z for z in zero)
                else:
                    lazy = subject = False
                if flag and zero and lazy and subject:
                    ctx.ok(R, r, f"{q}: `return self` under {flag[0]} with the zero test on a non-lazy operand")
                else:
                    ctx.finding(R, r, f"{q} zero shortcut guards", f"{q}: `return self` is not guarded by the operator's zero flag, a non-lazy test and the all-coordinates-zero test of the right operand (guards {pos})")
    ctx.floor(R, n, 6, "early `return self` shortcuts")
    # which vector operators claim zero-identity / zero-preservation: frozen table
    m = model.module(VE)
    zid, zpr = [], []
    for q, fn in m.functions.items():
        for d in fn.decorator_list:
            dn = dotted(d)
            if dn == "zeroIdentityVectorOperator":
                zid.append(fn.name)
            if dn == "zeroPreservingVectorOperator":
                zpr.append(fn.name)
    ok_id = {"__add__", "__radd__", "__sub__", "offsetLocally", "offsetRotated"}  # v op 0 == v
    ok_pr = {"rotatedBy", "applyRotation", "__mul__", "__rmul__", "__truediv__", "__neg__"}  # op(0, ·) == 0
    for nme in zid:
        if nme in ok_id:
            ctx.ok(R, m.functions.get(f"Vector.{nme}", m.tree), f"Vector.{nme}: the zero vector is a right identity")
        else:
            ctx.finding(R, m.functions.get(f"Vector.{nme}", m.tree), f"zeroIdentity {nme}", f"Vector.{nme} is declared zero-identity but `v.{nme}(0) == v` is not in the table of known identities {sorted(ok_id)}")
    for nme in zpr:
        if nme in ok_pr:
            ctx.ok(R, m.functions.get(f"Vector.{nme}", m.tree), f"Vector.{nme}: maps the zero vector to itself")
        else:
            ctx.finding(R, m.functions.get(f"Vector.{nme}", m.tree), f"zeroPreserving {nme}", f"Vector.{nme} is declared zero-preserving but is not in the table {sorted(ok_pr)}")


def check_support(ctx, R="C05.support"):
    ctx.rule(
        R,
        "support intervals: (a) OperatorDistribution.supportInterval implements the textbook interval formulas (LinForm comparison); "
        "(b) G18: no arithmetic / ordering on a bound that may be None without a dominating `is None` test; (c) only functions that are "
        "non-decreasing in every argument over all reals may be wrapped by monotonicDistributionFunction (frozen allow-list); "
        "(d) multiplexer / range supports are unions over all alternatives",
    )
    model = ctx.model
    f = model.func(DI, "OperatorDistribution.supportInterval")
    # discover the names of the four bounds (binary operators) and of the two bounds of the unary branch
    unp = [n for n in walk_local(f) if isinstance(n, ast.Assign) and isinstance(n.targets[0], ast.Tuple) and isinstance(n.value, ast.Call) and dotted(n.value.func) == "supportInterval"]
    names = {}
    for n in unp:
        a = unparse(n.value.args[0])
        els = [e.id for e in n.targets[0].elts if isinstance(e, ast.Name)]
        if a == "self.operands[0]" and len(els) == 2:
            names["l2"], names["r2"] = els
    for n in unp:
        a = unparse(n.value.args[0])
        els = [e.id for e in n.targets[0].elts if isinstance(e, ast.Name)]
        if a == "self.object" and len(els) == 2:
            # the binary branch unpacks self.object next to self.operands[0]; the unary branch unpacks it alone
            sib = [m for m in unp if m is not n and getattr(m, "_parent", None) is getattr(n, "_parent", None) and unparse(m.value.args[0]) == "self.operands[0]"]
            if sib:
                names["l1"], names["r1"] = els
            else:
                names["l"], names["r"] = els
    if not all(k in names for k in ("l1", "r1", "l2", "r2")):
        raise AnalysisError("shape not recognised: OperatorDistribution.supportInterval bound names")
    bound_names = set(names.values())

    def canon_env(env, unary):
        """substitution that maps the method's own names for the operand bounds to l1/r1/l2/r2 (binary) or l/r (unary)"""
        e2 = dict(env)
        ren = {names[k]: k for k in (("l", "r") if unary else ("l1", "r1", "l2", "r2")) if k in names}
        for k, v in list(env.items()):
            if isinstance(v, ast.Name) and v.id.startswith("<") and "@" in v.id:
                base = v.id[1:].split("@")[0]
                if base in ren and k == base:
                    e2[k] = ast.Name(id="_b_" + ren[base], ctx=ast.Load())
        return e2

    def resolve(e, env, depth=0):
        """e with locals replaced by their values on this path (opaque operand bounds become _b_l1 ...)"""
        if depth > 8:
            return e

        class T(ast.NodeTransformer):
            def visit_Name(self, n):
                if n.id in env and isinstance(n.ctx, ast.Load):
                    v = env[n.id]
                    if isinstance(v, ast.Name) and v.id == n.id:
                        return n
                    return resolve(v, env, depth + 1)
                return n

        return T().visit(lib._clone(e))

    def atoms_of(asm, env):
        """the path's assumptions as a set of canonical true comparisons over _b_l1 ..."""
        out = set()
        for t0, v in lib.assumption_atoms(asm):
            t = resolve(t0, env)
            if not v:
                t = _negate_order(t)
            out.add(lib.ctext(t))
        return out

    def decide_for(op):
        def decide(test, env, asm):
            if isinstance(test, ast.BoolOp):
                vals = [decide(v, env, asm) for v in test.values]
                if isinstance(test.op, ast.Or):
                    if any(v is True for v in vals):
                        return True
                    return False if all(v is False for v in vals) else None
                if any(v is False for v in vals):
                    return False
                return True if all(v is True for v in vals) else None
            if isinstance(test, ast.UnaryOp) and isinstance(test.op, ast.Not):
                v = decide(test.operand, env, asm)
                return None if v is None else not v
            if isinstance(test, ast.Compare) and len(test.ops) == 1:
                l, o, r = test.left, test.ops[0], test.comparators[0]
                if unparse(r) == "self.operator" and isinstance(o, (ast.Eq, ast.NotEq)):
                    l, r = r, l
                if unparse(l) == "self.operator":
                    try:
                        val = ast.literal_eval(r)
                    except Exception:
                        return None
                    if isinstance(o, ast.Eq):
                        return op == val
                    if isinstance(o, ast.NotEq):
                        return op != val
                    if isinstance(o, ast.In):
                        return op in val
                    if isinstance(o, ast.NotIn):
                        return op not in val
                # the operands' supports are known on the paths compared with the table
                if isinstance(o, (ast.Is, ast.IsNot)) and isinstance(r, ast.Constant) and r.value is None and isinstance(l, ast.Name) and l.id in bound_names:
                    return isinstance(o, ast.IsNot)
            return None

        return decide

    def is_none(e):
        return isinstance(e, ast.Constant) and e.value is None

    def results(op, unary):
        out = []
        for asm, env, ex in lib.enumerate_paths(f, decide=decide_for(op)):
            if isinstance(ex, ast.Raise) or ex is None:
                continue
            env = canon_env(env, unary)
            v = resolve(ex.value, env) if ex.value is not None else None
            if not (isinstance(v, ast.Tuple) and len(v.elts) == 2):
                out.append((ex, None, None, set()))
                continue
            out.append((ex, v.elts[0], v.elts[1], atoms_of(asm, env)))
        return out

    def same(e, want):
        try:
            return equal(lin(e), lin_src(want))
        except RecursionError:
            return False

    nchk = 0
    table = {
        "__add__": ("_b_l1 + _b_l2", "_b_r1 + _b_r2"),
        "__radd__": ("_b_l1 + _b_l2", "_b_r1 + _b_r2"),
        "__sub__": ("_b_l1 - _b_r2", "_b_r1 - _b_l2"),
        "__rsub__": ("_b_l2 - _b_r1", "_b_r2 - _b_l1"),
    }

    def T(text):
        return text.replace("_b_", "")

    for op, (wl, wr) in table.items():
        for ex, lo, hi, atoms in results(op, False):
            nchk += 1
            if lo is not None and same(lo, wl) and same(hi, wr):
                ctx.ok(R, ex, f"support of {op}: [{T(wl)}, {T(wr)}]")
            else:
                ctx.finding(R, ex, f"support formula {op}", f"support of `{op}` is computed as [{T(unparse(lo)) if lo is not None else '?'}, {T(unparse(hi)) if hi is not None else '?'}], interval arithmetic requires [{T(wl)}, {T(wr)}]")
    want_prods = {tuple(sorted(lin_src(x).items())) for x in ("_b_l1 * _b_l2", "_b_l1 * _b_r2", "_b_r1 * _b_l2", "_b_r1 * _b_r2")}

    def extremum(e, fname):
        """e is fname(the four endpoint products)"""
        if not (isinstance(e, ast.Call) and dotted(e.func) == fname and not e.keywords):
            return False
        args = e.args
        if len(args) == 1 and isinstance(args[0], ast.Starred):
            args = [args[0].value]
        if len(args) == 1 and isinstance(args[0], (ast.Tuple, ast.List)):
            args = args[0].elts
        return len(args) == 4 and {tuple(sorted(lin(a).items())) for a in args} == want_prods

    for op in ("__mul__", "__rmul__"):
        for ex, lo, hi, atoms in results(op, False):
            nchk += 1
            if lo is not None and extremum(lo, "min") and extremum(hi, "max"):
                ctx.ok(R, ex, f"support of {op}: min/max of the four endpoint products")
            else:
                ctx.finding(R, ex, f"support formula {op}", f"support of `{op}` is not [min, max] of the four endpoint products")
    for op, (nl, nr), (dl, dr) in (("__truediv__", ("_b_l1", "_b_r1"), ("_b_l2", "_b_r2")), ("__rtruediv__", ("_b_l2", "_b_r2"), ("_b_l1", "_b_r1"))):
        for ex, lo, hi, atoms in results(op, False):
            nchk += 1
            if lo is None:
                ctx.finding(R, ex, f"support formula {op}", f"support of `{op}`: a path returns something other than a pair of bounds")
                continue
            if lib.ctext_of(f"{dl} > 0") not in atoms:
                # divisor not known to be positive: only "unknown" is a sound answer the table accepts
                if is_none(lo) and is_none(hi):
                    ctx.ok(R, ex, f"support of {op}: unknown unless the divisor is positive")
                else:
                    ctx.finding(R, ex, f"support formula {op}", f"support of `{op}`: on a path where the divisor's lower bound `{T(dl)}` is not known to be positive (assumed: {sorted(T(a) for a in atoms)}) the result is [{T(unparse(lo))}, {T(unparse(hi))}] rather than unknown")
                continue
            wl = f"{nl} / {dr}" if lib.ctext_of(f"{nl} >= 0") in atoms else f"{nl} / {dl}" if lib.ctext_of(f"{nl} < 0") in atoms else None
            wr = f"{nr} / {dl}" if lib.ctext_of(f"{nr} >= 0") in atoms else f"{nr} / {dr}" if lib.ctext_of(f"{nr} < 0") in atoms else None
            if wl and wr and same(lo, wl) and same(hi, wr):
                ctx.ok(R, ex, f"support of {op}: sign-guarded quotient for a positive divisor ({sorted(T(a) for a in atoms)})")
            else:
                ctx.finding(
                    R,
                    ex,
                    f"support formula {op}",
                    f"support of `{op}`: for a positive divisor the bounds must be l = {T(nl)} / {T(dr)} if {T(nl)} >= 0 else {T(nl)} / {T(dl)}; r = {T(nr)} / {T(dl)} if {T(nr)} >= 0 else {T(nr)} / {T(dr)}; "
                    f"on the path assuming {sorted(T(a) for a in atoms)} the result is [{T(unparse(lo))}, {T(unparse(hi))}]",
                )
    if "l" in names:
        for ex, lo, hi, atoms in results("__neg__", True):
            nchk += 1
            if lo is not None and same(lo, "-_b_r") and same(hi, "-_b_l"):
                ctx.ok(R, ex, "support of __neg__: [-r, -l]")
            else:
                ctx.finding(R, ex, "support formula __neg__", f"support of `__neg__` is [{T(unparse(lo)) if lo is not None else '?'}, {T(unparse(hi)) if hi is not None else '?'}], negation requires [-r, -l]")
        for ex, lo, hi, atoms in results("__abs__", True):
            nchk += 1
            if lo is None:
                ctx.finding(R, ex, "support formula __abs__", "support of `__abs__`: a path returns something other than a pair of bounds")
                continue
            if lib.ctext_of("_b_r < 0") in atoms:
                good = same(lo, "-_b_r") and same(hi, "-_b_l")
                want = "[-r, -l] (all values negative)"
            elif lib.ctext_of("_b_l < 0") in atoms and lib.ctext_of("_b_r >= 0") in atoms:
                good = isinstance(lo, ast.Constant) and lo.value == 0 and isinstance(hi, ast.Call) and dotted(hi.func) == "max" and len(hi.args) == 2 and {tuple(sorted(lin(a).items())) for a in hi.args} == {tuple(sorted(lin_src(x).items())) for x in ("-_b_l", "_b_r")}
                want = "[0, max(-l, r)] (the interval straddles zero)"
            elif lib.ctext_of("_b_l >= 0") in atoms:
                good = same(lo, "_b_l") and same(hi, "_b_r")
                want = "[l, r] (all values non-negative)"
            else:
                good, want = False, "one of [-r, -l] / [0, max(-l, r)] / [l, r] chosen by the signs of l and r"
            if good:
                ctx.ok(R, ex, f"support of __abs__: {want}")
            else:
                ctx.finding(R, ex, "support formula __abs__", f"support of `__abs__`: on the path assuming {sorted(T(a) for a in atoms)} the result is [{T(unparse(lo))}, {T(unparse(hi))}], required {want}")
    ctx.floor(R, nchk, 8, "interval-arithmetic result paths compared with the table")
    # (b) None flow in every supportInterval method
    nn = 0
    for ci in core_classes_with(model, "supportInterval"):
        fn = ci.methods["supportInterval"]
        nn += 1
        bads = sorted(none_flows(fn), key=lambda b: (b.lineno, b.col_offset))
        if bads:
            bad = bads[0]
            stmts = sorted({norm_text(lib.statement_of(b), 50) for b in bads})
            ctx.finding(
                R,
                bad,
                f"{ci.name}.supportInterval None-flow",
                f"{ci.name}.supportInterval: {stmts} do arithmetic / ordering on bounds ({sorted({b.id for b in bads})}) that are None "
                f"when the operand's support is unknown, without a dominating `is None` test (TypeError at compile time)",
            )
        else:
            ctx.ok(R, fn, f"{ci.name}.supportInterval: no arithmetic on a possibly-None bound")
    ctx.floor(R, nn, 8, "supportInterval implementations")
    # (c) monotone allow-list
    MONOTONE_OK = {'__builtins__["max"]': "max is non-decreasing in every argument", '__builtins__["min"]': "min is non-decreasing in every argument", "max": "builtin max", "min": "builtin min"}
    nm = 0
    for mn in (GE, DI, VE, "scenic.core.object_types", "scenic.syntax.veneer"):
        m = model.module(mn)
        for q, fn in m.functions.items():
            if any(dotted(d) == "monotonicDistributionFunction" for d in fn.decorator_list):
                nm += 1
                rets = [r for r in lib.returns_of(fn) if r.value is not None]
                callee = None
                if len(rets) == 1 and isinstance(rets[0].value, ast.Call):
                    callee = unparse(rets[0].value.func).replace("'", '"')
                if callee in MONOTONE_OK:
                    ctx.ok(R, fn, f"{q} is wrapped as monotonic: {MONOTONE_OK[callee]}")
                else:
                    ctx.finding(
                        R,
                        fn,
                        f"monotonic wrapper {q}",
                        f"`{q}` (body `{callee}`) is declared monotonic, so its support is computed as f(lower bounds)..f(upper bounds); "
                        f"it is not in the allow-list of functions non-decreasing over all reals (e.g. hypot decreases on negatives: "
                        f"hypot(-3) > hypot(1)), so reported bounds can exclude attainable values",
                    )
    ctx.floor(R, nm, 2, "monotonicDistributionFunction uses")
    # (d) unions over all alternatives
    for q, want in (("MultiplexerDistribution.supportInterval", "unionOfSupports((supportInterval(opt) for opt in self.options))"), ("Range.supportInterval", "unionOfSupports((supportInterval(self.low), supportInterval(self.high)))")):
        fn = model.func(DI, q)
        rets = [r for r in lib.returns_of(fn) if r.value is not None]
        if len(rets) == 1 and unparse(rets[0].value) == want:
            ctx.ok(R, fn, f"{q} is the union of the supports of all alternatives")
        else:
            ctx.finding(R, fn, f"{q} union", f"{q} is not `{want}`")
    fn = model.func(DI, "unionOfSupports")
    zipped = [n for n in walk_local(fn) if isinstance(n, ast.Assign) and isinstance(n.targets[0], ast.Tuple) and len(n.targets[0].elts) == 2 and unparse(n.value).startswith("zip(*")]
    rets = [r for r in lib.returns_of(fn) if r.value is not None]
    ok_u = False
    if zipped and len(rets) == 1 and all(isinstance(e, ast.Name) for e in zipped[0].targets[0].elts):
        a, b = (e.id for e in zipped[0].targets[0].elts)
        ok_u = unparse(rets[0].value) == f"(supmin(*{a}), supmax(*{b}))"
    if ok_u:
        ctx.ok(R, fn, "unionOfSupports = (None-aware min of lower bounds, None-aware max of upper bounds)")
    else:
        ctx.finding(R, fn, "unionOfSupports", "unionOfSupports is not (supmin(*mins), supmax(*maxes))")


_INV_ORDER = {ast.Lt: ast.GtE, ast.GtE: ast.Lt, ast.Gt: ast.LtE, ast.LtE: ast.Gt}


def _negate_order(t):
    """`not t` for an ordering comparison of real bounds (no NaN: the bounds are finite or infinite reals)"""
    if isinstance(t, ast.Compare) and len(t.ops) == 1 and type(t.ops[0]) in _INV_ORDER:
        return ast.Compare(left=t.left, ops=[_INV_ORDER[type(t.ops[0])]()], comparators=t.comparators)
    from ..model import negate

    return negate(t)


def _ops_of_test(t):
    out = []
    if isinstance(t, ast.Compare) and len(t.ops) == 1 and unparse(t.left) == "self.operator":
        if isinstance(t.ops[0], ast.Eq) and isinstance(t.comparators[0], ast.Constant):
            out.append(t.comparators[0].value)
        elif isinstance(t.ops[0], ast.In):
            try:
                out.extend(ast.literal_eval(t.comparators[0]))
            except Exception:
                pass
    elif isinstance(t, ast.BoolOp) and isinstance(t.op, ast.Or):
        for v in t.values:
            out.extend(_ops_of_test(v))
    return out


def none_flows(fn):
    """Uses of possibly-None support bounds in arithmetic / ordering without an `is None` guard."""
    maybe = set()
    for n in walk_local(fn):
        if isinstance(n, ast.Assign) and isinstance(n.targets[0], ast.Tuple) and isinstance(n.value, ast.Call) and dotted(n.value.func) in ("supportInterval", "unionOfSupports"):
            for e in n.targets[0].elts:
                if isinstance(e, ast.Name):
                    maybe.add(e.id)
    bad = []
    for n in walk_local(fn):
        if not (isinstance(n, ast.Name) and n.id in maybe and isinstance(n.ctx, ast.Load)):
            continue
        p = parent(n)
        arith = isinstance(p, (ast.BinOp, ast.UnaryOp)) and not (isinstance(p, ast.UnaryOp) and isinstance(p.op, ast.Not))
        order = isinstance(p, ast.Compare) and any(isinstance(o, (ast.Lt, ast.LtE, ast.Gt, ast.GtE)) for o in p.ops)
        callarg = isinstance(p, ast.Call) and dotted(p.func) in ("min", "max", "abs", "math.hypot")
        if not (arith or order or callarg):
            continue
        if _none_guarded(n, fn):
            continue
        bad.append(n)
    return bad


def _none_guarded(n, fn):
    name = n.id
    for t, pol in lib.guard_tests(n, fn):
        s = unparse(t)
        if pol and f"{name} is not None" in s:
            return True
        if not pol and f"{name} is None" in s:
            return True
    st = lib.statement_of(n)
    for t in lib.prior_exit_guards(st, fn):
        if f"{name} is None" in unparse(t):
            return True
    # conditional expression:  None if x is None else <use of x>
    p, child = parent(n), n
    while p is not None and not isinstance(p, ast.stmt):
        if isinstance(p, ast.IfExp):
            s = unparse(p.test)
            if any(x is child for x in ast.walk(p.orelse)) and f"{name} is None" in s:
                return True
            if any(x is child for x in ast.walk(p.body)) and f"{name} is not None" in s:
                return True
        child, p = p, parent(p)
    return False


def check_names(ctx, R="C05.names"):
    ctx.rule(R, "G1 over vectors.py, distributions.py, lazy_eval.py and type_support.py: every name read in every function resolves to a binding")
    model = ctx.model
    n = 0
    for mn in (VE, DI, LE, "scenic.core.type_support"):
        m = model.module(mn)
        for q, fn in m.functions.items():
            if isinstance(parent(fn), (ast.FunctionDef, ast.AsyncFunctionDef)):
                continue  # nested functions are visited with their parent
            n += 1
            if q.endswith(".evaluateInner"):
                continue  # reported by C05.rebuild
            bad = lib.unresolved_names(model, fn)
            for b in bad:
                ctx.finding(R, b, f"{q} name {b.id}", f"{q}: name `{b.id}` is bound in no scope; this expression raises NameError when reached")
            if not bad:
                ctx.ok(R, fn, f"{q}: all names resolve")
    ctx.floor(R, n, 250, "functions in the expression-lifting modules")


def check_operands(ctx, R="C05.operands"):
    ctx.rule(
        R,
        "operands of lifted operators are lifted: OperatorDistribution.__init__ applies toDistribution to every positional and keyword operand, or else "
        "every construction site hands it operands that were converted (a list / tuple argument holding a random value, e.g. `dist.method([Range(0, 1), 2])` "
        "or `dist(x, key=[...])`, is otherwise an ordinary Python object: not a dependency, never sampled)",
    )
    model = ctx.model
    init = model.func(DI, "OperatorDistribution.__init__")
    pa, pk = init.args.args[3].arg, init.args.args[4].arg
    t = {lib.role_text(init, n.value) for n in walk_local(init) if isinstance(n, ast.Assign)}
    lifts_pos = any(lib.role_text(None, f"{w}(toDistribution(a) for a in {pa})") in t for w in ("tuple", "list")) or lib.role_text(None, f"[toDistribution(a) for a in {pa}]") in t
    lifts_kw = lib.role_text(None, f"{{n: toDistribution(a) for n, a in {pk}.items()}}") in t
    if lifts_pos and lifts_kw:
        ctx.ok(R, init, "OperatorDistribution.__init__ converts every positional and keyword operand")
        return
    m = model.module(DI)
    n = 0
    for q, fn in m.functions.items():
        for c in walk_local(fn):
            if not (isinstance(c, ast.Call) and dotted(c.func) == "OperatorDistribution" and len(c.args) >= 4):
                continue
            n += 1
            for which, arg, lifted in (("positional", c.args[2], lifts_pos), ("keyword", c.args[3], lifts_kw)):
                if lifted:
                    continue
                txt = lib.role_text(fn, arg)
                empty = isinstance(arg, (ast.Dict, ast.Tuple)) and not (arg.keys if isinstance(arg, ast.Dict) else arg.elts)
                if empty or "toDistribution(" in txt:
                    ctx.ok(R, c, f"{q}: {which} operands `{norm_text(arg, 40)}` are converted at the construction site")
                else:
                    ctx.finding(
                        R,
                        c,
                        f"{q} passes unconverted {which} operands",
                        f"OperatorDistribution.__init__ no longer applies toDistribution to its {which} operands and {q} constructs `{norm_text(c, 70)}` with `{norm_text(arg, 30)}` as they "
                        f"came from the caller: a list / tuple argument holding a random value is not lifted, so it is no dependency of the result and reaches the operator unsampled",
                    )
    ctx.floor(R, n, 5, "construction sites of OperatorDistribution")


def check_custom_supports(ctx, R="C05.support"):
    """custom support functions (not monotone): hypot"""
    model = ctx.model
    GE = "scenic.core.geometry"
    fn = model.try_func(GE, "_hypotSupport")
    if fn is None:
        return
    lo_list = None
    rets = [r for r in lib.returns_of(fn) if isinstance(r.value, ast.Tuple) and len(r.value.elts) == 2]
    if len(rets) != 1:
        raise AnalysisError("shape not recognised: return of geometry._hypotSupport")
    lowc = rets[0].value.elts[0]
    if isinstance(lowc, ast.Call) and dotted(lowc.func) == "math.hypot" and len(lowc.args) == 1 and isinstance(lowc.args[0], ast.Starred) and isinstance(lowc.args[0].value, ast.Name):
        lo_list = lowc.args[0].value.id
    else:
        raise AnalysisError("shape not recognised: lower bound of geometry._hypotSupport")
    loops = [l for l in walk_local(fn) if isinstance(l, ast.For) and isinstance(l.target, ast.Tuple) and len(l.target.elts) == 2 and all(isinstance(e, ast.Name) for e in l.target.elts)]
    if len(loops) != 1:
        raise AnalysisError("shape not recognised: loop of geometry._hypotSupport")
    lo, hi = (e.id for e in loops[0].target.elts)
    n = 0
    for c in walk_local(fn):
        if not (isinstance(c, ast.Call) and isinstance(c.func, ast.Attribute) and c.func.attr == "append" and isinstance(c.func.value, ast.Name) and c.func.value.id == lo_list and len(c.args) == 1):
            continue
        n += 1
        a = c.args[0]
        if isinstance(a, ast.Constant) and a.value == 0:
            ctx.ok(R, c, "_hypotSupport: lower contribution 0")
            continue
        # a positive contribution |v| >= m needs the interval to be sign-definite: low >= 0 (m = low) or high <= 0 (m = -high)
        tests = [(unparse(t).replace(" ", ""), pol) for t, pol in lib.flatten_conditions(lib.guard_tests(c, fn))] if hasattr(lib, "flatten_conditions") else []
        txt = unparse(a).replace(" ", "")
        nonneg = any(pol and t_ in (f"{lo}>=0", f"{lo}>0", f"0<={lo}", f"0<{lo}") for t_, pol in tests)
        nonpos = any(pol and t_ in (f"{hi}<=0", f"{hi}<0", f"0>={hi}", f"0>{hi}") for t_, pol in tests)
        if (nonneg and txt == lo) or (nonpos and txt in (f"-{hi}", f"abs({hi})")) or (nonneg and txt == f"abs({lo})"):
            ctx.ok(R, c, f"_hypotSupport: lower contribution {txt} under a sign-definite interval")
        else:
            ctx.finding(
                R,
                c,
                "_hypotSupport lower bound without sign test",
                f"geometry._hypotSupport contributes `{unparse(a)}` to the lower bound of hypot without having established `{lo} >= 0` (then {lo}) or `{hi} <= 0` (then -{hi}): "
                f"for an argument whose interval straddles 0, e.g. Range(-3, 4), |x| can be 0, so the reported support of hypot(x, ...) excludes attainable values",
            )
    ctx.floor(R, n, 3, "contributions to the lower bound of hypot")


def check_conditioned(ctx, R="C05.conditioned"):
    ctx.rule(
        R,
        "Samplable.sample draws the dependencies of the object whose sampleGiven it then calls (the conditioned version, `self._conditioned`): "
        "after `conditionTo` (pruning, `require x == y` shortcuts) the two differ, and sampling the dependencies of the unconditioned object leaves the "
        "dependencies of the conditioned one unsampled (DefaultIdentityDict then hands back the Distribution object itself as its 'value')",
    )
    model = ctx.model
    fn = model.func(DI, "Samplable.sample")
    givens = [c for c in walk_local(fn) if isinstance(c, ast.Call) and isinstance(c.func, ast.Attribute) and c.func.attr == "sampleGiven"]
    loops = [l for l in walk_local(fn) if isinstance(l, ast.For) and isinstance(l.iter, ast.Attribute) and l.iter.attr in ("_dependencies", "_conditionedDependencies")]
    if len(givens) != 1 or len(loops) != 1:
        raise AnalysisError("shape not recognised: Samplable.sample (one dependency loop, one sampleGiven call expected)")
    recv_given = lib.role_text(fn, givens[0].func.value)
    recv_deps = lib.role_text(fn, loops[0].iter.value)
    if recv_given == recv_deps:
        ctx.ok(R, fn, f"Samplable.sample: dependencies and sampleGiven both of `{recv_given}`")
    else:
        ctx.finding(
            R,
            loops[0],
            "Samplable.sample samples the dependencies of another object",
            f"Samplable.sample samples the dependencies of `{recv_deps}` but calls sampleGiven on `{recv_given}`: for a value conditioned to another random value "
            f"(conditionTo) the dependencies of the conditioned version are never sampled and reach sampleGiven as unsampled Distribution objects",
        )


def check(ctx):
    ctx.run(check_lifting)
    ctx.run(check_containers)
    ctx.run(check_evaluate_inner)
    ctx.run(check_shortcuts)
    ctx.run(check_support)
    ctx.run(check_custom_supports)
    ctx.run(check_operands)
    ctx.run(check_conditioned)
    ctx.run(check_names)
