"""C07 -- built-in specifiers and operators have their documented geometric meaning (structural part)."""

import ast
import itertools
import math

from .. import compiler_ir, lib, specs
from ..linform import equal, fmt, lin, lin_src
from ..model import AnalysisError, ClassInfo, dotted, norm_text, parent, unparse, walk_local

VE = "scenic.syntax.veneer"
OT = "scenic.core.object_types"
SA = "scenic.syntax.ast"

# (function, axis attribute, component index, sign) -- the documented meaning of the six directional specifiers
DIRECTIONAL = [
    ("LeftSpec", "width", 0, -1, "Left of"),
    ("RightSpec", "width", 0, +1, "Right of"),
    ("Ahead", "length", 1, +1, "Ahead of"),
    ("Behind", "length", 1, -1, "Behind"),
    ("Above", "height", 2, +1, "Above"),
    ("Below", "height", 2, -1, "Below"),
]


def check_directional(ctx, R="C07.directional"):
    ctx.rule(
        R,
        "directional-specifier template: each of left of/right of/ahead of/behind/above/below passes to directionalSpecHelper a makeOffset "
        "lambda equal (as a linear form) to Vector(..) whose component on its own axis i is s*(self.<axis>/2 + d_i + dims[i]/2 + tol) and whose "
        "other components are d_j, the `axis` string equal to the attribute read, and toComponents placing a scalar distance on axis i; "
        "the helper applies the offset in the reference frame (relativePosition / offsetLocally with the new object's orientation) and adds "
        "half the contact tolerance only when no distance is given and the reference is an Object",
    )
    model = ctx.model
    m = model.module(VE)
    for fname, axis, i, sgn, syntax in DIRECTIONAL:
        fn = model.func(VE, fname)
        rets = [r for r in lib.returns_of(fn) if isinstance(r.value, ast.Call) and dotted(r.value.func) == "directionalSpecHelper"]
        if len(rets) != 1:
            raise AnalysisError(f"shape not recognised: veneer.{fname} does not return directionalSpecHelper(...)")
        call = rets[0].value
        helper = model.func(VE, "directionalSpecHelper")
        params = [a.arg for a in helper.args.args]
        bound = dict(zip(params, call.args))
        bound.update({k.arg: k.value for k in call.keywords if k.arg})
        ok = True
        ax = bound.get("axis")
        if not (isinstance(ax, ast.Constant) and ax.value == axis):
            ok = False
            ctx.finding(R, call, f"{fname} axis", f"veneer.{fname} declares axis `{unparse(ax) if ax is not None else None}`; `{syntax}` depends on the object's `{axis}`")
        syn = bound.get("syntax")
        # positions the operand and the optional distance unchanged
        fparams = [a.arg for a in fn.args.args]
        if not (isinstance(bound.get("pos"), ast.Name) and bound["pos"].id == fparams[0] and isinstance(bound.get("dist"), ast.Name) and bound["dist"].id == fparams[1]):
            ok = False
            ctx.finding(R, call, f"{fname} operands", f"veneer.{fname} does not forward (pos, dist) to directionalSpecHelper")
        tc = bound.get("toComponents")
        if isinstance(tc, ast.Lambda) and isinstance(tc.body, ast.Tuple) and len(tc.body.elts) == 3:
            d = tc.args.args[0].arg
            want = ["0", "0", "0"]
            want[i] = d
            if [unparse(e) for e in tc.body.elts] != want:
                ok = False
                ctx.finding(R, tc, f"{fname} toComponents", f"veneer.{fname}: a scalar distance is placed as {unparse(tc.body)}, `{syntax} X by D` means D along local axis {i}")
        else:
            raise AnalysisError(f"shape not recognised: toComponents of veneer.{fname}")
        mo = bound.get("makeOffset")
        if not (isinstance(mo, ast.Lambda) and isinstance(mo.body, ast.Call) and dotted(mo.body.func) == "Vector" and len(mo.body.args) == 3):
            raise AnalysisError(f"shape not recognised: makeOffset of veneer.{fname}")
        p = [a.arg for a in mo.args.args]
        if len(p) != 6:
            raise AnalysisError(f"shape not recognised: makeOffset parameters of veneer.{fname}")
        selfn, dims, tol, dx, dy, dz = p
        ds = [dx, dy, dz]
        for j, comp in enumerate(mo.body.args):
            if j == i:
                want = lin_src(f"{sgn} * ({selfn}.{axis} / 2 + {ds[j]} + {dims}[{j}] / 2 + {tol})")
            else:
                want = lin_src(ds[j])
            got = lin(comp)
            if equal(got, want):
                continue
            ok = False
            ctx.finding(
                R,
                comp,
                f"{fname} offset component {j}",
                f"veneer.{fname}: component {j} of the offset is `{unparse(comp)}` = {fmt(got)}; `{syntax} X by D` requires {fmt(want)} "
                f"(gap between the two bounding boxes along X's local axis {i} equal to D)",
            )
        if ok:
            ctx.ok(R, fn, f"veneer.{fname}: offset = {'-' if sgn < 0 else '+'}(self.{axis}/2 + d + dims[{i}]/2 + tol) on local axis {i}, other components pass through")
    # the helper itself
    helper = model.func(VE, "directionalSpecHelper")
    vs = specs.extract_variants(model, "directionalSpecHelper")
    lambdas = {}
    hp = [a.arg for a in helper.args.args]
    if len(hp) != 6:
        raise AnalysisError("shape not recognised: parameters of directionalSpecHelper")
    _syntax, pos, dist, _axis, tcp, mkp = hp
    # the three offset components: the targets of `... = toComponents(...)`
    comps = [n.targets[0] for n in walk_local(helper) if isinstance(n, ast.Assign) and isinstance(n.targets[0], ast.Tuple) and isinstance(n.value, ast.Call) and dotted(n.value.func) == tcp]
    if len(comps) != 1 or len(comps[0].elts) != 3 or not all(isinstance(e, ast.Name) for e in comps[0].elts):
        raise AnalysisError("shape not recognised: offset components of directionalSpecHelper")
    dxyz = [e.id for e in comps[0].elts]
    # the value lambdas: the dict-valued lambdas written directly in the helper (bound to a local or passed on at once)
    for n in ast.walk(helper):
        if isinstance(n, ast.Lambda) and isinstance(n.body, ast.Dict) and lib.enclosing_function(n) is helper:
            conds = [(unparse(t), p) for t, p in lib.guard_tests(lib.statement_of(n), helper)]
            lambdas[tuple(conds)] = n
    if len(lambdas) != 3:
        raise AnalysisError("shape not recognised: the three value lambdas of directionalSpecHelper")
    for conds, lam in lambdas.items():
        kind = "object" if (f"isA({pos}, Object)", True) in conds else "op" if (f"isA({pos}, OrientedPoint)", True) in conds else "vector"
        d = lam.body
        if not isinstance(d, ast.Dict):
            raise AnalysisError("shape not recognised: directionalSpecHelper value lambda")
        items = {k.value: v for k, v in zip(d.keys, d.values)}
        posv = items.get("position")
        mk = [c for c in ast.walk(posv) if isinstance(c, ast.Call) and dotted(c.func) == mkp]
        if len(mk) != 1:
            ctx.finding(R, lam, f"helper {kind} makeOffset", f"directionalSpecHelper ({kind} reference) does not compute the position through makeOffset")
            continue
        a = [unparse(x) for x in mk[0].args]
        sv = lam.args.args[0].arg
        if kind == "object":
            dims = mk[0].args[1] if len(mk[0].args) > 1 else None
            if isinstance(dims, ast.Name):
                dims = lib.local_value(helper, dims.id)
            good = (
                isinstance(posv, ast.Call)
                and unparse(posv.func) == f"{pos}.relativePosition"
                and a[0] == sv
                and a[2] == f"makeContactOffset({dist}, {sv}.contactTolerance)"
                and a[3:] == dxyz
                and unparse(items.get("parentOrientation")) == f"{pos}.orientation"
            )
            good = good and dims is not None and unparse(dims) == f"({pos}.width, {pos}.length, {pos}.height)"
        elif kind == "op":
            good = (
                isinstance(posv, ast.Call)
                and unparse(posv.func) == f"{pos}.relativePosition"
                and a == [sv, "(0, 0, 0)", "0"] + dxyz
                and unparse(items.get("parentOrientation")) == f"{pos}.orientation"
            )
        else:
            good = (
                isinstance(posv, ast.Call)
                and unparse(posv.func) == f"{pos}.offsetLocally"
                and unparse(posv.args[0]) == f"{sv}.orientation"
                and a == [sv, "(0, 0, 0)", "0"] + dxyz
                and "parentOrientation" not in items
            )
        if good:
            ctx.ok(R, lam, f"directionalSpecHelper ({kind} reference): offset applied in the reference's local frame" + (", reference dimensions and half contact tolerance included" if kind == "object" else ""))
        else:
            ctx.finding(R, lam, f"helper {kind} frame", f"directionalSpecHelper ({kind} reference): `{norm_text(lam, 120)}` does not apply makeOffset(self, dims, tol, dx, dy, dz) in the reference frame as documented")
    mco = [f for f in ast.walk(helper) if isinstance(f, ast.FunctionDef) and f.name == "makeContactOffset"]
    if mco:
        f = mco[0]
        d_, ct = [a.arg for a in f.args.args]
        rr = {}
        for r in lib.returns_of(f):
            cs = lib.guard_tests(r, f)
            key = "none" if lib.holds(cs, f"{d_} is None") else "given" if lib.holds(cs, f"{d_} is not None") else unparse(r)
            rr[key] = unparse(r.value) if key not in rr or rr[key] == unparse(r.value) else "<several>"
        if rr == {"none": f"{ct} / 2", "given": "0"}:
            ctx.ok(R, f, "contact offset = contactTolerance/2 exactly when no distance is given")
        else:
            ctx.finding(R, f, "makeContactOffset", f"makeContactOffset is not `ct/2 if dist is None else 0` (found {rr})")
    # relativePosition = position.offsetLocally(orientation, vec)
    rp = model.func(OT, "OrientedPoint.relativePosition")
    rets = [r for r in lib.returns_of(rp) if r.value is not None]
    v = rp.args.args[1].arg
    if len(rets) == 1 and unparse(rets[0].value) == f"self.position.offsetLocally(self.orientation, {v})":
        ctx.ok(R, rp, "relativePosition(v) = position.offsetLocally(orientation, v)")
    else:
        ctx.finding(R, rp, "relativePosition", "OrientedPoint.relativePosition is not self.position.offsetLocally(self.orientation, vec)")


WORD_SIGN = {"left": (0, -1), "right": (0, +1), "front": (1, +1), "back": (1, -1), "top": (2, +1), "bottom": (2, -1)}
HALF = ["hw", "hl", "hh"]


def _words(camel):
    out, cur = [], ""
    for ch in camel:
        if ch.isupper() and cur:
            out.append(cur.lower())
            cur = ch
        else:
            cur += ch
    out.append(cur.lower())
    return out


def check_corners(ctx, R="C07.corners"):
    ctx.rule(
        R,
        "sides and corners: each of the 18 front...bottomBackRight properties of Object is relativize(Vector(sx*hw, sy*hl, sz*hh)) with the "
        "signs dictated by the words of its name (left=-x, right=+x, front=+y, back=-y, top=+z, bottom=-z, absent=0); `corners` lists all 8 "
        "sign combinations; hw/hl/hh are width/2, length/2, height/2; and the chain grammar keywords -> syntax node -> functionName -> veneer "
        "prefix operator -> property maps every `<position> of X` syntax to the property of the same name",
    )
    model = ctx.model
    obj = model.cls(OT, "Object")
    props = [n for n in obj.methods if n and all(w in WORD_SIGN for w in _words(n)) and n not in ("left", "right", "front", "back", "top", "bottom")[:0]]
    props = [p for p in props if any(dotted(d) in ("cached_property", "property") for d in obj.methods[p].decorator_list)]
    ctx.floor(R, len(props), 18, "side / corner properties of Object")
    for p in props:
        fn = obj.methods[p]
        rets = [r for r in lib.returns_of(fn) if r.value is not None]
        want = ["0", "0", "0"]
        for w in _words(p):
            ax, sg = WORD_SIGN[w]
            want[ax] = ("-" if sg < 0 else "") + f"self.{HALF[ax]}"
        good = False
        rv = lib.role_expr(fn, rets[0].value) if len(rets) == 1 else None  # locals replaced by their definitions
        if rv is not None and isinstance(rv, ast.Call) and unparse(rv.func) == "self.relativize" and len(rv.args) == 1:
            v = rv.args[0]
            if isinstance(v, ast.Call) and dotted(v.func) == "Vector":
                got = [unparse(a) for a in v.args] + ["0"] * (3 - len(v.args))
                good = got == want
        if good:
            ctx.ok(R, fn, f"Object.{p} = relativize(Vector({', '.join(want)}))")
        else:
            ctx.finding(R, fn, f"Object.{p} offset", f"Object.{p} is `{norm_text(rets[0].value, 80) if rets else '?'}`, its name requires relativize(Vector({', '.join(want)}))")
    # corners
    fn = obj.methods.get("corners")
    if fn is None:
        raise AnalysisError("Object.corners missing")
    env = {}
    for n in walk_local(fn):
        if isinstance(n, ast.Assign) and isinstance(n.targets[0], ast.Tuple) and isinstance(n.value, ast.Tuple):
            for a, b in zip(n.targets[0].elts, n.value.elts):
                env[unparse(a)] = unparse(b)
    rets = [r for r in lib.returns_of(fn) if isinstance(r.value, ast.Tuple)]
    combos = set()
    okshape = len(rets) == 1
    if okshape:
        for e in rets[0].value.elts:
            if isinstance(e, ast.Call) and unparse(e.func) == "self.relativePosition" and isinstance(e.args[0], ast.Call) and dotted(e.args[0].func) == "Vector" and len(e.args[0].args) == 3:
                sig = []
                for j, a in enumerate(e.args[0].args):
                    neg = isinstance(a, ast.UnaryOp) and isinstance(a.op, ast.USub)
                    base = a.operand if neg else a
                    if env.get(unparse(base), unparse(base)) != f"self.{HALF[j]}":
                        okshape = False
                    sig.append(-1 if neg else 1)
                combos.add(tuple(sig))
            else:
                okshape = False
    if okshape and combos == set(itertools.product((1, -1), repeat=3)) and len(rets[0].value.elts) == 8:
        ctx.ok(R, fn, "Object.corners = the 8 sign combinations of (±hw, ±hl, ±hh) in the object's frame")
    else:
        ctx.finding(R, fn, "Object.corners", f"Object.corners does not list exactly the 8 sign combinations of (hw, hl, hh) (found {len(combos)} distinct)")
    # half extents
    upd = model.func(OT, "Object.__init__") if "__init__" in obj.methods else None
    halves = {}
    for ci_fn in obj.methods.values():
        for n in ast.walk(ci_fn):
            if isinstance(n, ast.Assign):
                for t in n.targets:
                    if isinstance(t, ast.Attribute) and isinstance(t.value, ast.Name) and t.value.id == "self" and t.attr in HALF:
                        halves[t.attr] = n.value
    for h, dim in zip(HALF, ("width", "length", "height")):
        v = halves.get(h)
        if v is not None and equal(lin(v), lin_src(f"self.{dim} / 2")):
            ctx.ok(R, v, f"self.{h} = self.{dim} / 2")
        else:
            ctx.finding(R, obj.node, f"half extent {h}", f"Object.{h} is `{unparse(v) if v is not None else None}`, not self.{dim} / 2")
    # chain: grammar -> s.X -> functionName -> veneer op -> property
    g = ctx.grammar
    m_ast = model.module(SA)
    ve = model.module(VE)
    ops = None
    for s in ve.tree.body:
        if isinstance(s, ast.Assign) and any(isinstance(t, ast.Name) and t.id == "ops" for t in s.targets):
            ops = list(ast.literal_eval(s.value))
    tmpl = None
    for s in ve.tree.body:
        if isinstance(s, ast.Assign) and any(isinstance(t, ast.Name) and t.id == "template" for t in s.targets) and isinstance(s.value, ast.Constant):
            tmpl = s.value.value
    if ops is None or tmpl is None:
        raise AnalysisError("shape not recognised: veneer prefix-operator table / template")
    if "return X.{property}" in tmpl and "isinstance(X, Object)" in tmpl:
        ctx.ok(R, ve.tree, "veneer prefix-operator template returns X.<property> of an Object", qualname="veneer.template")
    else:
        ctx.finding(R, "src/scenic/syntax/veneer.py", "prefix operator template", "the generated prefix operators no longer return X.{property}", qualname="veneer.template")
    veneer_funcs = {"".join(w.capitalize() for w in op.split(" ")): op for op in ops}
    n_chain = 0
    for a in g.alts:
        if a.rule != "scenic_prefix_operators" and not a.rule.startswith("scenic_position_of"):
            pass
    pos_alts = []
    for a, call, kind, cname in g.constructor_calls():
        if kind == "s" and all(w in WORD_SIGN for w in _words(cname)) and cname not in ("LeftOf",) and cname in m_ast.classes:
            pos_alts.append((a, cname))
    for a, cname in pos_alts:
        kws = [s for s, q, opt in a.strings() if not opt]
        n_chain += 1
        cls = m_ast.classes[cname]
        fnname = None
        for s in cls.body:
            if isinstance(s, ast.Assign) and any(isinstance(t, ast.Name) and t.id == "functionName" for t in s.targets) and isinstance(s.value, ast.Constant):
                fnname = s.value.value
        prop = cname[0].lower() + cname[1:]
        problems = []
        if [k for k in kws if k in WORD_SIGN] != _words(cname):
            problems.append(f"grammar keywords {kws} build s.{cname}")
        if fnname != cname:
            problems.append(f"s.{cname}.functionName is {fnname!r}")
        if cname not in veneer_funcs:
            problems.append(f"veneer generates no prefix operator `{cname}`")
        elif veneer_funcs[cname].split(" ") != _words(cname):
            problems.append(f"veneer operator `{cname}` is generated for syntax `{veneer_funcs[cname]}`")
        if prop not in obj.methods:
            problems.append(f"Object has no property `{prop}`")
        if problems:
            ctx.finding(R, cls, f"position-of chain {cname}", f"`{' '.join(_words(cname))} of X`: " + "; ".join(problems))
        else:
            ctx.ok(R, cls, f"`{' '.join(_words(cname))} of X` -> s.{cname} -> veneer.{cname} -> Object.{prop}")
    ctx.floor(R, n_chain, 18, "position-of syntax chains")
    comp = model.func("scenic.syntax.compiler", "ScenicToPythonTransformer.visit_PositionOfOp")
    if "node.position.functionName" in unparse(comp) and "self.visit(node.target)" in unparse(comp):
        ctx.ok(R, comp, "compiler calls <functionName>(target) for a position-of operator")
    else:
        ctx.finding(R, comp, "visit_PositionOfOp", "the compiler no longer emits node.position.functionName(target)")


def check_binding(ctx, R="C07.binding"):
    ctx.rule(
        R,
        "compiler -> veneer binding: every runtime name the compiler emits as a call (74 today) is exported by veneer.__all__ (or is a "
        "builtin), and the positional count and keyword names of the emitted call bind to the veneer definition's signature",
    )
    model = ctx.model
    em = compiler_ir.emitted_calls(model)
    exports = compiler_ir.veneer_exports(model)
    ve = model.module(VE)
    n = 0
    names = set()
    for e in em:
        for name in sorted(e.names):
            names.add(name)
            n += 1
            if name not in exports:
                if name in lib.BUILTINS:
                    ctx.ok(R, e.node, f"`{name}` is a builtin")
                else:
                    ctx.finding(R, e.node, f"emitted name {name} not exported", f"{e.fn.name}: the compiler emits a call to `{name}`, which veneer.__all__ does not export: compiled programs fail with NameError")
                continue
            target = model.resolve_name(ve, name)
            fn = None
            bound = False
            if isinstance(target, ast.FunctionDef):
                fn = target
            elif isinstance(target, ClassInfo):
                found = model.find_method(target, "__init__")
                if found and found[0].module.path.startswith("src/scenic"):
                    fn, bound = found[1], True
            if fn is None or lib.decorated_opaque(fn):
                ctx.ok(R, e.node, f"`{name}` is exported (signature not statically visible)")
                continue
            sig = lib.signature(fn, bound)
            problems = []
            if e.npos is not None and not e.variable_pos:
                if e.npos > len(sig["pos"]) and not sig["vararg"]:
                    problems.append(f"{e.npos} positional arguments for parameters {sig['pos']}")
                missing = [p for p in sig["required"][e.npos :] if p not in e.keywords]
                if missing and not e.dynamic_kw:
                    problems.append(f"required parameter(s) {missing} never supplied")
            for k in sorted(e.keywords):
                if k not in sig["pos"] and k not in sig["kwonly"] and not sig["kwarg"]:
                    problems.append(f"keyword `{k}` is not a parameter of {name}{tuple(sig['pos'] + sig['kwonly'])}")
                elif e.npos is not None and k in sig["pos"][: e.npos]:
                    problems.append(f"keyword `{k}` duplicates positional argument {sig['pos'].index(k)}")
            if problems:
                for p in problems:
                    ctx.finding(R, e.node, f"binding {name}: {p[:70]}", f"{e.fn.name}: emitted call `{name}(...)` does not bind to veneer.{name}: {p}")
            else:
                ctx.ok(R, e.node, f"`{name}`({e.npos} positional, keywords {sorted(e.keywords)}) binds to veneer.{name}{tuple(sig['pos'])}")
    ctx.floor(R, len(names), 65, "distinct runtime names emitted by the compiler")


def check_grammar_fields(ctx, R="C07.fields"):
    ctx.rule(
        R,
        "grammar -> syntax-tree binding: every keyword used in an `s.X(...)` grammar action is a field of dataclass X in syntax/ast.py, every "
        "field without a default is supplied, and X exists",
    )
    model = ctx.model
    g = ctx.grammar
    m_ast = model.module(SA)
    n = 0
    for a, call, kind, cname in g.constructor_calls():
        if kind != "s":
            continue
        if cname == "parameter":
            continue
        n += 1
        cls = m_ast.classes.get(cname)
        line = g.line_of_rule(a.rule)
        if cls is None:
            ctx.finding(R, "src/scenic/syntax/scenic.gram", f"s.{cname} undefined", f"rule {a.rule} (line ~{line}) builds s.{cname}, which syntax/ast.py does not define", qualname=a.rule)
            continue
        fields, required = [], []
        for c in [cls]:
            for s in c.body:
                if isinstance(s, ast.AnnAssign) and isinstance(s.target, ast.Name):
                    fields.append(s.target.id)
                    if s.value is None:
                        required.append(s.target.id)
        kws = [k.arg for k in call.keywords if k.arg]
        npos = len(call.args)
        bad = [k for k in kws if k not in fields and k not in ("lineno", "col_offset", "end_lineno", "end_col_offset")]
        given = set(kws) | set(fields[:npos])
        missing = [f for f in required if f not in given]
        if bad or missing:
            ctx.finding(
                R,
                "src/scenic/syntax/scenic.gram",
                f"{a.rule}: s.{cname} fields {bad or missing}",
                f"rule {a.rule} (line ~{line}): action `{norm_text(a.action_src, 90)}` "
                + (f"passes {bad}, not fields of s.{cname}{tuple(fields)}" if bad else f"does not supply required field(s) {missing} of s.{cname}"),
                qualname=a.rule,
            )
        else:
            ctx.ok(R, cls, f"{a.rule}: s.{cname}({', '.join(kws)}) matches its dataclass fields")
    ctx.floor(R, n, 110, "s.X(...) constructions in grammar actions")


def check_facing(ctx, R="C07.facing"):
    ctx.rule(
        R,
        "facing family uses the parent frame: every built-in specifier that specifies yaw/pitch/roll and declares a dependency on "
        "parentOrientation must read it in its value helper (yaw is an angle *relative to* parentOrientation, so a helper that ignores it "
        "yields a global orientation that changes with the parent)",
    )
    model = ctx.model
    from .c06 import _context_reads, all_variants

    names, table = all_variants(ctx)
    n = 0
    seen = set()
    for f, vs in table.items():
        for v in vs:
            if not (set(v.priorities) & {"yaw", "pitch", "roll"}) or v.helper is None:
                continue
            if (f, id(v.helper)) in seen:
                continue
            seen.add((f, id(v.helper)))
            n += 1
            reads, guarded = _context_reads(v.helper, {})
            if "parentOrientation" in v.deps and "parentOrientation" not in (reads or set()):
                ctx.finding(
                    R,
                    v.helper,
                    f"{f} ignores parentOrientation",
                    f"veneer.{f} specifies {sorted(set(v.priorities) & {'yaw', 'pitch', 'roll'})} and declares a dependency on parentOrientation but its helper "
                    f"reads only {sorted(reads)}: the angles are computed in the global frame and then applied relative to the parent orientation",
                )
            elif "parentOrientation" in v.deps and _componentwise(v.helper):
                comp = _componentwise(v.helper)
                ctx.finding(
                    R,
                    comp[0],
                    f"{f} changes frame component-wise",
                    f"veneer.{f}: the helper uses `{unparse(comp[0])}`; subtracting a single Euler angle of the parent is a frame change only when the "
                    f"parent has no pitch and roll: with a tilted parent the resulting orientation points elsewhere (the parent's whole rotation must be "
                    f"applied: .inverse, localAnglesFor, applyRotation)",
                )
            elif "parentOrientation" in v.deps and _right_multiplied(v.helper):
                bad_ = _right_multiplied(v.helper)
                ctx.finding(
                    R,
                    bad_[0],
                    f"{f} composes the parent frame on the wrong side",
                    f"veneer.{f}: `{unparse(bad_[0])}`: the orientation relative to the parent is parent^-1 * global (the inverse of the parent on the LEFT); rotations do not commute, so "
                    f"with the factors swapped the object faces elsewhere as soon as the parent or the target orientation has pitch or roll",
                )
            elif "parentOrientation" not in v.deps:
                ctx.finding(R, v.helper, f"{f} lacks parentOrientation dependency", f"veneer.{f} specifies Euler angles without depending on parentOrientation")
            else:
                ctx.ok(R, v.helper, f"veneer.{f}: helper reads parentOrientation")
    ctx.floor(R, n, 7, "orientation-specifying helpers")


def _componentwise(helper):
    """reads of a single Euler component of context.parentOrientation inside a value helper"""
    out = []
    ctxp = helper.args.args[0].arg if helper.args.args else "context"
    for n in ast.walk(helper):
        if isinstance(n, ast.Attribute) and n.attr in ("yaw", "pitch", "roll", "eulerAngles") and unparse(n.value) == f"{ctxp}.parentOrientation":
            out.append(n)
    return out


def _right_multiplied(helper):
    """`X * context.parentOrientation.inverse` (the inverse of the parent must be the LEFT factor)"""
    out = []
    ctxp = helper.args.args[0].arg if helper.args.args else "context"
    for n in ast.walk(helper):
        if isinstance(n, ast.BinOp) and isinstance(n.op, (ast.Mult, ast.MatMult)) and unparse(n.right) == f"{ctxp}.parentOrientation.inverse":
            out.append(n)
    return out


# what each coercion helper of veneer returns (frozen; the helpers raise unless the value has / can get that type)
COERCES_TO = {"toVector": "Vector", "toScalar": "float", "toHeading": "float", "toOrientation": "Orientation", "toVectorField": "VectorField"}
SUBTYPE_OF_VECTOR = set()  # no Scenic class that carries an orientation is a Vector


def check_coercions(ctx, R="C07.coerce"):
    ctx.rule(
        R,
        "no type test after a narrowing coercion: once a veneer function has replaced an argument by `toVector(arg, ...)` (a plain "
        "Vector) a later `isA(arg, OrientedPoint / Point / Object)` can never succeed, so the branch that was meant to read the argument's "
        "orientation / size is dead (contradiction rule: the code tests what its own earlier statement made impossible); the test must "
        "come before the coercion",
    )
    model = ctx.model
    ve = model.module(VE)
    n = 0
    control_fired = False
    # positive control: the rule must fire on a tiny example of the pattern on every run (its expected count on the tree is zero)
    ctl = ast.parse("def f(p):\n    p = toVector(p, 'msg')\n    if isA(p, OrientedPoint):\n        return p.orientation\n    return None\n").body[0]
    for node in ast.walk(ctl):
        for ch in ast.iter_child_nodes(node):
            ch._parent = node
    ctl._parent = None
    for q, fn in list(ve.functions.items()) + [("<positive control>", ctl)]:
        if "." in q:
            continue
        coerced = {}  # name -> (type, lineno)
        for s_ in sorted((x for x in walk_local(fn) if isinstance(x, ast.Assign)), key=lambda x: x.lineno):
            t = s_.targets[0]
            if isinstance(t, ast.Name) and isinstance(s_.value, ast.Call) and dotted(s_.value.func) in COERCES_TO and s_.value.args and unparse(s_.value.args[0]) == t.id:
                # only an unconditional coercion makes the later test dead
                if not lib.guard_tests(s_, fn):
                    coerced.setdefault(t.id, (COERCES_TO[dotted(s_.value.func)], s_.lineno))
        if not coerced:
            continue
        for c in walk_local(fn):
            if isinstance(c, ast.Call) and dotted(c.func) in ("isA", "isinstance") and len(c.args) == 2 and isinstance(c.args[0], ast.Name) and c.args[0].id in coerced:
                ty, line = coerced[c.args[0].id]
                if c.lineno <= line:
                    continue
                n += 1
                tested = {unparse(e) for e in (c.args[1].elts if isinstance(c.args[1], ast.Tuple) else [c.args[1]])}
                if ty in tested or (ty == "Vector" and tested & SUBTYPE_OF_VECTOR):
                    ctx.ok(R, c, f"veneer.{q}: `{unparse(c)}` is consistent with the coercion to {ty}")
                elif q == "<positive control>":
                    control_fired = True
                else:
                    ctx.finding(
                        R,
                        c,
                        f"{q}: dead type test {unparse(c)}",
                        f"veneer.{q}: `{c.args[0].id}` was replaced by a plain {ty} on line {line}, so `{unparse(c)}` is always False: the branch that depends on it (e.g. taking the "
                        f"argument's orientation as parentOrientation, as the reference says) can never run",
                    )
    if not control_fired:
        raise AnalysisError("positive control for C07.coerce did not fire")
    ctx.ok(R, "src/scenic/syntax/veneer.py", "no veneer function tests the type of an argument after coercing it (positive control fired)", qualname="veneer")
    ctx.note(f"type tests after coercions: {n}")


ANGLE_FUNCS = [
    (VE, "RelativeHeading"),
    (VE, "ApparentHeading"),
    (VE, "AngleTo"),
    (VE, "AngleFrom"),
    (VE, "AltitudeTo"),
    (VE, "AltitudeFrom"),
    ("scenic.core.geometry", "apparentHeadingAtPoint"),
    ("scenic.core.vectors", "Vector.angleTo"),
    ("scenic.core.vectors", "Vector.azimuthTo"),
    ("scenic.core.vectors", "Vector.altitudeTo"),
]


def check_angles(ctx, R="C07.angles"):
    ctx.rule(
        R,
        "angle-valued operators return normalised angles: every return of the heading / angle operators (frozen list) is either "
        "normalizeAngle(...) or a call of another function of the list; a bare sum or difference of angles leaves (-pi, pi], so e.g. "
        "`relative heading` of 175 deg from -175 deg would be 350 deg instead of -10 deg",
    )
    model = ctx.model
    names = {q.split(".")[-1] for _, q in ANGLE_FUNCS}
    n = 0
    for mod, q in ANGLE_FUNCS:
        fn = model.func(mod, q)
        for r in lib.returns_of(fn):
            if r.value is None:
                continue
            n += 1
            v = r.value
            if isinstance(v, ast.Name):
                # the value a local holds when it is returned: its last definition before the return
                defs = [a for a in walk_local(fn) if isinstance(a, ast.Assign) and any(isinstance(t, ast.Name) and t.id == v.id for t in a.targets) and a.lineno <= r.lineno]
                if defs:
                    v = max(defs, key=lambda a: a.lineno).value
            cn = (dotted(v.func) or (v.func.attr if isinstance(v.func, ast.Attribute) else "")) if isinstance(v, ast.Call) else ""
            last = cn.split(".")[-1]
            if last == "normalizeAngle" or last in names:
                ctx.ok(R, r, f"{q} returns {'a normalised angle' if last == 'normalizeAngle' else 'the result of ' + last}")
            else:
                ctx.finding(R, r, f"{q} returns an unnormalised angle", f"{q} returns `{norm_text(v, 80)}`, which is not wrapped in normalizeAngle: the operator can produce angles outside (-pi, pi]")
    ctx.floor(R, n, 10, "returns of angle-valued operators")


def check_constants(ctx, R="C07.const"):
    ctx.rule(R, "`X deg` multiplies by math.radians(1); G1: every name in the operator functions of veneer.py resolves")
    model = ctx.model
    fn = model.func("scenic.syntax.compiler", "ScenicToPythonTransformer.visit_DegOp")
    consts = [c.value for c in ast.walk(fn) if isinstance(c, ast.Constant) and isinstance(c.value, float)]
    mult = any(isinstance(c, ast.Call) and dotted(c.func) == "ast.Mult" for c in ast.walk(fn))
    if len(consts) == 1 and consts[0] == math.radians(1) and mult:
        ctx.ok(R, fn, f"deg = x * {consts[0]!r} (math.radians(1))")
    else:
        ctx.finding(R, fn, "DegOp constant", f"`X deg` compiles to a product with {consts}, not math.radians(1) = {math.radians(1)!r}")
    ve = model.module(VE)
    n = 0
    for q, f in ve.functions.items():
        if "." in q or isinstance(parent(f), ast.FunctionDef):
            continue
        n += 1
        bad = lib.unresolved_names(model, f)
        for b in bad:
            ctx.finding(R, b, f"veneer.{q} name {b.id}", f"veneer.{q}: name `{b.id}` is bound in no scope")
        if not bad:
            ctx.ok(R, f, f"veneer.{q}: all names resolve")
    ctx.floor(R, n, 100, "veneer functions")



def _const_value(e):
    """value of an expression made of numbers and math.pi only, else None"""
    if isinstance(e, ast.Constant) and isinstance(e.value, (int, float)) and not isinstance(e.value, bool):
        return float(e.value)
    if isinstance(e, ast.Attribute) and dotted(e) in ("math.pi", "np.pi", "numpy.pi"):
        return math.pi
    if isinstance(e, ast.Name) and e.id == "pi":
        return math.pi
    if isinstance(e, ast.Call) and dotted(e.func) in ("math.radians", "radians") and len(e.args) == 1:
        v = _const_value(e.args[0])
        return None if v is None else math.radians(v)
    if isinstance(e, ast.UnaryOp) and isinstance(e.op, (ast.USub, ast.UAdd)):
        v = _const_value(e.operand)
        return None if v is None else (-v if isinstance(e.op, ast.USub) else v)
    if isinstance(e, ast.BinOp) and isinstance(e.op, (ast.Add, ast.Sub, ast.Mult, ast.Div)):
        a, b = _const_value(e.left), _const_value(e.right)
        if a is None or b is None or (isinstance(e.op, ast.Div) and b == 0):
            return None
        return {ast.Add: a + b, ast.Sub: a - b, ast.Mult: a * b, ast.Div: a / b if b else None}[type(e.op)]
    return None


def _additive_terms(e, sign=1):
    if isinstance(e, ast.BinOp) and isinstance(e.op, (ast.Add, ast.Sub)):
        return _additive_terms(e.left, sign) + _additive_terms(e.right, sign if isinstance(e.op, ast.Add) else -sign)
    return [(sign, e)]


def _local_value(fn, e):
    """follow a local name to the expression of its single assignment in `fn`"""
    for _ in range(4):
        if not isinstance(e, ast.Name):
            return e
        defs = [a for a in walk_local(fn) if isinstance(a, ast.Assign) and len(a.targets) == 1 and isinstance(a.targets[0], ast.Name) and a.targets[0].id == e.id]
        if len(defs) != 1:
            return e
        e = defs[0].value
    return e


def check_spherical(ctx, R="C07.spherical"):
    ctx.rule(
        R,
        "producer and consumers of Vector.sphericalCoordinates agree on the azimuth convention: the second component is "
        "atan2(y, x) + c and every consumer uses it as `component + d` with c + d = -pi/2 (a yaw / heading is measured from the +Y axis, "
        "anticlockwise); the third component is the elevation atan2(z, hypot(x, y)) used as it is.  A convention changed in the producer and in "
        "some consumers only (the `facing toward` family, `beyond`, the flat orientation of a mesh surface) turns the others by 90 degrees",
    )
    model = ctx.model
    prod = model.func("scenic.core.vectors", "Vector.sphericalCoordinates")
    rets = [r for r in lib.returns_of(prod) if r.value is not None]
    if len(rets) != 1 or not (isinstance(rets[0].value, ast.Call) and len(rets[0].value.args) == 3):
        raise AnalysisError("shape not recognised: Vector.sphericalCoordinates does not return one three-component constructor call")
    comps = [_local_value(prod, a) for a in rets[0].value.args]

    def is_self(e, attr):
        return isinstance(e, ast.Attribute) and isinstance(e.value, ast.Name) and e.value.id == "self" and e.attr == attr

    def atan2_of(e):
        return e.args if isinstance(e, ast.Call) and (dotted(e.func) or "").split(".")[-1] in ("atan2", "arctan2") and len(e.args) == 2 else None

    c = 0.0
    core = None
    for sg, t in _additive_terms(comps[1]):
        v = _const_value(t)
        if v is not None:
            c += sg * v
        elif core is None and sg == 1:
            core = t
        else:
            raise AnalysisError(f"shape not recognised: azimuth `{unparse(comps[1])}` of sphericalCoordinates")
    a = atan2_of(core) if core is not None else None
    if a is None:
        raise AnalysisError(f"shape not recognised: azimuth `{unparse(comps[1])}` of sphericalCoordinates is not atan2(...) + constant")
    if not (is_self(a[0], "y") and is_self(a[1], "x")):
        ctx.finding(R, core, "sphericalCoordinates azimuth arguments", f"the azimuth is `{unparse(core)}`, not atan2(self.y, self.x): the angle is measured from / towards another axis")
    else:
        ctx.ok(R, core, f"azimuth = atan2(self.y, self.x) {c:+.6f}")
    e = atan2_of(comps[2])
    hyp = e[1] if e else None
    ok_el = (
        e is not None
        and is_self(e[0], "z")
        and isinstance(hyp, ast.Call)
        and (dotted(hyp.func) or "").split(".")[-1] == "hypot"
        and len(hyp.args) == 2
        and {x.attr for x in hyp.args if isinstance(x, ast.Attribute) and isinstance(x.value, ast.Name) and x.value.id == "self"} == {"x", "y"}
    )
    if ok_el:
        ctx.ok(R, comps[2], "elevation = atan2(self.z, hypot(self.x, self.y))")
    else:
        ctx.finding(R, rets[0], "sphericalCoordinates elevation", f"the elevation is `{unparse(comps[2])}`, not atan2(self.z, hypot(self.x, self.y))")
    rho = comps[0]
    if not (isinstance(rho, ast.Call) and (dotted(rho.func) or "").split(".")[-1] in ("hypot", "norm") ):
        pass  # the radius is not part of the angle convention
    # consumers
    n = 0
    for mname in sorted(model.modules_under("scenic")) if hasattr(model, "modules_under") else sorted(model._paths):
        if not mname.startswith("scenic.") or mname.startswith("scenic.simulators"):
            continue
        try:
            src = model.read(model._paths[mname])
        except Exception:
            continue
        if "sphericalCoordinates" not in src:
            continue
        m = model.module(mname)
        for q, fn in m.functions.items():
            calls = [x for x in walk_local(fn) if isinstance(x, ast.Call) and isinstance(x.func, ast.Attribute) and x.func.attr == "sphericalCoordinates"]
            if not calls or fn is prod:
                continue
            holders = set()
            for cl in calls:
                p_ = parent(cl)
                if isinstance(p_, ast.Assign) and len(p_.targets) == 1 and isinstance(p_.targets[0], ast.Name):
                    holders.add(p_.targets[0].id)
                elif isinstance(p_, ast.Subscript) and p_.value is cl:
                    pass
                else:
                    raise AnalysisError(f"shape not recognised: result of sphericalCoordinates() used as `{norm_text(p_, 60)}` in {mname}:{q}")
            for sub in walk_local(fn):
                if not isinstance(sub, ast.Subscript):
                    continue
                base = sub.value
                if not (base in calls or (isinstance(base, ast.Name) and base.id in holders and isinstance(base.ctx, ast.Load))):
                    continue
                idx = sub.slice
                if not (isinstance(idx, ast.Constant) and idx.value in (0, 1, 2)):
                    raise AnalysisError(f"shape not recognised: component `{unparse(sub)}` of spherical coordinates in {mname}:{q}")
                if idx.value == 0:
                    continue
                # the additive context of this use
                top = sub
                while isinstance(parent(top), ast.BinOp) and isinstance(parent(top).op, (ast.Add, ast.Sub)):
                    top = parent(top)
                d = 0.0
                shape_ok = True
                for sg, t in _additive_terms(top):
                    if t is sub:
                        if sg != 1:
                            shape_ok = False
                        continue
                    v = _const_value(t)
                    if v is None:
                        shape_ok = False
                    else:
                        d += sg * v
                n += 1
                what = "azimuth" if idx.value == 1 else "elevation"
                if not shape_ok:
                    # combined with a non-constant term: a relative angle; the convention offset cancels only in differences of two azimuths
                    others = [t for sg, t in _additive_terms(top) if t is not sub]
                    raise AnalysisError(f"shape not recognised: {what} combined with `{', '.join(unparse(o) for o in others)}` in {mname}:{q}")
                want = -math.pi / 2 if idx.value == 1 else 0.0
                got = (c if idx.value == 1 else 0.0) + d
                if abs(got - want) > 1e-9:
                    ctx.finding(
                        R,
                        top,
                        f"{q} {what} convention",
                        (f"{mname}:{q} uses `{unparse(top)}` as a yaw / heading: with the producer's azimuth atan2(y, x) {c:+.4f} that is atan2(y, x) {got:+.4f}, "
                         f"not atan2(y, x) - pi/2 (heading 0 is the +Y axis): this consumer is turned by {math.degrees(got - want):.0f} degrees against the others")
                        if idx.value == 1
                        else f"{mname}:{q} uses `{unparse(top)}` as a pitch: the elevation is offset by {d:+.4f}",
                    )
                else:
                    ctx.ok(R, top, f"{mname}:{q}: {what} used as `{unparse(top)}` (total offset {got:+.4f})")
    ctx.floor(R, n, 8, "uses of spherical components")


def _block_of(stmt):
    p_ = parent(stmt)
    for f in ("body", "orelse", "finalbody"):
        seq = getattr(p_, f, None)
        if isinstance(seq, list) and any(x is stmt for x in seq):
            return seq
    return []


def check_relative(ctx, R="C07.relative"):
    ctx.rule(
        R,
        "`X relative to Y` composes in Y's frame: wherever RelativeTo combines a value derived from X with one derived from Y by `*` "
        "(orientations) or by the `+` of the vector-field helper (whose values may be orientations, for which `+` is composition), the "
        "Y-derived operand is the LEFT one (Y first, then X within it); only the sums of two headings or of two vectors (commutative) may be written either way",
    )
    model = ctx.model
    fn = model.func(VE, "RelativeTo")
    px, py = fn.args.args[0].arg, fn.args.args[1].arg
    n = 0
    for b in ast.walk(fn):
        if not (isinstance(b, ast.BinOp) and isinstance(b.op, (ast.Add, ast.Mult))):
            continue
        owner = lib.enclosing_function(b)
        if owner is None:
            continue
        le, re_ = lib.role_expr(owner, b.left), lib.role_expr(owner, b.right)

        stmt = lib.statement_of(b)
        blk = _block_of(stmt)

        def side(e):
            names = set(lib.names_loaded(e))
            for nm in list(names):
                # a local assigned several times in the function: the assignment just before this statement in its own block
                prev = None
                for st_ in blk:
                    if st_ is stmt:
                        break
                    if isinstance(st_, ast.Assign) and any(isinstance(t, ast.Name) and t.id == nm for t in st_.targets):
                        prev = st_.value
                if prev is not None:
                    names |= lib.names_loaded(prev)
            return {p for p in (px, py) if p in names}

        def commutative_kind(e):
            """e is a heading or a vector by construction: toHeading(..) / toVector(..) / <point>.heading, possibly through a local"""
            if isinstance(e, ast.Call) and dotted(e.func) in ("toHeading", "toVector"):
                return True
            if isinstance(e, ast.Attribute) and e.attr == "heading":
                return True
            if isinstance(e, ast.Name):
                prev = None
                for st_ in blk:
                    if st_ is stmt:
                        break
                    if isinstance(st_, ast.Assign) and any(isinstance(t, ast.Name) and t.id == e.id for t in st_.targets):
                        prev = st_.value
                return prev is not None and commutative_kind(prev)
            return False

        sl, sr = side(le), side(re_)
        if len(sl) != 1 or len(sr) != 1 or sl == sr:
            continue
        n += 1
        scalar = all(commutative_kind(e) for e in (le, re_))
        if sl == {py} or scalar:
            ctx.ok(R, b, f"`{norm_text(b, 50)}`: " + ("Y's value is the left operand" if sl == {py} else "sum of two headings / vectors (commutative)"))
        else:
            ctx.finding(
                R,
                b,
                f"relative-to composition order {norm_text(b, 40)}",
                f"veneer.RelativeTo computes `{norm_text(b, 60)}` with the X-derived value on the left: for orientations (also as values of a vector field) the operator composes rotations, "
                f"and `X relative to Y` is Y followed by X in Y's frame (`Y op X`), so the result differs whenever the two rotations do not commute",
            )
    ctx.floor(R, n, 3, "compositions of an X-derived with a Y-derived value in RelativeTo")


def check(ctx):
    ctx.run(check_relative)
    ctx.run(check_directional)
    ctx.run(check_corners)
    ctx.run(check_binding)
    ctx.run(check_grammar_fields)
    ctx.run(check_facing)
    ctx.run(check_angles)
    ctx.run(check_coercions)
    ctx.run(check_constants)
    ctx.run(check_spherical)
