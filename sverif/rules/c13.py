"""C13 -- interrupts pre-empt and resume as documented; guards are checked when promised (structural part)."""

import ast
import re

from .. import lib
from ..model import AnalysisError, ancestors, dotted, norm_text, parent, unparse, walk_local

CO = "scenic.syntax.compiler"
IV = "scenic.core.dynamics.invocables"
BH = "scenic.core.dynamics.behaviors"
DS = "scenic.core.dynamics.scenarios"


def check_priority(ctx, R="C13.priority"):
    ctx.rule(
        R,
        "priority parity: (order in which the compiler lists the interrupt conditions/handlers) composed with (the order in which "
        "runTryInterrupt scans them) must equal 'the clause written last wins': compiler-side reversal idioms (reversed / [::-1]) and the "
        "runtime idiom (first match with break vs. last match without break) are recognised and their parity checked; conditions and "
        "handlers must be ordered and paired identically",
    )
    model = ctx.model
    vis = model.func(CO, "ScenicToPythonTransformer.visit_TryInterrupt")
    env = {}
    for n in walk_local(vis):
        if isinstance(n, ast.Assign) and len(n.targets) == 1 and isinstance(n.targets[0], ast.Name):
            env[n.targets[0].id] = n.value

    def reversal(e):
        """0 = source order, 1 = reversed; None = unknown (e: the argument expression, a local or the tuple itself)"""
        v = env.get(e.id) if isinstance(e, ast.Name) else e
        if not (isinstance(v, ast.Call) and dotted(v.func) == "ast.Tuple" and v.args):
            return None, None
        comp = v.args[0]
        if isinstance(comp, ast.ListComp) and len(comp.generators) == 1:
            it = comp.generators[0].iter
            if isinstance(it, ast.Call) and dotted(it.func) == "reversed" and isinstance(it.args[0], ast.Name):
                return 1, it.args[0].id
            if isinstance(it, ast.Subscript) and unparse(it.slice) == "::-1" and isinstance(it.value, ast.Name):
                return 1, it.value.id
            if isinstance(it, ast.Name):
                return 0, it.id
        return None, None

    # the 4th and 5th argument of the emitted runTryInterrupt(behavior, agent, body, conditions, handlers) call
    emitted = [c for c in walk_local(vis) if isinstance(c, ast.Call) and dotted(c.func) == "ast.Call" and c.args and "'runTryInterrupt'" in lib.role_text(vis, c.args[0])]
    if len(emitted) != 1 or len(emitted[0].args) < 2:
        raise AnalysisError("shape not recognised: the emitted runTryInterrupt call of visit_TryInterrupt")
    alist = emitted[0].args[1]
    if isinstance(alist, ast.Name):
        alist = env.get(alist.id)
    if not (isinstance(alist, ast.List) and len(alist.elts) == 5):
        raise AnalysisError("shape not recognised: argument list of the emitted runTryInterrupt call")
    rc, csrc = reversal(alist.elts[3])
    rh, hsrc = reversal(alist.elts[4])
    if rc is None or rh is None:
        raise AnalysisError("shape not recognised: conditions/handlers tuples of visit_TryInterrupt")
    # the name lists are filled in source order inside one loop over the handlers
    loops = [n for n in walk_local(vis) if isinstance(n, ast.For) and "interrupt_when_handlers" in unparse(n.iter)]
    apps = {}
    for l in loops:
        for c in ast.walk(l):
            if isinstance(c, ast.Call) and isinstance(c.func, ast.Attribute) and c.func.attr == "append" and isinstance(c.func.value, ast.Name):
                apps[c.func.value.id] = c
    src_order = csrc in apps and hsrc in apps and len(loops) == 1 and "enumerate(node.interrupt_when_handlers)" in unparse(loops[0].iter)
    if not src_order:
        raise AnalysisError("shape not recognised: handler/condition name lists of visit_TryInterrupt")
    # index pairing: condition i and handler i are named from the same loop index
    if rc != rh:
        ctx.finding(R, vis, "conditions/handlers ordered differently", f"visit_TryInterrupt reverses the conditions ({rc}) and the handlers ({rh}) differently: condition i would trigger another clause's handler")
    # runtime scan
    rt = model.func(IV, "runTryInterrupt")
    rp = [a.arg for a in rt.args.args]
    if len(rp) != 5:
        raise AnalysisError("shape not recognised: parameters of runTryInterrupt")
    bodyp, condp, handp = rp[2], rp[3], rp[4]
    zips = [c for c in ast.walk(rt) if isinstance(c, ast.Call) and dotted(c.func) == "zip"]
    if not zips or [unparse(a) for a in zips[0].args] != [condp, handp]:
        ctx.finding(R, rt, "condition/handler pairing", "runTryInterrupt no longer pairs conditions[i] with handlers[i] via zip(conditions, handlers)")
    # the list of interrupt blocks: the local built from that zip
    ilist = lib.locals_assigned(rt, lambda v: isinstance(v, (ast.ListComp, ast.Call)) and "InterruptBlock(" in unparse(v) and "zip(" in unparse(v))
    if len(ilist) != 1:
        raise AnalysisError("shape not recognised: interrupt block list of runTryInterrupt")
    il = ilist[0]
    # which block does one round of the scheduler choose?  The statements of the `while True` body that precede the call of
    # <block>.step(...) are interpreted over every truth table of (isEnabled, isRunning) for three handlers (64 tables): the
    # choice must be the FIRST handler of the list that is enabled or running (or, uniformly, the LAST one), else the body
    from .. import finite
    import itertools

    loops_ = [w for w in rt.body if isinstance(w, ast.While)]
    if len(loops_) != 1:
        raise AnalysisError("shape not recognised: scheduling loop of runTryInterrupt")
    wbody = loops_[0].body
    step_i = next((i for i, st_ in enumerate(wbody) if any(isinstance(c, ast.Call) and isinstance(c.func, ast.Attribute) and c.func.attr == "step" for c in ast.walk(st_))), None)
    if step_i is None:
        raise AnalysisError("shape not recognised: the step call of runTryInterrupt")
    step_call = next(c for c in ast.walk(wbody[step_i]) if isinstance(c, ast.Call) and isinstance(c.func, ast.Attribute) and c.func.attr == "step")
    if not isinstance(step_call.func.value, ast.Name):
        raise AnalysisError("shape not recognised: the block stepped by runTryInterrupt")
    blockv = step_call.func.value.id
    # the body block: the local the function's body parameter is wrapped into (or the parameter itself)
    body_names = set(lib.locals_assigned(rt, lambda v: isinstance(v, ast.Call) and "InterruptBlock" in unparse(v.func) and any(unparse(x) == bodyp for x in v.args))) | {bodyp}
    policies = {"first": 0, "last": 0}
    counter = None
    ntab = 0
    for bits in itertools.product([False, True], repeat=6):
        recs = [finite.Rec(f"handler{i}", isEnabled=bits[2 * i], isRunning=bits[2 * i + 1]) for i in range(3)]
        body_rec = finite.Rec("body", isEnabled=False, isRunning=False)
        env = {il: list(recs)}
        for bn in body_names:
            env[bn] = body_rec
        try:
            finite.run(wbody[:step_i], env)
        except finite.Unsupported as e:
            raise AnalysisError(str(e))
        got = env.get(blockv)
        live = [r for r in recs if r.isEnabled or r.isRunning]
        ntab += 1
        for pol, want in (("first", live[0] if live else body_rec), ("last", live[-1] if live else body_rec)):
            if got is want:
                policies[pol] += 1
            elif counter is None or pol == "first":
                counter = (pol, bits, got, want) if counter is None or counter[0] != "first" else counter
    policy = next((pol for pol in ("first", "last") if policies[pol] == ntab), None)
    lp = loops_[0]
    if policy is None:
        pol, bits, got, want = counter
        desc = ", ".join(f"handler{i}: enabled={bits[2*i]} running={bits[2*i+1]}" for i in range(3))
        ctx.finding(
            R,
            wbody[0],
            "interrupt selection is not 'first enabled or running'",
            f"runTryInterrupt does not step the first handler of its list that is enabled or already running: for ({desc}) it chooses {got!r} where {want!r} is due. "
            f"A lower-priority handler whose condition holds would pre-empt a running higher-priority one (or a running handler would not be resumed)",
        )
    else:
        ctx.ok(R, wbody[0], f"in all {ntab} truth tables of three handlers the block stepped is the {policy} handler of the list that is enabled or running, else the body")
        # position (in source order) of the winning clause among the live ones: last => 1
        wins_last = (rc + (0 if policy == "first" else 1)) % 2
        if wins_last == 1 and rc == rh:
            ctx.ok(R, lp, f"compiler order reversed={bool(rc)}, the runtime takes the {policy} live handler of that list => the latest written live clause pre-empts")
        elif rc == rh:
            ctx.finding(
                R,
                lp,
                "interrupt priority parity",
                f"compiler lists handlers {'reversed' if rc else 'in source order'} and runTryInterrupt takes the {policy} live one of the list: the EARLIEST written enabled clause wins, the reference says the latest",
            )


def check_resume(ctx, R="C13.resume"):
    ctx.rule(
        R,
        "block protocol: InterruptBlock.step keeps its running iterator across steps (resumption point) and clears it only on "
        "StopIteration; a FINISHED handler returns control to the scan, every other conclusion (ABORT/RETURN/BREAK/CONTINUE, or the body "
        "finishing) ends the statement; each conclusion flag a block can return has its consumer in the compiled code after runTryInterrupt",
    )
    model = ctx.model
    st = model.func(IV, "InterruptBlock.step")
    clears = [n for n in ast.walk(st) if isinstance(n, ast.Assign) and unparse(n.targets[0]) == "self.runningIterator" and isinstance(n.value, ast.Constant) and n.value.value is None]
    good = clears and all(any(isinstance(a, ast.ExceptHandler) and a.type is not None and "StopIteration" in unparse(a.type) for a in ancestors(c)) for c in clears)
    sets = [n for n in ast.walk(st) if isinstance(n, ast.Assign) and unparse(n.targets[0]) == "self.runningIterator" and not (isinstance(n.value, ast.Constant))]
    guarded = sets and all(any(unparse(t) == "not self.runningIterator" and p for t, p in lib.guard_tests(s, st)) for s in sets)
    if good and guarded:
        ctx.ok(R, st, "a block's iterator is created only when none is running and dropped only when it is exhausted: a pre-empted block resumes where it stopped")
    else:
        ctx.finding(R, st, "InterruptBlock.step iterator lifetime", "InterruptBlock.step creates or clears runningIterator outside the `not running` / StopIteration cases: a pre-empted block would restart or lose its position")
    rt = model.func(IV, "runTryInterrupt")
    # roles: (result, concluded) unpacked from <block>.step(..); <block> is what the scan selects; body is the 3rd parameter
    bodyp = rt.args.args[2].arg
    stepu = [n for n in walk_local(rt) if isinstance(n, ast.Assign) and isinstance(n.targets[0], ast.Tuple) and len(n.targets[0].elts) == 2 and isinstance(n.value, ast.Call) and isinstance(n.value.func, ast.Attribute) and n.value.func.attr == "step" and isinstance(n.value.func.value, ast.Name)]
    good_c = False
    if len(stepu) == 1 and all(isinstance(e, ast.Name) for e in stepu[0].targets[0].elts):
        resv, concv = (e.id for e in stepu[0].targets[0].elts)
        blockv = stepu[0].value.func.value.id
        for i in walk_local(rt):
            if isinstance(i, ast.If) and isinstance(i.test, ast.BoolOp) and isinstance(i.test.op, ast.And) and {unparse(v) for v in i.test.values} == {f"{resv} is BlockConclusion.FINISHED", f"{blockv} is not {bodyp}"}:
                under = any(unparse(t_) == concv and p_ for t_, p_ in lib.guard_tests(i, rt))
                cont = any(isinstance(x, ast.Continue) for x in i.body)
                after = []
                blk = _block(i)
                if any(x is i for x in blk):
                    after = blk[[x is i for x in blk].index(True) + 1 :][:1]
                ret = any(isinstance(x, ast.Return) and x.value is not None and unparse(x.value) == resv for x in list(i.orelse) + after)
                good_c = under and cont and ret
    if good_c:
        ctx.ok(R, rt, "only a FINISHED handler resumes the scan; anything else concludes the statement with its flag")
    else:
        ctx.finding(R, rt, "conclusion handling", "runTryInterrupt no longer continues only after `FINISHED` of a handler and returns every other conclusion")
    # consumers in the compiler
    vis = model.func(CO, "ScenicToPythonTransformer.visit_TryInterrupt")
    vt = unparse(vis)
    flags = {"breakFlag": "BREAK", "continueFlag": "CONTINUE", "returnFlag": "RETURN"}
    for f, name in flags.items():
        if f"[ast.Is()], [{f}]" in vt:
            ctx.ok(R, vis, f"{name} returned by a block is consumed after runTryInterrupt")
        else:
            ctx.finding(R, vis, f"{name} consumer", f"visit_TryInterrupt has no `result is {f}` test after runTryInterrupt: `{name.lower()}` inside a handler would be ignored")
    mk = [f for f in ast.walk(vis) if isinstance(f, ast.FunctionDef) and f is not vis and any(isinstance(c, ast.Call) and dotted(c.func) == "ast.FunctionDef" for c in ast.walk(f))]
    term = False
    for f in mk:
        built = [c for c in ast.walk(f) if isinstance(c, ast.Call) and dotted(c.func) == "ast.FunctionDef" and len(c.args) >= 3 and isinstance(c.args[2], ast.Name)]
        for b in built:
            bodyv = b.args[2].id
            # the last statement that adds to the block's body appends `ast.Return(finishedFlag)` (locals resolved)
            adds = [
                c
                for x in f.body
                for c in ast.walk(x)
                if isinstance(c, ast.Call) and isinstance(c.func, ast.Attribute) and unparse(c.func.value) == bodyv and c.func.attr in ("append", "extend", "insert") and not (c.func.attr == "insert" and c.args and lib.const(c.args[0]) == 0)
            ]
            adds.sort(key=lambda c: (c.lineno, c.col_offset))
            if adds and adds[-1].func.attr == "append" and adds[-1].args and lib.role_text(f, adds[-1].args[0]) == "ast.Return(finishedFlag)":
                term = True
    if term:
        ctx.ok(R, vis, "every block ends by returning FINISHED")
    else:
        ctx.finding(R, vis, "FINISHED terminator", "compiled interrupt blocks no longer end with `return BlockConclusion.FINISHED`")
    ab = model.func(CO, "ScenicToPythonTransformer.visit_Abort")
    if "ast.Return(abortFlag)" in unparse(ab) and "self.inInterruptBlock" in unparse(ab):
        ctx.ok(R, ab, "`abort` compiles to `return ABORT` and is only legal inside an interrupt block")
    else:
        ctx.finding(R, ab, "abort compilation", "`abort` no longer compiles to `return BlockConclusion.ABORT` guarded by inInterruptBlock")


def check_invariants(ctx, R="C13.invariants"):
    ctx.rule(
        R,
        "invariants after every suspension: the compiler creates ast.Yield / ast.YieldFrom only in generateInvocation (always followed by "
        "the checkInvariants call) and in the try-interrupt expansion (whose runtime re-checks invariants after each yield); preconditions "
        "and invariants are checked when a behaviour / scenario starts; guard checkers convert a RejectionException raised inside a guard",
    )
    model = ctx.model
    comp = model.module(CO)
    sites = []
    for q, fn in comp.functions.items():
        for n in walk_local(fn):
            if isinstance(n, ast.Call) and dotted(n.func) in ("ast.Yield", "ast.YieldFrom"):
                sites.append((q, n))
            if isinstance(n, ast.Attribute) and dotted(n) in ("ast.Yield", "ast.YieldFrom") and not isinstance(parent(n), ast.Call):
                sites.append((q, n))
    allowed = {"ScenicToPythonTransformer.generateInvocation", "ScenicToPythonTransformer.visit_TryInterrupt", "ScenicToPythonTransformer.makeDoLike"}
    for q, n in sites:
        if q in allowed:
            ctx.ok(R, n, f"{q}: yield construction at a known suspension site")
        elif q.endswith((".visit_Yield", ".visit_YieldFrom")):
            continue
        else:
            ctx.finding(R, n, f"{q}: extra yield construction", f"compiler `{q}` builds a yield outside generateInvocation / the try-interrupt expansion: that suspension is not followed by an invariant check")
    gi = model.func(CO, "ScenicToPythonTransformer.generateInvocation")
    rets = [r for r in lib.returns_of(gi) if isinstance(r.value, ast.List)]
    genv = {n.targets[0].id: n.value for n in walk_local(gi) if isinstance(n, ast.Assign) and len(n.targets) == 1 and isinstance(n.targets[0], ast.Name)}

    def _expand(e, depth=0):
        """text of e with locals replaced by their definitions (roles instead of names)"""
        if depth > 4:
            return unparse(e)
        out = unparse(e)
        for nm in sorted(lib.names_loaded(e), key=len, reverse=True):
            if nm in genv:
                out = re.sub(rf"\b{re.escape(nm)}\b", lambda m_: _expand(genv[nm], depth + 1), out)
        return out

    inv_p = gi.args.args[3].arg if len(gi.args.args) >= 4 else "invoker"
    elts = [_expand(e) for e in rets[0].value.elts] if rets else []
    if len(elts) == 2 and f"{inv_p}(" in elts[0] and "checkInvariantsName" not in elts[0] and "checkInvariantsName" in elts[1] and elts[1].startswith("ast.Expr(ast.Call("):
        ctx.ok(R, gi, "generateInvocation emits [yield ..., checkInvariants(...)] in that order")
    else:
        ctx.finding(R, gi, "generateInvocation order", "generateInvocation no longer returns [invokeAction, checkInvariants]: invariants are not re-checked when a behaviour resumes")
    rt = model.func(IV, "runTryInterrupt")
    ys = [n for n in ast.walk(rt) if isinstance(n, ast.Yield)]
    good = False
    for y in ys:
        st = lib.statement_of(y)
        blk = _block(st)
        i = blk.index(st)
        # ... unconditionally: the very next statement is the call itself (a re-check gated by a flag or parameter is no re-check
        # for the callers that switch it off, e.g. the implicit try-interrupt of `wait for` / `do ... until`)
        nxt_ = next((s_ for s_ in blk[i + 1 :] if not lib.is_inert(s_)), None)
        if isinstance(nxt_, ast.Expr) and isinstance(nxt_.value, ast.Call) and isinstance(nxt_.value.func, ast.Attribute) and nxt_.value.func.attr == "checkInvariants":
            good = True
    # ... with the same first argument as the compiled code passes after every other action: the compiler hands its `self`
    # (the agent) to runTryInterrupt as the second argument and to checkInvariants as the first one
    rtp = [a.arg for a in rt.args.args]
    inv_calls = [c for c in ast.walk(rt) if isinstance(c, ast.Call) and isinstance(c.func, ast.Attribute) and c.func.attr == "checkInvariants"]
    if good and len(rtp) >= 2:
        wrong = [c for c in inv_calls if not (c.args and isinstance(c.args[0], ast.Name) and c.args[0].id == rtp[1])]
        if wrong:
            good = None
            ctx.finding(
                R,
                wrong[0],
                "runTryInterrupt invariants agent",
                f"runTryInterrupt re-checks the invariants with `{unparse(wrong[0].args[0]) if wrong[0].args else ''}` in place of its agent parameter `{rtp[1]}`: an invariant that mentions `self` "
                f"fails with AttributeError (or is checked against the wrong object) as soon as the behaviour takes a step inside a try-interrupt statement",
            )
    if good is None:
        pass
    elif good:
        ctx.ok(R, rt, "runTryInterrupt re-checks the behaviour's invariants after every yield")
    else:
        ctx.finding(R, rt, "runTryInterrupt invariants", "runTryInterrupt no longer calls behavior.checkInvariants right after its yield")
    bs = model.func(BH, "Behavior._start")
    stmts = [unparse(s) for s in bs.body]
    gen = next((i for i, s in enumerate(stmts) if "self.makeGenerator(" in s), None)
    chk = next((i for i, s in enumerate(stmts) if "self._checkAllPreconditions()" in s), None)
    if gen is not None and chk is not None and gen < chk:
        ctx.ok(R, bs, "Behavior._start checks preconditions and invariants once the generator and agent exist")
    else:
        ctx.finding(R, bs, "Behavior._start guards", "Behavior._start no longer calls _checkAllPreconditions after creating the generator")
    ca = model.func(IV, "Invocable._checkAllPreconditions")
    t = unparse(ca)
    if "self.checkPreconditions(self._agent, *self._args, **self._kwargs)" in t and "self.checkInvariants(self._agent, *self._args, **self._kwargs)" in t:
        ctx.ok(R, ca, "_checkAllPreconditions = preconditions then invariants with the invocation's own arguments")
    else:
        ctx.finding(R, ca, "_checkAllPreconditions", "_checkAllPreconditions no longer checks both preconditions and invariants")
    dsm = model.module(DS)
    calls = [q for q, fn in dsm.functions.items() if any(isinstance(c, ast.Call) and unparse(c.func) == "self._checkAllPreconditions" for c in walk_local(fn))]
    if {"DynamicScenario._prepare", "DynamicScenario._start"} <= set(calls):
        ctx.ok(R, dsm.functions["DynamicScenario._start"], "scenarios check their preconditions in _prepare, or in _start when they had to be delayed")
    else:
        ctx.finding(R, dsm.functions["DynamicScenario._start"], "scenario guards", f"DynamicScenario checks preconditions only in {calls}")
    # the decision to delay is taken once, when the scenario is prepared; _start runs once per simulation of the same (reused)
    # scenario object, so (1) _prepare either checks or records the delay, on every path; (2) _start checks whenever the delay
    # was recorded; (3) nothing that runs per simulation changes the recorded decision
    prep, start = dsm.functions.get("DynamicScenario._prepare"), dsm.functions.get("DynamicScenario._start")
    if prep is not None and start is not None and {"DynamicScenario._prepare", "DynamicScenario._start"} <= set(calls):
        flags = {
            unparse(t)
            for n in walk_local(prep)
            if isinstance(n, ast.Assign) and isinstance(n.value, ast.Constant) and n.value.value is True
            for t in n.targets
            if isinstance(t, ast.Attribute) and unparse(t.value) == "self" and any(unparse(x) == unparse(t) for x in ast.walk(start))
        }
        chk_start = [c for c in walk_local(start) if isinstance(c, ast.Call) and unparse(c.func) == "self._checkAllPreconditions"]
        flag = next((f for f in sorted(flags) if any(lib.holds(lib.guard_tests(c, start), f) for c in chk_start)), None)
        if flag is None:
            raise AnalysisError("shape not recognised: the delayed-precondition flag of DynamicScenario._prepare / _start")
        dparam = [a.arg for a in prep.args.args + prep.args.kwonlyargs if "delay" in a.arg.lower()]
        sets = [n for n in walk_local(prep) if isinstance(n, ast.Assign) and any(unparse(t) == flag for t in n.targets)]
        chk_prep = [c for c in walk_local(prep) if isinstance(c, ast.Call) and unparse(c.func) == "self._checkAllPreconditions"]
        ok1 = bool(dparam) and all(lib.holds(lib.guard_tests(n, prep), dparam[0]) for n in sets) and all(lib.holds(lib.guard_tests(c, prep), f"not {dparam[0]}") for c in chk_prep)
        if ok1:
            ctx.ok(R, prep, f"_prepare checks the preconditions at once unless `{dparam[0]}`, in which case it records `{flag}`")
        else:
            ctx.finding(R, prep, "scenario guards: delay decision", f"DynamicScenario._prepare no longer either checks the preconditions or records `{flag}` depending on its delay argument")
        conds_ok = all([unparse(t) for t, p_ in lib.flatten_conditions(lib.guard_tests(c, start)) if p_] == [flag] and not [1 for t, p_ in lib.flatten_conditions(lib.guard_tests(c, start)) if not p_] for c in chk_start)
        if conds_ok:
            ctx.ok(R, start, f"_start checks the delayed preconditions whenever `{flag}` is set")
        else:
            ctx.finding(R, start, "scenario guards: delayed check", f"DynamicScenario._start checks the delayed preconditions only under further conditions than `{flag}`")
        per_run = []
        for q, fn_ in dsm.functions.items():
            if q in ("DynamicScenario._prepare", "DynamicScenario.__init__") or not q.startswith("DynamicScenario."):
                continue
            for n in walk_local(fn_):
                tg = n.targets if isinstance(n, ast.Assign) else [n.target] if isinstance(n, (ast.AugAssign, ast.AnnAssign)) else []
                if any(unparse(t) == flag for t in tg):
                    per_run.append((q, n))
        if per_run:
            q, n = per_run[0]
            ctx.finding(
                R,
                n,
                f"scenario guards: {q} assigns {flag}",
                f"{q} assigns `{flag}` (`{norm_text(n, 60)}`): the flag records a decision taken once in _prepare, but the top-level scenario object is started again for every simulation, "
                f"so from the second simulation on its preconditions are no longer checked",
            )
        else:
            ctx.ok(R, start, f"`{flag}` is assigned only when the scenario is created / prepared")
    mg = model.func(CO, "ScenicToPythonTransformer.makeGuardCheckers")
    t = unparse(mg)
    if t.count("ast.ExceptHandler(type=ast.Name('RejectionException', loadCtx)") >= 2 and "PreconditionViolation" in t and "InvariantViolation" in t:
        ctx.ok(R, mg, "guard checkers turn a RejectionException raised inside a guard into the guard's violation")
    else:
        ctx.finding(R, mg, "guard checker wrapping", "makeGuardCheckers no longer wraps both kinds of checks in `except RejectionException -> raise <Violation> from e`")


def _block(stmt):
    p = parent(stmt)
    for f in ("body", "orelse", "finalbody"):
        seq = getattr(p, f, None)
        if isinstance(seq, list) and any(x is stmt for x in seq):
            return seq
    return []


def check_abandoned(ctx, R="C13.abandon"):
    ctx.rule(
        R,
        "abandoned sub-behaviours are stopped: every `sub._start(...)` of a sub-behaviour is followed by a try/finally that stops a "
        "still-running sub; the `do ... for/until` handler stops every running sub before returning ABORT",
    )
    model = ctx.model
    inv = model.func(BH, "Behavior._invokeInner")
    starts = [c for c in ast.walk(inv) if isinstance(c, ast.Call) and isinstance(c.func, ast.Attribute) and c.func.attr == "_start" and isinstance(c.func.value, ast.Name)]
    tries = [n for n in ast.walk(inv) if isinstance(n, ast.Try) and n.finalbody]
    good = False
    subs_started = {c.func.value.id for c in starts}
    for tr in tries:
        fin = " ".join(unparse(s) for s in tr.finalbody)
        for sv in subs_started:
            if f"{sv}._isRunning" in fin and f"{sv}._stop()" in fin and any(f"yield from {sv}._runningIterator" in unparse(s) for s in tr.body):
                good = all(c.lineno < tr.lineno for c in starts)
    if starts and good:
        ctx.ok(R, inv, "a sub-behaviour is stopped in `finally` whenever the generator running it is closed or fails")
    else:
        ctx.finding(R, inv, "sub-behaviour finally", "Behavior._invokeInner no longer stops a still-running sub-behaviour in a `finally` around `yield from`")
    isb = model.func(IV, "Invocable._invokeSubBehavior")
    handler = [f for f in ast.walk(isb) if isinstance(f, ast.FunctionDef) and f is not isb and any(isinstance(r, ast.Return) and r.value is not None and unparse(r.value) == "BlockConclusion.ABORT" for r in ast.walk(f))]
    if handler:
        t = unparse(handler[0])
        subsp = isb.args.args[2].arg
        lps = [l for l in ast.walk(handler[0]) if isinstance(l, ast.For) and unparse(l.iter) == subsp and isinstance(l.target, ast.Name)]
        sv = lps[0].target.id if lps else "?"
        if lps and f"{sv}._isRunning" in unparse(lps[0]) and f"{sv}._stop(" in unparse(lps[0]) and "return BlockConclusion.ABORT" in t:
            ctx.ok(R, handler[0], "`do X for/until`: all running subs are stopped before the statement aborts")
        else:
            ctx.finding(R, handler[0], "for/until handler", "the for/until handler of _invokeSubBehavior no longer stops every running sub before returning ABORT")
    else:
        ctx.finding(R, isb, "for/until handler", "_invokeSubBehavior has no handler for the for/until modifier")
    calls = [c for c in ast.walk(isb) if isinstance(c, ast.Call) and dotted(c.func) == "runTryInterrupt"]
    agentp = isb.args.args[1].arg
    nested = {f.name for f in ast.walk(isb) if isinstance(f, ast.FunctionDef) and f is not isb}
    cond_locals = set(lib.locals_assigned(isb, lambda v: isinstance(v, ast.Lambda) or unparse(v).endswith(".value")))
    a_ = calls[0].args if calls else []
    shape_ok = (
        len(a_) == 5
        and unparse(a_[0]) == "self"
        and unparse(a_[1]) == agentp
        and isinstance(a_[2], ast.Name)
        and a_[2].id in nested
        and isinstance(a_[3], ast.List)
        and len(a_[3].elts) == 1
        and isinstance(a_[3].elts[0], ast.Name)
        and a_[3].elts[0].id in cond_locals
        and isinstance(a_[4], ast.List)
        and len(a_[4].elts) == 1
        and handler
        and unparse(a_[4].elts[0]) == handler[0].name
    )
    if shape_ok:
        ctx.ok(R, calls[0], "for/until is a try-interrupt with one condition and one aborting handler")
    else:
        ctx.finding(R, isb, "for/until try-interrupt", "`do X for/until` is no longer runTryInterrupt(self, agent, body, [condition], [handler])")
    # (the step at which `do X for T` fires is C12's clause: check_duration below is run by C12.scenario only)


def check_duration(ctx, R):
    """`do X for T`: fires when currentTime - startTime >= limit, the limit in steps being T / timestep exactly (no rounding:
    rounding the quotient down ends the statement one step early whenever T is not a float-exact multiple of the timestep)."""
    model = ctx.model
    isb = model.func(IV, "Invocable._invokeSubBehavior")
    lam = [n for n in ast.walk(isb) if isinstance(n, ast.Lambda) and "currentTime" in unparse(n)]
    st_v = lib.locals_assigned(isb, lambda v: unparse(v) == "veneer.currentSimulation.currentTime")
    limit_locals = set(lib.locals_assigned(isb, lambda v: unparse(v).endswith(".value")))
    convs = []
    for n in ast.walk(isb):
        if isinstance(n, ast.AugAssign) and isinstance(n.target, ast.Name) and n.target.id in limit_locals:
            convs.append((n.target.id, ast.BinOp(left=ast.Name(id=n.target.id, ctx=ast.Load()), op=n.op, right=n.value), n))
        elif isinstance(n, ast.Assign) and isinstance(n.targets[0], ast.Name) and n.targets[0].id in limit_locals and n.targets[0].id in lib.names_loaded(n.value):
            convs.append((n.targets[0].id, n.value, n))
    exact = [c for c in convs if lib.ctext(c[1]) == lib.ctext_of(f"{c[0]} / veneer.currentSimulation.timestep")]
    bad = [c for c in convs if c not in exact]
    for name, expr, node in bad:
        ctx.finding(R, node, "duration conversion is not an exact division", f"`do X for T seconds`: the limit is converted with `{unparse(node)}`, not `T / timestep`: rounding (int / floor / round) ends or prolongs the statement by one step whenever T is not an exact multiple of the time step")
    if lam and len(st_v) == 1 and len(exact) == 1 and not bad and lib.ctext(lam[0].body) == lib.ctext_of(f"veneer.currentSimulation.currentTime - {st_v[0]} >= {exact[0][0]}"):
        ctx.ok(R, lam[0], "`for N steps/seconds` fires when currentTime - startTime >= N (seconds converted by exact division by the timestep)")
    elif not bad:
        ctx.finding(R, isb, "duration condition", "the `for` duration condition is no longer `currentTime - startTime >= timeLimit` with seconds divided by the timestep")


def check_flags(ctx, R="C13.flags"):
    ctx.rule(
        R,
        "re-entrant compiler state: the visitors of the Scenic-to-Python transformer are re-entered for nested statements, so (a) an "
        "attribute a visitor saves into a local and then overwrites is restored from that local afterwards; (b) an attribute a visitor resets "
        "at entry, lets the nested visits set, and reads afterwards (usedBreak / usedContinue) is saved before the reset and restored after "
        "it was read -- otherwise a nested try-interrupt clobbers the flags of the enclosing one; (c) the break / continue / return statements "
        "a visitor emits into the ENCLOSING context are themselves passed through self.visit, so that inside an enclosing interrupt block "
        "they conclude that block instead of being executed inside its function",
    )
    model = ctx.model
    ci = model.cls(CO, "ScenicToPythonTransformer")
    n_saved = 0
    restores_of = {}  # method -> {attr: the statement that assigns the saved value back}
    for mname, fn in ci.methods.items():
        # statements of the method itself, in order (nested helper functions excluded)
        stmts = [s_ for s_ in walk_local(fn) if isinstance(s_, ast.stmt)]
        stmts.sort(key=lambda s_: (s_.lineno, s_.col_offset))

        def attr_targets(t):
            if isinstance(t, ast.Attribute) and isinstance(t.value, ast.Name) and t.value.id == "self":
                return [(t.attr, None)]
            if isinstance(t, ast.Tuple):
                return [(e.attr, i) if isinstance(e, ast.Attribute) and isinstance(e.value, ast.Name) and e.value.id == "self" else (None, i) for i, e in enumerate(t.elts)]
            return []

        saves = {}  # attr -> (local, stmt)
        writes = {}  # attr -> [(stmt, value expr)]
        for s_ in stmts:
            if not isinstance(s_, ast.Assign) or len(s_.targets) != 1:
                continue
            t, v = s_.targets[0], s_.value
            # saves: old = self.A   /   o1, o2 = self.A, self.B
            if isinstance(t, ast.Name) and isinstance(v, ast.Attribute) and isinstance(v.value, ast.Name) and v.value.id == "self":
                saves.setdefault(v.attr, (t.id, s_))
            elif isinstance(t, ast.Tuple) and isinstance(v, ast.Tuple) and len(t.elts) == len(v.elts):
                for te, ve in zip(t.elts, v.elts):
                    if isinstance(te, ast.Name) and isinstance(ve, ast.Attribute) and isinstance(ve.value, ast.Name) and ve.value.id == "self":
                        saves.setdefault(ve.attr, (te.id, s_))
            # writes
            for a_, i in attr_targets(t):
                if a_ is None:
                    continue
                val = v.elts[i] if i is not None and isinstance(v, ast.Tuple) and len(v.elts) == len(t.elts) else v if i is None else None
                writes.setdefault(a_, []).append((s_, val))
        recursive = [c for c in ast.walk(fn) if isinstance(c, ast.Call) and isinstance(c.func, ast.Attribute) and isinstance(c.func.value, ast.Name) and c.func.value.id == "self" and c.func.attr in ("visit", "generic_visit")]
        if not recursive:
            continue
        last_rec = max(c.lineno for c in recursive)
        first_rec = min(c.lineno for c in recursive)
        # (a) saved but not restored
        for a_, (loc, sst) in saves.items():
            over = [w for w, val in writes.get(a_, []) if w.lineno > sst.lineno and not (isinstance(val, ast.Name) and val.id == loc)]
            if not over:
                continue
            n_saved += 1
            restored = [w for w, val in writes.get(a_, []) if isinstance(val, ast.Name) and val.id == loc and w.lineno > over[0].lineno]
            if restored:
                restores_of.setdefault(mname, {})[a_] = restored[0]
                ctx.ok(R, sst, f"{mname}: self.{a_} is saved in `{loc}` and restored")
            else:
                ctx.finding(R, sst, f"{mname}: self.{a_} saved but not restored", f"ScenicToPythonTransformer.{mname} saves self.{a_} in `{loc}` and overwrites it, but never assigns `{loc}` back: after a nested statement the enclosing statement is compiled with the nested one's value of {a_}")
        # (b) reset at entry, read after the nested visits, but not saved
        for a_, ws in writes.items():
            resets = [w for w, val in ws if w.lineno < first_rec and isinstance(val, ast.Constant)]
            if not resets or a_ in saves:
                continue
            reads_after = [x for x in walk_local(fn) if isinstance(x, ast.Attribute) and x.attr == a_ and isinstance(x.ctx, ast.Load) and isinstance(x.value, ast.Name) and x.value.id == "self" and x.lineno > first_rec]
            if reads_after:
                ctx.finding(
                    R,
                    resets[0],
                    f"{mname}: self.{a_} reset and read without saving",
                    f"ScenicToPythonTransformer.{mname} resets self.{a_}, visits its sub-statements (which may set it, and may contain another statement of the same kind that resets it again) and "
                    f"then reads it: a nested statement clobbers the flag, e.g. a `continue` in one handler is dropped when a later handler contains a nested try-interrupt",
                )
    ctx.floor(R, n_saved, 4, "saved-and-overwritten compiler attributes")
    # (c) emitted control flow
    vis = ci.methods["visit_TryInterrupt"]
    parents = {}
    for p_ in ast.walk(vis):
        for c_ in ast.iter_child_nodes(p_):
            parents[id(c_)] = p_
    nested_defs = [f for f in ast.walk(vis) if isinstance(f, ast.FunctionDef) and f is not vis]
    inside_nested = {id(x) for f in nested_defs for x in ast.walk(f)}
    n_cf = 0
    for c in ast.walk(vis):
        if not (isinstance(c, ast.Call) and dotted(c.func) in ("ast.Break", "ast.Continue", "ast.Return")) or id(c) in inside_nested:
            continue
        n_cf += 1
        # is it (through copy_location / a local) the argument of self.visit?
        cur, wrapped = c, False
        uses = []
        seen_names = set()
        for _ in range(6):
            par = parents.get(id(cur))
            if isinstance(par, ast.Call) and dotted(par.func) == "self.visit":
                wrapped = True
                break
            if isinstance(par, ast.Call) and dotted(par.func) == "ast.copy_location":
                cur = par
                continue
            if isinstance(par, ast.Assign) and isinstance(par.targets[0], ast.Name):
                nm = par.targets[0].id
                uses = [u for u in ast.walk(vis) if isinstance(u, ast.Name) and u.id == nm and isinstance(u.ctx, ast.Load)]
                wrapped = any(isinstance(parents.get(id(u)), ast.Call) and dotted(parents[id(u)].func) == "self.visit" for u in uses)
                break
            break
        if wrapped:
            # (d) ... and by then every attribute the visitor had overwritten holds the enclosing context's value again: the
            # visit must see the enclosing flags, and what it records there (usedBreak / usedContinue of the enclosing
            # statement) must not be overwritten by a later restore
            vcall = par if isinstance(par, ast.Call) and dotted(par.func) == "self.visit" else None
            if vcall is None:
                vcalls = [parents[id(u)] for u in uses if isinstance(parents.get(id(u)), ast.Call) and dotted(parents[id(u)].func) == "self.visit"]
                vcall = vcalls[0] if vcalls else None
            late = sorted(a_ for a_, rst in restores_of.get("visit_TryInterrupt", {}).items() if vcall is not None and rst.lineno > vcall.lineno)
            if late:
                ctx.finding(
                    R,
                    vcall,
                    f"visit_TryInterrupt visits emitted {dotted(c.func)} before restoring {late}",
                    f"visit_TryInterrupt passes the emitted `{unparse(c)[:40]}` through self.visit before self.{', self.'.join(late)} hold the enclosing statement's values again: "
                    f"the mark that visit leaves for the enclosing try-interrupt is overwritten by the later restore (or the visit runs under the inner flags), so a break / continue in a nested "
                    f"statement is lost",
                )
                continue
            ctx.ok(R, c, f"visit_TryInterrupt: the emitted `{unparse(c)[:40]}` is visited in the enclosing context")
        else:
            ctx.finding(R, c, f"visit_TryInterrupt emits raw {dotted(c.func)}", f"visit_TryInterrupt emits `{norm_text(c, 60)}` into the enclosing context without self.visit: when the statement is nested in a block of another try-interrupt, the `{dotted(c.func).split('.')[-1].lower()}` is executed inside that block's function ('break outside loop' / a return that only leaves the block)")
    ctx.floor(R, n_cf, 3, "control-flow statements emitted by visit_TryInterrupt")
    # (d) first-use latches: `if not self.X: self.Y = node` records the first break / continue of the statement; X must be Y
    n_latch = 0
    for mname, fn in ci.methods.items():
        for st in walk_local(fn):
            if not (isinstance(st, ast.If) and not st.orelse and len(st.body) == 1 and isinstance(st.body[0], ast.Assign)):
                continue
            t = st.test
            if not (isinstance(t, ast.UnaryOp) and isinstance(t.op, ast.Not) and isinstance(t.operand, ast.Attribute) and isinstance(t.operand.value, ast.Name) and t.operand.value.id == "self"):
                continue
            tg = st.body[0].targets
            if not (len(tg) == 1 and isinstance(tg[0], ast.Attribute) and isinstance(tg[0].value, ast.Name) and tg[0].value.id == "self"):
                continue
            if not (tg[0].attr.startswith("used") or t.operand.attr.startswith("used")):
                continue
            n_latch += 1
            if tg[0].attr != t.operand.attr:
                ctx.finding(
                    R,
                    st,
                    f"{mname} latch tests {t.operand.attr} but sets {tg[0].attr}",
                    f"{mname}: `if not self.{t.operand.attr}: self.{tg[0].attr} = ...` -- the latch that records the first use of the statement tests another flag than the one it sets: "
                    f"once self.{t.operand.attr} is set (e.g. a `break` earlier in the same interrupt block) self.{tg[0].attr} is never recorded, so the enclosing try-interrupt emits no "
                    f"`if ... is {tg[0].attr[4:].lower()}Flag` and the statement silently does nothing",
                )
            else:
                ctx.ok(R, st, f"{mname}: latch on self.{tg[0].attr}")
    ctx.floor(R, n_latch, 2, "first-use latches (usedBreak / usedContinue)")


def check(ctx):
    ctx.run(check_flags)
    ctx.run(check_priority)
    ctx.run(check_resume)
    ctx.run(check_invariants)
    ctx.run(check_abandoned)
