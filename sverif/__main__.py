"""CLI:  python -m sverif check C07 [--tier quick|thorough]
        python -m sverif all [--tier ...]
        python -m sverif replay <violation.json>
        python -m sverif selftest [--prop C07] [-j N]
        python -m sverif seeded [--prop C07] [--all-props]
"""

import argparse
import importlib
import json
import os
import sys

from .report import run_property

PROPS = [f"C{i:02d}" for i in range(1, 21)]


def checker_for(prop):
    mod = importlib.import_module(f"sverif.rules.{prop.lower()}")
    return mod.check


def main(argv=None):
    ap = argparse.ArgumentParser(prog="sverif")
    sub = ap.add_subparsers(dest="cmd", required=True)
    c = sub.add_parser("check")
    c.add_argument("prop")
    c.add_argument("--tier", default=os.environ.get("VERIF_TIER") or "quick", choices=["quick", "thorough"])
    a = sub.add_parser("all")
    a.add_argument("--tier", default="quick", choices=["quick", "thorough"])
    r = sub.add_parser("replay")
    r.add_argument("path")
    s = sub.add_parser("selftest")
    s.add_argument("--prop", default=None)
    s.add_argument("-j", type=int, default=16)
    s.add_argument("-v", action="store_true")
    sd = sub.add_parser("seeded")
    sd.add_argument("--prop", default=None)
    sd.add_argument("--all-props", action="store_true")
    sd.add_argument("-j", type=int, default=16)
    args = ap.parse_args(argv)

    if args.cmd == "check":
        code, ctx, _ = run_property(args.prop, checker_for(args.prop), args.tier)
        if args.tier == "thorough" and code == 0:
            from .selftest import run_selftest

            st = run_selftest(prop=args.prop, jobs=16, verbose=False)
            if st != 0:
                print(f"ANALYSIS-ERROR property={args.prop} self-test of the checker failed (see above)")
                code = 2
            from . import seeded as _seeded
            from . import selftest as _selftest

            if _seeded.run_seeded(prop=args.prop) != 0:
                print(f"ANALYSIS-ERROR property={args.prop} a seeded change recorded as detected is no longer reported")
                code = 2
            # the thorough evidence also says what the checker itself was tested against
            try:
                from . import VERIF

                ep = os.path.join(VERIF, "evidence", f"{args.prop}.json")
                ev = json.load(open(ep))
                ev["coverage"]["checker_selftest"] = _selftest.LAST_SUMMARY
                ev["coverage"]["seeded_changes"] = _seeded.LAST_SUMMARY
                extra = (_selftest.LAST_SUMMARY or {}).get("mutants", 0) + (_selftest.LAST_SUMMARY or {}).get("refactor_variants", 0) + (_selftest.LAST_SUMMARY or {}).get("whole_tree_rewrite_runs", 0) + (_seeded.LAST_SUMMARY or {}).get("changes", 0)
                ev["coverage"]["explanation"] += (
                    f" Thorough tier: the checker was additionally run on {extra} variants of the current sources (mutants that must be reported, "
                    "behaviour-preserving rewrites that must stay silent, seeded changes written by independent agents), all analysed statically as in-memory overlays."
                )
                with open(ep, "w") as fp:
                    json.dump(ev, fp, indent=1)
                    fp.write("\n")
            except Exception as e:  # evidence decoration must never change the verdict
                print(f"note: could not extend the evidence file: {type(e).__name__}: {e}")
        assert_no_scenic()
        return code
    if args.cmd == "all":
        from .model import SrcModel

        worst = 0
        model = SrcModel()
        for p in PROPS:
            try:
                chk = checker_for(p)
            except ModuleNotFoundError:
                continue
            code, _, _ = run_property(p, chk, args.tier, model=model)
            worst = max(worst, code)
        assert_no_scenic()
        return worst
    if args.cmd == "replay":
        with open(args.path) as f:
            v = json.load(f)
        print(f"replaying rule {v['rule']} of {v['property']} on {v['file']} :: {v['qualname']}")
        code, ctx, lines = run_property(v["property"], checker_for(v["property"]), "quick", write=False, quiet=True)
        hit = [f for f in (ctx.findings if ctx else []) if f.key == v["key"]]
        for f in hit:
            print(f"REPRODUCED {f.file}:{f.line} [{f.rule}] {f.qualname}: {f.message}")
            for p in f.path:
                print(f"    via {p}")
        if not hit:
            print("not reproduced on the current tree")
        return 1 if hit else 0
    if args.cmd == "selftest":
        from .selftest import run_selftest

        return run_selftest(prop=args.prop, jobs=args.j, verbose=args.v)
    if args.cmd == "seeded":
        from .seeded import run_seeded

        return run_seeded(prop=args.prop, all_props=args.all_props, jobs=args.j)


def assert_no_scenic():
    bad = [m for m in sys.modules if m == "scenic" or m.startswith("scenic.")]
    if bad:
        print(f"ANALYSIS-ERROR the analysed package was imported: {bad[:3]}")
        sys.exit(2)


if __name__ == "__main__":
    try:
        sys.exit(main())
    except SystemExit:
        raise
    except BaseException as e:  # no tracebacks: they would look like violations
        print(f"ANALYSIS-ERROR internal {type(e).__name__}: {e}")
        sys.exit(2)
