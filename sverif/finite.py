"""Finite interpretation of small, loop-bounded, side-effect-free fragments of the analysed source.

A rule that has to know *which element a selection picks* (the first enabled handler, the neighbour of a lane id) evaluates the
selecting statements of the source over every valuation of a small finite domain -- a truth table of the source text, not an
execution of the repository: nothing is imported, attribute reads are look-ups in records the rule supplies, and any construct
outside the fragment (calls other than the listed pure builtins, attribute stores, while loops, ...) makes the rule decline."""

import ast

from .model import AnalysisError, unparse


class Unsupported(AnalysisError):
    pass


class Rec:
    """An opaque record with the attributes a rule gives it; identity comparison only."""

    def __init__(self, name, **attrs):
        self._name = name
        self.__dict__.update(attrs)

    def __repr__(self):
        return self._name


class _Break(Exception):
    pass


class _Continue(Exception):
    pass


PURE = {"len": len, "any": any, "all": all, "list": list, "tuple": tuple, "reversed": lambda x: list(reversed(x)), "enumerate": lambda x: list(enumerate(x)), "zip": lambda *a: list(zip(*a)), "bool": bool, "min": min, "max": max, "sorted": sorted, "range": lambda *a: list(range(*a))}


def ev(e, env):
    if isinstance(e, ast.Constant):
        return e.value
    if isinstance(e, ast.Name):
        if e.id in env:
            return env[e.id]
        raise Unsupported(f"shape not recognised: free name `{e.id}` in a finitely interpreted fragment")
    if isinstance(e, ast.Attribute):
        v = ev(e.value, env)
        if isinstance(v, Rec) and e.attr in v.__dict__:
            return v.__dict__[e.attr]
        raise Unsupported(f"shape not recognised: attribute `{unparse(e)}` in a finitely interpreted fragment")
    if isinstance(e, ast.BoolOp):
        val = None
        for x in e.values:
            val = ev(x, env)
            if isinstance(e.op, ast.And) and not val:
                return val
            if isinstance(e.op, ast.Or) and val:
                return val
        return val
    if isinstance(e, ast.UnaryOp) and isinstance(e.op, ast.Not):
        return not ev(e.operand, env)
    if isinstance(e, ast.UnaryOp) and isinstance(e.op, ast.USub):
        return -ev(e.operand, env)
    if isinstance(e, ast.IfExp):
        return ev(e.body, env) if ev(e.test, env) else ev(e.orelse, env)
    if isinstance(e, (ast.List, ast.Tuple)):
        out = []
        for x in e.elts:
            if isinstance(x, ast.Starred):
                out.extend(ev(x.value, env))
            else:
                out.append(ev(x, env))
        return out if isinstance(e, ast.List) else tuple(out)
    if isinstance(e, ast.Compare):
        left = ev(e.left, env)
        for op, c in zip(e.ops, e.comparators):
            r = ev(c, env)
            if isinstance(op, ast.Is):
                ok = left is r
            elif isinstance(op, ast.IsNot):
                ok = left is not r
            elif isinstance(op, ast.Eq):
                ok = left == r
            elif isinstance(op, ast.NotEq):
                ok = left != r
            elif isinstance(op, ast.In):
                ok = any(left is x or left == x for x in r)
            elif isinstance(op, ast.NotIn):
                ok = not any(left is x or left == x for x in r)
            elif isinstance(op, (ast.Lt, ast.LtE, ast.Gt, ast.GtE)):
                ok = {ast.Lt: left < r, ast.LtE: left <= r, ast.Gt: left > r, ast.GtE: left >= r}[type(op)]
            else:
                raise Unsupported("shape not recognised: comparison operator in a finitely interpreted fragment")
            if not ok:
                return False
            left = r
        return True
    if isinstance(e, ast.BinOp) and isinstance(e.op, (ast.Add, ast.Sub, ast.Mult)):
        a, b = ev(e.left, env), ev(e.right, env)
        return a + b if isinstance(e.op, ast.Add) else a - b if isinstance(e.op, ast.Sub) else a * b
    if isinstance(e, ast.Subscript):
        v = ev(e.value, env)
        if isinstance(e.slice, ast.Slice):
            lo = ev(e.slice.lower, env) if e.slice.lower is not None else None
            hi = ev(e.slice.upper, env) if e.slice.upper is not None else None
            st = ev(e.slice.step, env) if e.slice.step is not None else None
            return v[lo:hi:st]
        try:
            return v[ev(e.slice, env)]
        except (IndexError, KeyError, TypeError):
            raise Unsupported(f"shape not recognised: `{unparse(e)}` fails for some valuation of the finite domain")
    if isinstance(e, (ast.ListComp, ast.GeneratorExp, ast.SetComp)):
        out = []

        def gen(i, env2):
            if i == len(e.generators):
                out.append(ev(e.elt, env2))
                return
            g = e.generators[i]
            for x in ev(g.iter, env2):
                e3 = dict(env2)
                bind(g.target, x, e3)
                if all(ev(c, e3) for c in g.ifs):
                    gen(i + 1, e3)

        gen(0, env)
        return out
    if isinstance(e, ast.Call) and not e.keywords:
        if isinstance(e.func, ast.Name) and e.func.id in PURE and e.func.id not in env:
            return PURE[e.func.id](*[ev(a, env) for a in e.args])
        if isinstance(e.func, ast.Name) and e.func.id == "next" and 1 <= len(e.args) <= 2:
            it = ev(e.args[0], env)
            for x in it:
                return x
            if len(e.args) == 2:
                return ev(e.args[1], env)
            raise Unsupported("shape not recognised: next() on an empty iterable without default")
        if isinstance(e.func, ast.Name) and e.func.id == "iter" and len(e.args) == 1:
            return list(ev(e.args[0], env))
    raise Unsupported(f"shape not recognised: `{unparse(e)[:60]}` is outside the finitely interpreted fragment")


def bind(target, value, env):
    if isinstance(target, ast.Name):
        env[target.id] = value
    elif isinstance(target, (ast.Tuple, ast.List)):
        vals = list(value)
        if len(vals) != len(target.elts):
            raise Unsupported("shape not recognised: unpacking in a finitely interpreted fragment")
        for t, v in zip(target.elts, vals):
            bind(t, v, env)
    else:
        raise Unsupported(f"shape not recognised: assignment to `{unparse(target)}` in a finitely interpreted fragment")


def _inert(s):
    from . import lib

    return lib.is_inert(s)


def run(stmts, env):
    for s in stmts:
        if isinstance(s, ast.Assign):
            v = ev(s.value, env)
            for t in s.targets:
                bind(t, v, env)
        elif isinstance(s, ast.If):
            run(s.body if ev(s.test, env) else s.orelse, env)
        elif isinstance(s, ast.For):
            broke = False
            for x in ev(s.iter, env):
                bind(s.target, x, env)
                try:
                    run(s.body, env)
                except _Break:
                    broke = True
                    break
                except _Continue:
                    continue
            if not broke:
                run(s.orelse, env)
        elif isinstance(s, ast.Break):
            raise _Break()
        elif isinstance(s, ast.Continue):
            raise _Continue()
        elif _inert(s):
            continue  # log lines, docstrings, pass
        else:
            raise Unsupported(f"shape not recognised: statement `{unparse(s)[:60]}` is outside the finitely interpreted fragment")
    return env
