"""SrcModel: the parsed repository (modules, imports, classes, MRO, functions).

Pure ``ast``; nothing from the analysed repository is imported or executed.
An *overlay* ``{relative path: source text}`` replaces files in memory, so the
self-test analyses mutated sources without scratch copies on disk.
"""

import ast
import builtins
import hashlib
import os

from . import REPO


class AnalysisError(Exception):
    """An anchor vanished / a shape is no longer recognised / a floor is not met."""


SRC_ROOT = "src/scenic"
LAZY_MODULES = {"scenic.syntax.parser"}  # generated file, parsed on demand only


def unparse(node):
    try:
        return ast.unparse(node)
    except Exception:  # pragma: no cover
        return "<unparse failed>"


def norm_text(node, limit=160):
    """Normalised statement text used in finding keys (never a line number)."""
    if isinstance(node, str):
        t = node
    else:
        if isinstance(
            node,
            (
                ast.FunctionDef,
                ast.AsyncFunctionDef,
                ast.ClassDef,
                ast.If,
                ast.For,
                ast.While,
                ast.With,
                ast.Try,
            ),
        ):
            # head only
            t = unparse(node).split("\n", 1)[0]
        else:
            t = unparse(node)
    t = " ".join(t.split())
    return t[:limit]


SIGS = {}  # simple callable name -> set of parameter-name tuples (None: some definition takes *args), set per SrcModel


def signature_index(sources):
    """{simple name: set of parameter tuples (self / cls dropped)} over all definitions in `sources` ({rel: text}).
    A name maps to None when one of its definitions takes *args or positional-only parameters (then the position of a
    keyword is not determined by the name alone)."""
    idx = {}

    def add(name, params):
        if idx.get(name, 0) is None:
            return
        if params is None:
            idx[name] = None
        else:
            idx.setdefault(name, set()).add(params)

    def params_of(fn, drop_first):
        a = fn.args
        if a.vararg or a.posonlyargs:
            return None
        names = [x.arg for x in a.args]
        return tuple(names[1:] if drop_first else names)

    for rel, text in sources.items():
        try:
            tree = text if isinstance(text, ast.AST) else ast.parse(text)
        except SyntaxError:
            continue
        methods = set()
        for cls in [n for n in ast.walk(tree) if isinstance(n, ast.ClassDef)]:
            init = [f for f in cls.body if isinstance(f, ast.FunctionDef) and f.name == "__init__"]
            if init:
                add(cls.name, params_of(init[0], True))
            for f in cls.body:
                if isinstance(f, (ast.FunctionDef, ast.AsyncFunctionDef)):
                    methods.add(id(f))
                    static = any(ast.unparse(d) == "staticmethod" for d in f.decorator_list)
                    if not f.name.startswith("__"):
                        add(f.name, params_of(f, not static))
        for f in [n for n in ast.walk(tree) if isinstance(n, (ast.FunctionDef, ast.AsyncFunctionDef))]:
            if id(f) not in methods and not f.name.startswith("__"):
                add(f.name, params_of(f, False))
    return idx


def param_position(call, name, sigs=None):
    """Index of parameter `name` in the callee of `call`, when every repository definition with the callee's simple name
    puts it at the same position (else None)."""
    sigs = SIGS if sigs is None else sigs
    f = call.func
    cn = f.id if isinstance(f, ast.Name) else f.attr if isinstance(f, ast.Attribute) else None
    cands = sigs.get(cn) if cn else None
    if not cands:
        return None
    pos = {c.index(name) if name in c else None for c in cands}
    if len(pos) == 1 and None not in pos:
        return pos.pop()
    return None


def _positionalise(tree, sigs):
    """N2: keyword arguments that name the next positional parameter of the callee become positional."""
    for call in [n for n in ast.walk(tree) if isinstance(n, ast.Call)]:
        if not call.keywords or any(isinstance(a, ast.Starred) for a in call.args) or any(k.arg is None for k in call.keywords):
            continue
        f = call.func
        cn = f.id if isinstance(f, ast.Name) else f.attr if isinstance(f, ast.Attribute) else None
        cands = sigs.get(cn) if cn else None
        if not cands:
            continue
        while call.keywords:
            p = len(call.args)
            nxt = {c[p] if len(c) > p else None for c in cands}
            if len(nxt) != 1 or None in nxt:
                break
            want = nxt.pop()
            k = next((k for k in call.keywords if k.arg == want), None)
            if k is None:
                break
            call.args.append(k.value)
            call.keywords.remove(k)
    return tree


def _always_exits_block(body):
    if not body:
        return False
    last = body[-1]
    if isinstance(last, (ast.Return, ast.Raise, ast.Continue, ast.Break)):
        return True
    if isinstance(last, ast.If) and last.orelse:
        return _always_exits_block(last.body) and _always_exits_block(last.orelse)
    return False


_NEG = {ast.Is: ast.IsNot, ast.IsNot: ast.Is, ast.In: ast.NotIn, ast.NotIn: ast.In, ast.Eq: ast.NotEq, ast.NotEq: ast.Eq}


def negate(t):
    """The test `not t`, spelled without a double negation."""
    if isinstance(t, ast.UnaryOp) and isinstance(t.op, ast.Not):
        return t.operand
    if isinstance(t, ast.Compare) and len(t.ops) == 1 and type(t.ops[0]) in _NEG:
        return ast.copy_location(ast.Compare(left=t.left, ops=[_NEG[type(t.ops[0])]()], comparators=t.comparators), t)
    return ast.copy_location(ast.UnaryOp(op=ast.Not(), operand=t), t)


def _nstmts(body):
    return sum(1 for st in body for n in ast.walk(st) if isinstance(n, ast.stmt))


def _flatten_else_after_exit(tree):
    """N3: `if c: ...exit` `else: REST` becomes `if c: ...exit` followed by REST (the "no-else-return" style)."""

    def fix(body):
        out = []
        for st in body:
            out.append(st)
            cur = st
            # peel: if one branch always exits, the other branch is just what follows
            while isinstance(cur, ast.If) and cur.orelse:
                be, oe = _always_exits_block(cur.body), _always_exits_block(cur.orelse)
                if be and oe and _nstmts(cur.orelse) < _nstmts(cur.body):
                    be = False  # both branches exit: the shorter one is the guard, whichever way the test was written
                if be:
                    tail = cur.orelse
                    cur.orelse = []
                elif oe:
                    tail = cur.body
                    cur.test = negate(cur.test)
                    cur.body = cur.orelse
                    cur.orelse = []
                else:
                    break
                out.extend(tail)
                cur = tail[0] if len(tail) == 1 and isinstance(tail[0], ast.If) else None
        return out

    def visit(node):
        for f in ("body", "orelse", "finalbody"):
            seq = getattr(node, f, None)
            if isinstance(seq, list) and seq and isinstance(seq[0], ast.stmt):
                new = fix(seq)
                # repeat until stable (hoisted statements may themselves be ifs with exiting bodies)
                while len(new) != len(seq):
                    seq, new = new, fix(new)
                setattr(node, f, new)
        if isinstance(node, ast.Try):
            for h in node.handlers:
                h.body = fix(h.body)
        # children are enumerated after the rewrite, so hoisted statements are visited too
        for ch in ast.iter_child_nodes(node):
            visit(ch)

    visit(tree)
    return tree


def _merge_nested_ifs(tree):
    """N4: `if a:` whose whole body is `if b: X` (neither with an else) becomes `if a and b: X`."""
    changed = True
    while changed:
        changed = False
        for n in ast.walk(tree):
            if isinstance(n, ast.If) and not n.orelse and len(n.body) == 1 and isinstance(n.body[0], ast.If) and not n.body[0].orelse:
                inner = n.body[0]
                a = n.test.values if isinstance(n.test, ast.BoolOp) and isinstance(n.test.op, ast.And) else [n.test]
                b = inner.test.values if isinstance(inner.test, ast.BoolOp) and isinstance(inner.test.op, ast.And) else [inner.test]
                n.test = ast.copy_location(ast.BoolOp(op=ast.And(), values=list(a) + list(b)), n.test)
                n.body = inner.body
                changed = True
    return tree


_MULTI_EVAL = (ast.Lambda, ast.ListComp, ast.SetComp, ast.DictComp, ast.GeneratorExp)


def _header_exprs(st):
    """The expressions of statement st that are evaluated exactly once when control reaches st."""
    if isinstance(st, (ast.Return, ast.Expr, ast.Assign, ast.AugAssign, ast.AnnAssign, ast.Raise, ast.Assert, ast.Delete)):
        return [st]
    if isinstance(st, ast.If):
        return [st.test]
    if isinstance(st, (ast.For, ast.AsyncFor)):
        return [st.iter]
    if isinstance(st, (ast.With, ast.AsyncWith)):
        return [st.items[0].context_expr] if st.items else []
    return []


def _single_loads(exprs, name):
    """Load occurrences of `name` in exprs that are evaluated exactly once (not under a lambda / comprehension, not in the
    right operand of a short-circuit operator or a branch of a conditional expression)."""
    found, blocked = [], []

    def visit(n, multi):
        if isinstance(n, ast.Name) and n.id == name:
            (blocked if multi or not isinstance(n.ctx, ast.Load) else found).append(n)
            return
        if isinstance(n, ast.BoolOp):
            visit(n.values[0], multi)
            for v in n.values[1:]:
                visit(v, True)
            return
        if isinstance(n, ast.IfExp):
            visit(n.test, multi)
            visit(n.body, True)
            visit(n.orelse, True)
            return
        m = multi or isinstance(n, _MULTI_EVAL)
        for ch in ast.iter_child_nodes(n):
            visit(ch, m)

    for e in exprs:
        visit(e, False)
    return found, blocked


def _inline_single_use(tree):
    """N5: `t = E` immediately followed by a statement that evaluates the local `t` exactly once, `t` occurring nowhere else
    in the function, becomes that statement with E in place of `t` (the inverse of an "extract variable" refactoring)."""

    def blocks_of(fn):
        out = []

        def visit(node):
            for f in ("body", "orelse", "finalbody"):
                seq = getattr(node, f, None)
                if isinstance(seq, list) and seq and isinstance(seq[0], ast.stmt):
                    out.append((node, f))
                    for st in seq:
                        if not isinstance(st, (ast.FunctionDef, ast.AsyncFunctionDef, ast.ClassDef)):
                            visit(st)
            for h in getattr(node, "handlers", None) or []:
                visit(h)
            for c in getattr(node, "cases", None) or []:
                visit(c)

        visit(fn)
        return out

    def candidate(seq, i, params):
        st = seq[i]
        if not (isinstance(st, ast.Assign) and len(st.targets) == 1 and isinstance(st.targets[0], ast.Name)) or i + 1 >= len(seq):
            return None
        t = st.targets[0].id
        if t in params or any(isinstance(x, (ast.Yield, ast.YieldFrom, ast.Await, ast.NamedExpr)) for x in ast.walk(st.value)):
            return None
        hdr = _header_exprs(seq[i + 1])
        found, blocked = _single_loads(hdr, t)
        if len(found) == 1 and not blocked:
            return t, found[0]
        return None

    for fn in [n for n in ast.walk(tree) if isinstance(n, (ast.FunctionDef, ast.AsyncFunctionDef))]:
        a = fn.args
        params = {x.arg for x in a.posonlyargs + a.args + a.kwonlyargs} | ({a.vararg.arg} if a.vararg else set()) | ({a.kwarg.arg} if a.kwarg else set())
        for _ in range(50):
            cnt = {}
            for n in ast.walk(fn):
                if isinstance(n, ast.Name):
                    cnt[n.id] = cnt.get(n.id, 0) + 1
                elif isinstance(n, (ast.Global, ast.Nonlocal)):
                    for x in n.names:
                        cnt[x] = cnt.get(x, 0) + 1000
            blocks = blocks_of(fn)
            npairs = {}
            for node, f in blocks:
                seq = getattr(node, f)
                for i in range(len(seq)):
                    c = candidate(seq, i, params)
                    if c:
                        npairs[c[0]] = npairs.get(c[0], 0) + 1
            done = False
            for node, f in blocks:
                seq = getattr(node, f)
                # from the end of the block, so that a deletion does not move the statements still to be looked at
                for i in range(len(seq) - 2, -1, -1):
                    c = candidate(seq, i, params)
                    if c and cnt.get(c[0], 0) == 2 * npairs.get(c[0], 0):
                        t, load = c
                        value = seq[i].value

                        class Sub(ast.NodeTransformer):
                            def visit_Name(self, n):
                                return value if n is load else n

                        nxt = seq[i + 1]
                        if isinstance(nxt, ast.If):
                            nxt.test = Sub().visit(nxt.test)
                        elif isinstance(nxt, (ast.For, ast.AsyncFor)):
                            nxt.iter = Sub().visit(nxt.iter)
                        elif isinstance(nxt, (ast.With, ast.AsyncWith)):
                            nxt.items[0].context_expr = Sub().visit(nxt.items[0].context_expr)
                        else:
                            seq[i + 1] = Sub().visit(nxt)
                        del seq[i]
                        done = True
            if not done:
                break
    return tree


def normalise(tree, sigs=None):
    """Canonical form applied to every analysed module before any rule sees it, so that rules do not depend on a
    maintainer's choice between equivalent spellings:

    N1  `t = E` immediately followed by `return t`, where the local `t` occurs nowhere else in the function, becomes
        `return E` (an "extract variable" refactoring of a return value is invisible to the rules).
    N2  a keyword argument naming the callee's next positional parameter becomes positional, when every definition in
        the repository with the callee's simple name agrees on that position (`f(a, y=b)` is `f(a, b)` for every rule).
    N3  `if c: ...exit` `else: REST` is `if c: ...exit` followed by REST (an else after return / raise / continue / break is
        hoisted, also along elif chains), so the early-exit style and the if/else style are one shape; likewise
        `if c: REST` `else: ...exit` is `if not c: ...exit` followed by REST; when both branches exit, the shorter one is
        the guard.
    N4  `if a:` whose whole body is `if b: X` (no else on either) is `if a and b: X`.
    N5  `t = E` immediately followed by a statement that evaluates the local `t` exactly once, `t` occurring nowhere else in
        the function, is that statement with E for `t` (generalises N1: an "extract variable" step is invisible).
    """
    _positionalise(tree, SIGS if sigs is None else sigs)
    _flatten_else_after_exit(tree)
    _merge_nested_ifs(tree)
    _inline_single_use(tree)

    def occurrences(fn):
        cnt = {}
        for n in ast.walk(fn):
            if isinstance(n, ast.Name):
                cnt[n.id] = cnt.get(n.id, 0) + 1
            elif isinstance(n, (ast.Global, ast.Nonlocal)):
                for x in n.names:
                    cnt[x] = cnt.get(x, 0) + 10
        return cnt

    def pairs(fn):
        """{name: number of `name = E; return name` adjacent pairs in fn}"""
        out = {}
        for n in ast.walk(fn):
            for f in ("body", "orelse", "finalbody"):
                seq = getattr(n, f, None)
                if isinstance(seq, list):
                    for a, b in zip(seq, seq[1:]):
                        if (
                            isinstance(a, ast.Assign)
                            and len(a.targets) == 1
                            and isinstance(a.targets[0], ast.Name)
                            and isinstance(b, ast.Return)
                            and isinstance(b.value, ast.Name)
                            and b.value.id == a.targets[0].id
                        ):
                            out[a.targets[0].id] = out.get(a.targets[0].id, 0) + 1
        return out

    def fold(body, cnt):
        out = []
        i = 0
        while i < len(body):
            st = body[i]
            nxt = body[i + 1] if i + 1 < len(body) else None
            if (
                isinstance(st, ast.Assign)
                and len(st.targets) == 1
                and isinstance(st.targets[0], ast.Name)
                and isinstance(nxt, ast.Return)
                and isinstance(nxt.value, ast.Name)
                and nxt.value.id == st.targets[0].id
                and cnt.get(st.targets[0].id, 0) == 2 * cnt.get(("pairs", st.targets[0].id), 0)
            ):
                out.append(ast.copy_location(ast.Return(value=st.value), st))
                i += 2
                continue
            out.append(st)
            i += 1
        return out

    def visit(node, cnt):
        if isinstance(node, (ast.FunctionDef, ast.AsyncFunctionDef)):
            cnt = occurrences(node)
            for k, v in pairs(node).items():
                cnt[("pairs", k)] = v
        for f in ("body", "orelse", "finalbody"):
            seq = getattr(node, f, None)
            if isinstance(seq, list) and seq and isinstance(seq[0], ast.stmt) and cnt is not None:
                setattr(node, f, fold(seq, cnt))
        if isinstance(node, ast.Try) and cnt is not None:
            for h in node.handlers:
                h.body = fold(h.body, cnt)
        for ch in ast.iter_child_nodes(node):
            visit(ch, cnt)

    visit(tree, None)
    return tree


class Module:
    def __init__(self, name, relpath, src, tree=None):
        self.name = name
        self.path = relpath
        self.src = src
        self.tree = normalise(tree if tree is not None else ast.parse(src, filename=relpath))
        self.is_pkg = relpath.endswith("__init__.py")
        self.imports = {}  # alias -> qualified dotted name
        self.star_imports = []  # modules imported with *
        self.defs = {}  # top-level name -> node (FunctionDef/ClassDef/Assign target)
        self.functions = {}  # qualname -> FunctionDef (all nesting levels)
        self.classes = {}  # qualname -> ClassDef
        self._index()

    def _pkg(self):
        return self.name if self.is_pkg else self.name.rsplit(".", 1)[0]

    def _index(self):
        def visit(node, parent, qual):
            node._parent = parent
            node._module = self
            if isinstance(node, (ast.FunctionDef, ast.AsyncFunctionDef, ast.ClassDef)):
                q = f"{qual}.{node.name}" if qual else node.name
                node._qualname = q
                if isinstance(node, ast.ClassDef):
                    self.classes.setdefault(q, node)
                else:
                    self.functions.setdefault(q, node)
                sub = q
            elif isinstance(node, ast.Lambda):
                node._qualname = f"{qual}.<lambda>" if qual else "<lambda>"
                sub = qual
            else:
                sub = qual
            for child in ast.iter_child_nodes(node):
                visit(child, node, sub)

        visit(self.tree, None, "")
        for node in ast.walk(self.tree):
            if isinstance(node, ast.Import):
                for a in node.names:
                    if a.asname:
                        self.imports[a.asname] = a.name
                    else:
                        self.imports[a.name.split(".")[0]] = a.name.split(".")[0]
            elif isinstance(node, ast.ImportFrom):
                base = node.module or ""
                if node.level:
                    pkg = self._pkg().split(".")
                    pkg = pkg[: len(pkg) - (node.level - 1)]
                    base = ".".join(pkg + ([node.module] if node.module else []))
                for a in node.names:
                    if a.name == "*":
                        self.star_imports.append(base)
                    else:
                        self.imports[a.asname or a.name] = f"{base}.{a.name}"
        for stmt in self.tree.body:
            self._top(stmt)

    def _top(self, stmt):
        if isinstance(stmt, (ast.FunctionDef, ast.AsyncFunctionDef, ast.ClassDef)):
            self.defs[stmt.name] = stmt
        elif isinstance(stmt, (ast.Assign, ast.AnnAssign, ast.AugAssign)):
            targets = stmt.targets if isinstance(stmt, ast.Assign) else [stmt.target]
            for t in targets:
                for n in ast.walk(t):
                    if isinstance(n, ast.Name):
                        self.defs.setdefault(n.id, stmt)
        elif isinstance(stmt, (ast.If, ast.Try, ast.With, ast.For, ast.While)):
            for field in ("body", "orelse", "finalbody"):
                for s in getattr(stmt, field, []) or []:
                    self._top(s)
            for h in getattr(stmt, "handlers", []) or []:
                for s in h.body:
                    self._top(s)

    def line(self, lineno):
        lines = self.src.splitlines()
        return lines[lineno - 1] if 0 < lineno <= len(lines) else ""


class ClassInfo:
    def __init__(self, module, node):
        self.module = module
        self.node = node
        self.name = node.name
        self.qualname = node._qualname
        self.fq = f"{module.name}.{node._qualname}"
        self.methods = {}
        self.class_attrs = {}
        for s in node.body:
            if isinstance(s, (ast.FunctionDef, ast.AsyncFunctionDef)):
                self.methods.setdefault(s.name, s)
                # later definitions (e.g. property setters) keep first def as the getter
            elif isinstance(s, ast.Assign):
                for t in s.targets:
                    for n in ast.walk(t):
                        if isinstance(n, ast.Name):
                            self.class_attrs[n.id] = s
            elif isinstance(s, ast.AnnAssign) and isinstance(s.target, ast.Name):
                self.class_attrs[s.target.id] = s
        self.bases = []  # ClassInfo or str (external)
        self.external_base = False

    def __repr__(self):
        return f"<Class {self.fq}>"


class SrcModel:
    def __init__(self, repo=None, overlay=None):
        self.repo = repo or REPO
        self.overlay = dict(overlay or {})
        self.modules = {}
        self._paths = {}
        self.digest = hashlib.sha256()
        root = os.path.join(self.repo, SRC_ROOT)
        if not os.path.isdir(root):
            raise AnalysisError(f"source root {root} missing")
        for dirpath, dirnames, filenames in os.walk(root):
            dirnames.sort()
            for fn in sorted(filenames):
                if not fn.endswith(".py"):
                    continue
                full = os.path.join(dirpath, fn)
                rel = os.path.relpath(full, self.repo)
                parts = os.path.relpath(full, os.path.join(self.repo, "src"))[:-3].split(os.sep)
                if parts[-1] == "__init__":
                    parts = parts[:-1]
                self._paths[".".join(parts)] = rel
        for rel in self.overlay:
            if rel.endswith(".py") and rel.startswith(SRC_ROOT):
                parts = rel[len("src/") : -3].split("/")
                if parts[-1] == "__init__":
                    parts = parts[:-1]
                self._paths.setdefault(".".join(parts), rel)
        global SIGS
        # every file is parsed once: the signature index is computed from the same trees the modules are then built from
        self._parsed = {}
        for name, rel in self._paths.items():
            if name in LAZY_MODULES:
                continue
            try:
                self._parsed[rel] = ast.parse(self.read(rel), filename=rel)
            except SyntaxError as e:
                raise AnalysisError(f"cannot parse {rel}: {e}")
        SIGS = self.sigs = signature_index(self._parsed)
        for name in sorted(self._paths):
            if name in LAZY_MODULES:
                continue
            self._load(name)
        self.classes = {}  # fq -> ClassInfo
        self.by_name = {}  # simple name -> [ClassInfo]
        for m in list(self.modules.values()):
            for q, node in m.classes.items():
                ci = ClassInfo(m, node)
                self.classes[ci.fq] = ci
                self.by_name.setdefault(ci.name, []).append(ci)
        for ci in self.classes.values():
            for b in ci.node.bases:
                r = self.resolve_expr(ci.module, b)
                if isinstance(r, ClassInfo):
                    ci.bases.append(r)
                else:
                    ci.bases.append(unparse(b))
                    if unparse(b) not in ("object", "ABC", "abc.ABC") and not unparse(b).startswith(
                        ("Generic[", "typing.Generic[")
                    ):
                        ci.external_base = True
        self._mro = {}
        self._iattrs = {}

    # -- files ---------------------------------------------------------
    def read(self, rel):
        if rel in self.overlay:
            return self.overlay[rel]
        with open(os.path.join(self.repo, rel), encoding="utf-8") as f:
            return f.read()

    def exists(self, rel):
        return rel in self.overlay or os.path.exists(os.path.join(self.repo, rel))

    def _load(self, name):
        rel = self._paths[name]
        src = self.read(rel)
        self.digest.update(rel.encode() + b"\0" + src.encode() + b"\0")
        try:
            self.modules[name] = Module(name, rel, src, tree=getattr(self, "_parsed", {}).pop(rel, None))
        except SyntaxError as e:
            raise AnalysisError(f"cannot parse {rel}: {e}")
        return self.modules[name]

    def module(self, name):
        if name in self.modules:
            return self.modules[name]
        if name in self._paths:
            return self._load(name)
        raise AnalysisError(f"anchor module {name} not found")

    def has_module(self, name):
        return name in self._paths

    # -- anchors -------------------------------------------------------
    def func(self, module, qualname):
        m = self.module(module)
        f = m.functions.get(qualname)
        if f is None:
            raise AnalysisError(f"anchor function {module}:{qualname} not found")
        return f

    def try_func(self, module, qualname):
        try:
            return self.func(module, qualname)
        except AnalysisError:
            return None

    def cls(self, module, qualname):
        ci = self.classes.get(f"{module}.{qualname}")
        if ci is None:
            raise AnalysisError(f"anchor class {module}.{qualname} not found")
        return ci

    # -- name resolution -----------------------------------------------
    def resolve_qualified(self, dotted, _depth=0):
        """dotted name -> ClassInfo | FunctionDef | Module | ('ext', dotted)."""
        if _depth > 8:
            return ("ext", dotted)
        if dotted in self.classes:
            return self.classes[dotted]
        if dotted in self._paths:
            return self.module(dotted)
        if "." in dotted:
            head, tail = dotted.rsplit(".", 1)
            if head in self._paths:
                m = self.module(head)
                if tail in m.classes:
                    return self.classes[f"{head}.{tail}"]
                if tail in m.functions:
                    return m.functions[tail]
                if tail in m.imports:
                    return self.resolve_qualified(m.imports[tail], _depth + 1)
                if tail in m.defs:
                    return ("var", head, tail)
                for star in m.star_imports:
                    r = self.resolve_qualified(f"{star}.{tail}", _depth + 1)
                    if not (isinstance(r, tuple) and r[0] == "ext"):
                        return r
            else:
                r = self.resolve_qualified(head, _depth + 1)
                if isinstance(r, ClassInfo):
                    found = self.find_method(r, tail)
                    if found:
                        return found[1]
        return ("ext", dotted)

    def resolve_name(self, module, name):
        if name in module.classes:
            return self.classes[f"{module.name}.{name}"]
        if name in module.functions and name in module.defs:
            return module.functions[name]
        if name in module.imports:
            return self.resolve_qualified(module.imports[name])
        if name in module.defs:
            return ("var", module.name, name)
        for star in module.star_imports:
            r = self.resolve_qualified(f"{star}.{name}")
            if not (isinstance(r, tuple) and r[0] == "ext"):
                return r
        if hasattr(builtins, name):
            return ("builtin", name)
        return None

    def resolve_expr(self, module, expr):
        """Resolve a Name / dotted Attribute expression in module scope."""
        if isinstance(expr, ast.Name):
            return self.resolve_name(module, expr.id)
        if isinstance(expr, ast.Attribute):
            base = self.resolve_expr(module, expr.value)
            if isinstance(base, Module):
                return self.resolve_qualified(f"{base.name}.{expr.attr}")
            if isinstance(base, ClassInfo):
                found = self.find_method(base, expr.attr)
                if found:
                    return found[1]
                return None
            if isinstance(base, tuple) and base[0] == "ext":
                return ("ext", f"{base[1]}.{expr.attr}")
        return None

    # -- class hierarchy -----------------------------------------------
    def mro(self, ci):
        if ci.fq in self._mro:
            return self._mro[ci.fq]
        seqs = [[ci]] if False else []
        out = [ci]
        # simple C3
        lists = [list(self.mro(b)) for b in ci.bases if isinstance(b, ClassInfo)]
        lists.append([b for b in ci.bases if isinstance(b, ClassInfo)])
        lists = [l for l in lists if l]
        while lists:
            for l in lists:
                cand = l[0]
                if not any(cand in o[1:] for o in lists):
                    break
            else:
                cand = lists[0][0]  # inconsistent; fall back
            out.append(cand)
            lists = [[x for x in l if x is not cand] for l in lists]
            lists = [l for l in lists if l]
        self._mro[ci.fq] = out
        return out

    def find_method(self, ci, name):
        for c in self.mro(ci):
            if name in c.methods:
                return c, c.methods[name]
        return None

    def find_class_attr(self, ci, name):
        for c in self.mro(ci):
            if name in c.class_attrs:
                return c, c.class_attrs[name]
        return None

    def is_subclass(self, ci, base_fq_or_name):
        for c in self.mro(ci):
            if c.fq == base_fq_or_name or c.name == base_fq_or_name:
                return True
        return False

    def subclasses(self, base, strict=False):
        if isinstance(base, str):
            cands = [c for c in self.classes.values() if c.fq == base or c.name == base]
            if not cands:
                raise AnalysisError(f"anchor class {base} not found")
            base = cands[0]
        out = []
        for ci in self.classes.values():
            if base in self.mro(ci) and not (strict and ci is base):
                out.append(ci)
        out.sort(key=lambda c: (c.module.path, c.node.lineno))
        return out

    def has_external_base(self, ci):
        return any(c.external_base for c in self.mro(ci))

    def instance_attrs(self, ci):
        """Names that exist on instances of ci as far as the source tells."""
        if ci.fq in self._iattrs:
            return self._iattrs[ci.fq]
        names = set()
        for c in self.mro(ci):
            names.update(c.methods)
            names.update(c.class_attrs)
            for fn in c.methods.values():
                if not fn.args.args:
                    continue
                selfname = fn.args.args[0].arg
                for n in ast.walk(fn):
                    if (
                        isinstance(n, ast.Attribute)
                        and isinstance(n.ctx, (ast.Store, ast.Del))
                        and isinstance(n.value, ast.Name)
                        and n.value.id == selfname
                    ):
                        names.add(n.attr)
                    elif (
                        isinstance(n, ast.Call)
                        and isinstance(n.func, ast.Name)
                        and n.func.id == "setattr"
                        and n.args
                        and isinstance(n.args[0], ast.Name)
                        and n.args[0].id == selfname
                    ):
                        names.add("*dynamic*")
        self._iattrs[ci.fq] = names
        return names


# ----------------------------------------------------------------------
# generic AST helpers


def parent(node):
    return getattr(node, "_parent", None)


def enclosing(node, types):
    p = parent(node)
    while p is not None and not isinstance(p, types):
        p = parent(p)
    return p


def enclosing_function(node):
    return enclosing(node, (ast.FunctionDef, ast.AsyncFunctionDef, ast.Lambda))


def enclosing_class(node):
    p = parent(node)
    while p is not None:
        if isinstance(p, ast.ClassDef):
            return p
        p = parent(p)
    return None


def qualname_of(node):
    """Qualified name of the innermost def/class containing node (or of node)."""
    n = node
    while n is not None:
        q = getattr(n, "_qualname", None)
        if q is not None and isinstance(n, (ast.FunctionDef, ast.AsyncFunctionDef, ast.ClassDef)):
            return q
        n = parent(n)
    return "<module>"


def walk_local(node, into_lambdas=True):
    """Walk without descending into nested function / class definitions."""
    stack = list(ast.iter_child_nodes(node))
    while stack:
        n = stack.pop()
        yield n
        if isinstance(n, (ast.FunctionDef, ast.AsyncFunctionDef, ast.ClassDef)):
            continue
        if isinstance(n, ast.Lambda) and not into_lambdas:
            continue
        stack.extend(ast.iter_child_nodes(n))


def dotted(expr):
    """'a.b.c' for Name/Attribute chains, else None."""
    parts = []
    while isinstance(expr, ast.Attribute):
        parts.append(expr.attr)
        expr = expr.value
    if isinstance(expr, ast.Name):
        parts.append(expr.id)
        return ".".join(reversed(parts))
    return None


def call_name(call):
    if isinstance(call, ast.Call):
        return dotted(call.func)
    return None


def is_self_attr(node, selfname="self", attr=None):
    return (
        isinstance(node, ast.Attribute)
        and isinstance(node.value, ast.Name)
        and node.value.id == selfname
        and (attr is None or node.attr == attr)
    )


def stmts_of(fn):
    return fn.body


def contains(node, pred):
    return any(pred(n) for n in ast.walk(node))


def names_loaded(node):
    return {n.id for n in ast.walk(node) if isinstance(n, ast.Name) and isinstance(n.ctx, ast.Load)}


def statement_of(node):
    n = node
    while n is not None and not isinstance(n, ast.stmt):
        n = parent(n)
    return n


def ancestors(node):
    p = parent(node)
    while p is not None:
        yield p
        p = parent(p)


def in_field(child, anc, field):
    """Is `child` (a descendant of anc) located under anc.<field>?"""
    val = getattr(anc, field, None)
    seq = val if isinstance(val, list) else [val]
    n = child
    while n is not None and parent(n) is not anc:
        n = parent(n)
    return any(n is x for x in seq)
