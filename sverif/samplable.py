"""Facts about Samplable classes: dependency fields, reconstruction (G3), draw-once typing."""

import ast

from . import lib
from .model import AnalysisError, ancestors, dotted, norm_text, parent, unparse, walk_local

SAMPLABLE = "scenic.core.distributions.Samplable"


def own_or_inherited_init(model, ci):
    found = model.find_method(ci, "__init__")
    return found


def _super_init_calls(fn):
    out = []
    for c in ast.walk(fn):
        if isinstance(c, ast.Call) and isinstance(c.func, ast.Attribute) and c.func.attr == "__init__":
            v = c.func.value
            if isinstance(v, ast.Call) and dotted(v.func) == "super":
                out.append(c)
    return out


def init_calls(model, ci, owner, fn):
    """Calls in owner.__init__ (as used by instances of ci) that run a base initialiser:
    list of (parent ClassInfo, positional args, keywords)."""
    from .model import ClassInfo

    out = []
    mro = model.mro(ci)
    for c in ast.walk(fn):
        if not (isinstance(c, ast.Call) and isinstance(c.func, ast.Attribute) and c.func.attr == "__init__"):
            continue
        v = c.func.value
        if isinstance(v, ast.Call) and dotted(v.func) == "super":
            idx = mro.index(owner) if owner in mro else -1
            nxt = None
            for k in mro[idx + 1 :]:
                if "__init__" in k.methods:
                    nxt = k
                    break
            if nxt is not None:
                out.append((nxt, list(c.args), list(c.keywords)))
        else:
            r = model.resolve_expr(owner.module, v)
            if isinstance(r, ClassInfo) and c.args and isinstance(c.args[0], ast.Name) and c.args[0].id == "self":
                found = model.find_method(r, "__init__")
                if found:
                    out.append((found[0], list(c.args[1:]), list(c.keywords)))
    return out


def dep_params(model, ci, _seen=None, owner=None):
    """Parameters of the __init__ that instances of ci use, which flow into
    Samplable.__init__(dependencies).  Returns (owner class, set(param names), set(field names))."""
    _seen = _seen or set()
    if owner is None:
        found = model.find_method(ci, "__init__")
        if found is None:
            return None, set(), set()
        owner, fn = found
    else:
        fn = owner.methods["__init__"]
    if owner.fq == SAMPLABLE:
        return owner, {"dependencies"}, set()
    if owner.fq in _seen:
        return owner, set(), set()
    _seen = _seen | {owner.fq}
    params, fields = set(), set()
    myparams = {x.arg for x in fn.args.args[1:]} | {x.arg for x in fn.args.kwonlyargs}
    if fn.args.vararg:
        myparams.add(fn.args.vararg.arg)
    if fn.args.kwarg:
        myparams.add(fn.args.kwarg.arg)
    for parent_cls, args, keywords in init_calls(model, ci, owner, fn):
        if parent_cls.fq == SAMPLABLE:
            pdeps = {"dependencies"}
        else:
            _, pdeps, _ = dep_params(model, ci, _seen, owner=parent_cls)
        pfn = parent_cls.methods["__init__"]
        sig = lib.signature(pfn, bound=True)
        vararg = pfn.args.vararg.arg if pfn.args.vararg else None
        kwarg = pfn.args.kwarg.arg if pfn.args.kwarg else None
        pos = sig["pos"]
        i = 0
        for arg in args:
            e = arg.value if isinstance(arg, ast.Starred) else arg
            if isinstance(arg, ast.Starred):
                target_is_dep = any(p in pdeps for p in pos[i:]) or (vararg in pdeps)
                i = len(pos)
            elif i < len(pos):
                target_is_dep = pos[i] in pdeps
                i += 1
            else:
                target_is_dep = vararg in pdeps
            if target_is_dep:
                _collect(e, myparams, params, fields, fn)
        for k in keywords:
            if k.arg is None:
                if kwarg in pdeps:
                    _collect(k.value, myparams, params, fields, fn)
                continue
            if k.arg in pdeps:
                _collect(k.value, myparams, params, fields, fn)
    return owner, params, fields


def _expand_locals(fn, e, myparams, depth=0):
    return e


def _collect(e, myparams, params, fields, fn=None, depth=0):
    """Parameters / self fields from which `e` is built through identity-like wrappers only
    (converters to*/tuple/list, .values(), comprehensions over them, concatenation)."""
    if depth > 8:
        return
    if isinstance(e, ast.Starred):
        return _collect(e.value, myparams, params, fields, fn, depth + 1)
    if isinstance(e, ast.Name):
        if e.id in myparams:
            params.add(e.id)
        # a local re-binding of the same name keeps denoting the (converted) parameter
        if fn is not None:
            v = lib.local_value(fn, e.id)
            if v is not None:
                _collect(v, myparams, params, fields, fn, depth + 1)
        return
    if isinstance(e, ast.Attribute) and isinstance(e.value, ast.Name) and e.value.id == "self":
        fields.add(e.attr)
        return
    if isinstance(e, (ast.Tuple, ast.List)):
        for x in e.elts:
            _collect(x, myparams, params, fields, fn, depth + 1)
        return
    if isinstance(e, ast.BinOp) and isinstance(e.op, ast.Add):
        _collect(e.left, myparams, params, fields, fn, depth + 1)
        _collect(e.right, myparams, params, fields, fn, depth + 1)
        return
    if isinstance(e, (ast.GeneratorExp, ast.ListComp)):
        _collect(e.generators[0].iter, myparams, params, fields, fn, depth + 1)
        return
    if isinstance(e, ast.Call):
        cn = dotted(e.func) or ""
        last = cn.split(".")[-1]
        if isinstance(e.func, ast.Attribute) and e.func.attr in ("values", "keys", "items") and not e.args:
            return _collect(e.func.value, myparams, params, fields, fn, depth + 1)
        if (last.startswith("to") and last[2:3].isupper()) or last in ("tuple", "list", "dict"):
            if e.args:
                _collect(e.args[0], myparams, params, fields, fn, depth + 1)
        if last == "chain":
            for x in e.args:
                _collect(x, myparams, params, fields, fn, depth + 1)
        return


def _strip_conv(core):
    while True:
        if isinstance(core, ast.Call) and len(core.args) == 1 and not core.keywords:
            cn = (dotted(core.func) or "").split(".")[-1]
            if cn in ("tuple", "list", "dict") or (cn.startswith("to") and cn[2:3].isupper()):
                core = core.args[0]
                continue
        if isinstance(core, ast.IfExp):
            # `None if p is None else conv(p)` / `() if p is None else tuple(p)`
            trivial = lambda x: isinstance(x, ast.Constant) or (isinstance(x, (ast.Tuple, ast.List)) and not x.elts)
            if trivial(core.body):
                core = core.orelse
                continue
            if trivial(core.orelse):
                core = core.body
                continue
        return core


def strict_stores(model, ci, owner, depth=0):
    """{param -> set(fields)} where the field holds the parameter itself (possibly converted), following
    pass-through to base initialisers."""
    fn = owner.methods["__init__"]
    params = {x.arg for x in fn.args.args[1:]} | {x.arg for x in fn.args.kwonlyargs}
    if fn.args.vararg:
        params.add(fn.args.vararg.arg)
    if fn.args.kwarg:
        params.add(fn.args.kwarg.arg)
    out = {}
    # locals that rebind a converted parameter: args = tuple(toDistribution(a) for a in args)
    alias = {p: p for p in params}
    for n in walk_local(fn):
        if isinstance(n, ast.Assign) and len(n.targets) == 1 and isinstance(n.targets[0], ast.Name):
            ps, fs = set(), set()
            _collect(n.value, params, ps, fs, None)
            if len(ps) == 1 and not fs:
                alias.setdefault(n.targets[0].id, next(iter(ps)))
    for n in walk_local(fn):
        if isinstance(n, ast.Assign):
            pairs = []
            for t_ in n.targets:
                if isinstance(t_, ast.Tuple) and isinstance(n.value, ast.Tuple) and len(t_.elts) == len(n.value.elts):
                    pairs.extend(zip(t_.elts, n.value.elts))
                else:
                    pairs.append((t_, n.value))
            for t_, v in pairs:
                if isinstance(t_, ast.Attribute) and isinstance(t_.value, ast.Name) and t_.value.id == "self":
                    core = _strip_conv(v)
                    if isinstance(core, ast.Name) and core.id in alias:
                        out.setdefault(alias[core.id], set()).add(t_.attr)
    if depth < 6:
        for nxt, args, keywords in init_calls(model, ci, owner, fn):
            if nxt.fq == SAMPLABLE:
                continue
            pm = strict_stores(model, ci, nxt, depth + 1)
            pfn = nxt.methods["__init__"]
            sig = lib.signature(pfn, bound=True)
            pv = pfn.args.vararg.arg if pfn.args.vararg else None
            pk = pfn.args.kwarg.arg if pfn.args.kwarg else None
            i = 0
            for a in args:
                e = a.value if isinstance(a, ast.Starred) else a
                if isinstance(a, ast.Starred):
                    targets = [pv] if pv and i >= len(sig["pos"]) else []
                    i = len(sig["pos"])
                elif i < len(sig["pos"]):
                    targets = [sig["pos"][i]]
                    i += 1
                else:
                    targets = []
                core = _strip_conv(e)
                if isinstance(core, ast.Name) and core.id in alias:
                    for q_ in targets:
                        out.setdefault(alias[core.id], set()).update(pm.get(q_, set()))
            for k in keywords:
                core = _strip_conv(k.value)
                if isinstance(core, ast.Name) and core.id in alias:
                    if k.arg:
                        out.setdefault(alias[core.id], set()).update(pm.get(k.arg, set()))
                    elif pk:
                        out.setdefault(alias[core.id], set()).update(pm.get(pk, set()))
    return out


def dep_fields(model, ci):
    """Fields of instances of ci that hold (containers of) dependencies, as far as __init__ shows."""
    owner, params, fields = dep_params(model, ci)
    if owner is None:
        return set()
    out = set(fields)
    ss = strict_stores(model, ci, owner)
    for p in params:
        out |= ss.get(p, set())
    return out


# ----------------------------------------------------------------------
# draw-once typing inside sampleGiven

SAFE_CALLS = {"isinstance", "len", "needsSampling", "needsLazyEvaluation", "isLazy", "hasattr", "type", "id", "repr", "str", "bool"}
ITER_WRAPPERS = {"enumerate", "zip", "reversed", "tuple", "list", "iter", "sorted"}


def raw_uses(fn, depfields, valuename="value"):
    """Loads of a dependency (field or element of a dependency container) in fn that are not
    looked up through `value[...]`.  Returns list of (node, description)."""
    selfname = fn.args.args[0].arg
    tainted_vars = {}  # local var name -> origin description
    bad = []

    def is_dep_expr(e):
        """Does e denote an unsampled dependency or a container of them?"""
        if isinstance(e, ast.Attribute) and isinstance(e.value, ast.Name) and e.value.id == selfname and e.attr in depfields:
            return True
        if isinstance(e, ast.Name) and e.id in tainted_vars:
            return True
        if isinstance(e, ast.Subscript) and is_dep_expr(e.value) and not _is_value_lookup(e):
            return True
        if isinstance(e, ast.Call):
            cn = dotted(e.func)
            if cn in ITER_WRAPPERS and e.args and any(is_dep_expr(a) for a in e.args):
                return True
            if isinstance(e.func, ast.Attribute) and e.func.attr in ("items", "values", "keys") and is_dep_expr(e.func.value):
                return True
        if isinstance(e, ast.Attribute) and e.attr == "value" and is_dep_expr(e.value):
            # StarredDistribution.value: the dependency's own dependency
            return True
        return False

    def _is_value_lookup(e):
        return isinstance(e, ast.Subscript) and isinstance(e.value, ast.Name) and e.value.id == valuename

    def bind_targets(target, it):
        """Loop/comprehension target bound from iterating a dep container."""
        if isinstance(it, ast.Call) and isinstance(it.func, ast.Attribute) and it.func.attr == "items":
            if isinstance(target, ast.Tuple) and len(target.elts) == 2 and isinstance(target.elts[1], ast.Name):
                tainted_vars[target.elts[1].id] = unparse(it)
                # keys of Options-style dicts may be dependencies too
                return
        if isinstance(it, ast.Call) and dotted(it.func) == "enumerate":
            if isinstance(target, ast.Tuple) and len(target.elts) == 2 and isinstance(target.elts[1], ast.Name):
                tainted_vars[target.elts[1].id] = unparse(it)
                return
        if isinstance(it, ast.Call) and dotted(it.func) == "zip" and isinstance(target, ast.Tuple):
            for t, a in zip(target.elts, it.args):
                if isinstance(t, ast.Name) and is_dep_expr(a):
                    tainted_vars[t.id] = unparse(a)
            return
        for n in ast.walk(target):
            if isinstance(n, ast.Name):
                tainted_vars[n.id] = unparse(it)

    # pass 1: propagate taint through loops / comprehensions / simple assignments (fixpoint)
    for _ in range(4):
        for n in ast.walk(fn):
            if isinstance(n, (ast.For,)) and is_dep_expr(n.iter):
                bind_targets(n.target, n.iter)
            elif isinstance(n, ast.comprehension) and is_dep_expr(n.iter):
                bind_targets(n.target, n.iter)
            elif isinstance(n, ast.Assign) and len(n.targets) == 1 and isinstance(n.targets[0], ast.Name) and is_dep_expr(n.value):
                tainted_vars[n.targets[0].id] = unparse(n.value)

    # pass 2: every maximal dep expression must sit in an allowed context
    def allowed(e):
        p = parent(e)
        # index of value[...]
        if isinstance(p, ast.Subscript) and p.slice is e and isinstance(p.value, ast.Name) and p.value.id == valuename:
            return True
        # part of a larger dep expression (subscript / .items() / .value / wrapper)
        if isinstance(p, (ast.Subscript, ast.Attribute, ast.Call)) and is_dep_expr(p):
            return True
        if isinstance(p, ast.Attribute) and isinstance(parent(p), ast.Call) and is_dep_expr(parent(p)):
            return True
        if isinstance(p, ast.Call):
            cn = dotted(p.func)
            if cn in SAFE_CALLS:
                return True
        if isinstance(p, (ast.For, ast.comprehension)) and p.iter is e:
            return True
        if isinstance(p, ast.Assign) and p.value is e and len(p.targets) == 1 and isinstance(p.targets[0], ast.Name):
            return True
        if isinstance(p, ast.Compare) and all(isinstance(o, (ast.Is, ast.IsNot)) for o in p.ops):
            return True
        if isinstance(p, (ast.If, ast.While, ast.IfExp)) and p.test is e:
            return True  # emptiness test of a container
        if isinstance(p, ast.UnaryOp) and isinstance(p.op, ast.Not):
            return True
        if isinstance(p, ast.BoolOp) and isinstance(parent(p), (ast.If, ast.While, ast.IfExp)):
            return True
        if isinstance(p, (ast.FormattedValue, ast.JoinedStr)):
            return True  # error messages
        if isinstance(p, ast.Attribute) and p.attr in ("lineno", "__name__", "_valueType"):
            return True
        return False

    for n in ast.walk(fn):
        if isinstance(n, (ast.Attribute, ast.Name, ast.Subscript)) and isinstance(getattr(n, "ctx", None), ast.Load) and is_dep_expr(n):
            if isinstance(n, ast.Name) and isinstance(parent(n), ast.Attribute) and parent(n).value is n and n.id == selfname:
                continue
            if not allowed(n):
                bad.append((n, f"`{unparse(n)}` (a dependency that may be random) is used as `{norm_text(lib.statement_of(n), 90)}` without going through `{valuename}[...]`"))
    return bad, tainted_vars


FRESH_DRAW_ATTRS = {"sample", "sampleAll", "clone", "sampleGiven"}
FRESH_DRAW_NAMES = {"resample"}


def fresh_draws(fn):
    out = []
    for c in ast.walk(fn):
        if isinstance(c, ast.Call):
            if isinstance(c.func, ast.Attribute) and c.func.attr in FRESH_DRAW_ATTRS:
                # super().sampleGiven(value) is the inherited implementation on the same map
                if c.func.attr == "sampleGiven" and "super()" in unparse(c.func.value):
                    continue
                out.append(c)
            elif isinstance(c.func, ast.Name) and c.func.id in FRESH_DRAW_NAMES:
                out.append(c)
    return out


def derived_fields(model, ci, owner=None):
    """{param -> set(fields)}: fields of instances of ci whose stored value derives from that __init__ parameter,
    following locals (all their assignments, loop targets) and the base-initialiser chain."""
    if owner is None:
        found = model.find_method(ci, "__init__")
        if found is None:
            return {}, None
        owner, fn = found
    else:
        fn = owner.methods["__init__"]
    params = [a.arg for a in fn.args.args[1:]] + [a.arg for a in fn.args.kwonlyargs]
    if fn.args.vararg:
        params.append(fn.args.vararg.arg)
    if fn.args.kwarg:
        params.append(fn.args.kwarg.arg)
    # local closure: local -> set of params it derives from
    der = {p: {p} for p in params}
    changed = True
    while changed:
        changed = False

        def src(e):
            out = set()
            for n in ast.walk(e):
                if isinstance(n, ast.Name) and n.id in der:
                    out |= der[n.id]
            return out

        for n in walk_local(fn):
            pairs = []
            if isinstance(n, ast.Assign):
                for t in n.targets:
                    if isinstance(t, ast.Tuple) and isinstance(n.value, ast.Tuple) and len(t.elts) == len(n.value.elts):
                        pairs.extend(zip(t.elts, n.value.elts))
                    else:
                        pairs.append((t, n.value))
            elif isinstance(n, (ast.For, ast.comprehension)):
                pairs.append((n.target, n.iter))
            elif isinstance(n, ast.Call) and isinstance(n.func, ast.Attribute) and n.func.attr in ("append", "extend", "add", "update") and isinstance(n.func.value, ast.Name):
                for a in n.args:
                    pairs.append((n.func.value, a))
            for t, v in pairs:
                s = src(v)
                for tn in ast.walk(t):
                    if isinstance(tn, ast.Name) and tn.id not in params:
                        if not s <= der.get(tn.id, set()):
                            der.setdefault(tn.id, set()).update(s)
                            changed = True
    out = {p: set() for p in params}

    def src(e):
        o = set()
        for n in ast.walk(e):
            if isinstance(n, ast.Name) and n.id in der:
                o |= der[n.id]
        return o

    for n in walk_local(fn):
        if isinstance(n, ast.Assign):
            pairs = []
            for t in n.targets:
                if isinstance(t, ast.Tuple) and isinstance(n.value, ast.Tuple) and len(t.elts) == len(n.value.elts):
                    pairs.extend(zip(t.elts, n.value.elts))
                else:
                    pairs.append((t, n.value))
            for t, v in pairs:
                if isinstance(t, ast.Attribute) and isinstance(t.value, ast.Name) and t.value.id == "self":
                    for p in src(v):
                        out[p].add(t.attr)
    # base-initialiser chain
    for nxt, args, keywords in init_calls(model, ci, owner, fn):
        if nxt.fq == SAMPLABLE:
            continue
        pmap, _ = derived_fields(model, ci, owner=nxt)
        pfn = nxt.methods["__init__"]
        sig = lib.signature(pfn, bound=True)
        pv = pfn.args.vararg.arg if pfn.args.vararg else None
        pk = pfn.args.kwarg.arg if pfn.args.kwarg else None
        i = 0
        for a in args:
            if isinstance(a, ast.Starred):
                targets = sig["pos"][i:] + ([pv] if pv else [])
                i = len(sig["pos"])
                e = a.value
            elif i < len(sig["pos"]):
                targets = [sig["pos"][i]]
                i += 1
                e = a
            else:
                targets = [pv] if pv else []
                e = a
            for p in src(e):
                for q in targets:
                    out[p] |= pmap.get(q, set())
        for k in keywords:
            if k.arg:
                for p in src(k.value):
                    out[p] |= pmap.get(k.arg, set())
            elif pk or True:
                # **kwargs pass-through: may reach any keyword-capable parameter
                for p in src(k.value):
                    for q, fs in pmap.items():
                        out[p] |= fs
    return out, fn




# ----------------------------------------------------------------------
# G3: reconstruction consistency (evaluateInner / sampleGiven / clone rebuilds)


def local_env(fn):
    """{local name: expr} for names assigned exactly once in fn (tuple-unpacking of tuples included)."""
    seen, env = {}, {}
    for n in walk_local(fn):
        if isinstance(n, ast.Assign):
            for t in n.targets:
                if isinstance(t, ast.Tuple) and isinstance(n.value, ast.Tuple) and len(t.elts) == len(n.value.elts):
                    prs = list(zip(t.elts, n.value.elts))
                else:
                    prs = [(t, n.value)]
                for a, b in prs:
                    if isinstance(a, ast.Name):
                        seen[a.id] = seen.get(a.id, 0) + 1
                        env[a.id] = b
                    else:
                        for x in ast.walk(a):
                            if isinstance(x, ast.Name) and isinstance(x.ctx, ast.Store):
                                seen[x.id] = seen.get(x.id, 0) + 2
        elif isinstance(n, (ast.AugAssign, ast.For, ast.comprehension, ast.NamedExpr, ast.With)):
            tgt = getattr(n, "target", None)
            if tgt is not None and not isinstance(n, ast.comprehension):
                for x in ast.walk(tgt):
                    if isinstance(x, ast.Name):
                        seen[x.id] = seen.get(x.id, 0) + 2
    return {k: v for k, v in env.items() if seen.get(k) == 1}


def resolve_expr(e, env, depth=0):
    """Substitute single-assignment locals (returns list of expressions: e and what it stands for)."""
    if depth > 5:
        return e
    if isinstance(e, ast.Name) and e.id in env:
        return resolve_expr(env[e.id], env, depth + 1)
    return e


def rebuilt_classes(model, ci, fn, call):
    """Classes that `call` may construct inside method fn of ci, or None if not a constructor call."""
    f = call.func
    txt = unparse(f)
    if txt in ("type(self)", "self.__class__"):
        return [ci]
    if isinstance(f, ast.Name):
        r = model.resolve_name(ci.module, f.id)
        from .model import ClassInfo

        if isinstance(r, ClassInfo):
            return [r]
        # local alias bound to class names in every assignment (cls = MeshVolumeRegion / cls = MeshSurfaceRegion)
        vals = []
        for n in walk_local(fn):
            if isinstance(n, ast.Assign) and any(isinstance(t, ast.Name) and t.id == f.id for t in n.targets):
                vals.append(n.value)
        out = []
        for v in vals:
            if isinstance(v, ast.Name):
                r = model.resolve_name(ci.module, v.id)
                if isinstance(r, ClassInfo):
                    out.append(r)
                    continue
            if unparse(v) in ("type(self)", "self.__class__"):
                out.append(ci)
                continue
            return None
        return out or None
    return None


def self_fields(e, selfname="self"):
    return [n for n in ast.walk(e) if isinstance(n, ast.Attribute) and isinstance(n.value, ast.Name) and n.value.id == selfname and isinstance(n.ctx, ast.Load)]


def check_rebuild(ctx, rule, ci, fn, mode):
    """mode: 'evaluateInner' (dependency fields must pass through valueInContext(.., context)),
    'sampleGiven' (through value[..]) or 'clone' (raw).  Returns number of constructor calls checked."""
    model = ctx.model
    env = local_env(fn)
    n_calls = 0
    for r in lib.returns_of(fn):
        if r.value is None:
            continue
        calls = [r.value] if isinstance(r.value, ast.Call) else []
        for call in calls:
            targets = rebuilt_classes(model, ci, fn, call)
            if not targets:
                continue
            for tc in targets:
                found = model.find_method(tc, "__init__")
                if found is None:
                    continue
                owner_b, init = found
                # pure pass-through initialisers (*args, **kwargs forwarded to the base): bind against the base
                hops = 0
                supplied = set()
                while init.args.vararg and init.args.kwarg and hops < 4:
                    ics = init_calls(model, tc, owner_b, init)
                    fwd = [
                        ic
                        for ic in ics
                        if any(isinstance(a, ast.Starred) and isinstance(a.value, ast.Name) and a.value.id == init.args.vararg.arg for a in ic[1])
                        and any(k.arg is None and isinstance(k.value, ast.Name) and k.value.id == init.args.kwarg.arg for k in ic[2])
                    ]
                    if len(fwd) != 1 or fwd[0][0].fq == SAMPLABLE:
                        break
                    supplied |= {k.arg for k in fwd[0][2] if k.arg}
                    owner_b = fwd[0][0]
                    init = owner_b.methods["__init__"]
                    hops += 1
                n_calls += 1
                err = lib.bind_error(call, init, bound=True, supplied=supplied)
                if err:
                    ctx.finding(
                        rule,
                        call,
                        f"{ci.name}.{fn.name} -> {tc.name}(...) binding",
                        f"{ci.name}.{fn.name} rebuilds `{tc.name}` with `{norm_text(call, 100)}` which cannot bind to {tc.name}.__init__: {err}",
                    )
                    continue
                dmap, _ = derived_fields(model, tc, owner=owner_b)
                deps = dep_fields(model, tc)
                sig = lib.signature(init, bound=True)
                passthru = {init.args.vararg.arg if init.args.vararg else None, init.args.kwarg.arg if init.args.kwarg else None}
                pairs = []
                pos = sig["pos"]
                i = 0
                for a in call.args:
                    if isinstance(a, ast.Starred):
                        tgt = (pos[i:] + ([init.args.vararg.arg] if init.args.vararg else []))
                        pairs.append((tgt, a.value))
                        i = len(pos)
                    elif i < len(pos):
                        pairs.append(([pos[i]], a))
                        i += 1
                    elif init.args.vararg:
                        pairs.append(([init.args.vararg.arg], a))
                for k in call.keywords:
                    if k.arg:
                        pairs.append(([k.arg], k.value))
                good = True
                # configuration that the constructor stores but the reconstruction does not pass falls back to its default
                passed = set(supplied)
                for params, _a in pairs:
                    passed |= set(params)
                star_kw = any(k.arg is None for k in call.keywords)
                if not star_kw:
                    defaults_from = len(init.args.args) - len(init.args.defaults)
                    with_default = [(prm.arg, init.args.defaults[idx_ - defaults_from]) for idx_, prm in enumerate(init.args.args[1:], start=1) if idx_ >= defaults_from]
                    with_default += [(prm.arg, d_) for prm, d_ in zip(init.args.kwonlyargs, init.args.kw_defaults) if d_ is not None]
                    for pn, dflt in with_default:
                        if pn in passed or pn in passthru:
                            continue
                        stored = {f for f in dmap.get(pn, set()) if not f.startswith("__")}
                        if not stored:
                            continue
                        # only configuration that decides the VALUE the object samples to (fields its sampleGiven reads);
                        # hints such as a value type or a support bound may legitimately be dropped
                        sg = model.find_method(tc, "sampleGiven")
                        read = {a.attr for a in ast.walk(sg[1]) if isinstance(a, ast.Attribute) and isinstance(a.value, ast.Name) and a.value.id == "self"} if sg else set()
                        if not (stored & read):
                            continue
                        good = False
                        ctx.finding(
                            rule,
                            call,
                            f"{ci.name}.{fn.name} omits {pn} of {tc.name}",
                            f"{ci.name}.{fn.name} rebuilds `{tc.name}` with `{norm_text(call, 90)}` but does not pass `{pn}`, which the constructor keeps in {sorted('self.' + f for f in stored)}: "
                            f"the rebuilt object silently falls back to the default `{unparse(dflt)}` (e.g. a list literal comes back as a tuple)",
                        )
                for params, a in pairs:
                    ra = resolve_expr(a, env)
                    allowed = set()
                    for p in params:
                        allowed |= dmap.get(p, set()) | {p}
                    skip_corr = any(p in passthru or p not in dmap for p in params)
                    for sf in self_fields(ra):
                        if sf.attr.startswith("__"):
                            continue
                        if any(isinstance(x, ast.IfExp) and any(y is sf for y in ast.walk(x.test)) for x in ancestors(sf)):
                            continue
                        if sf.attr not in allowed and not skip_corr:
                            # fields merely consulted inside conditions (x if self.flag else y) are not the value passed
                            good = False
                            ctx.finding(
                                rule,
                                call,
                                f"{ci.name}.{fn.name} arg {'/'.join(params)} <- self.{sf.attr}",
                                f"{ci.name}.{fn.name} passes `{norm_text(ra, 80)}` for parameter `{'/'.join(params)}` of {tc.name}, "
                                f"but the constructor stores that parameter in {sorted(allowed)}: the rebuilt object differs from the original",
                            )
                        elif sf.attr in deps and mode in ("evaluateInner", "sampleGiven"):
                            wrapped = False
                            for anc in ancestors(sf):
                                if mode == "evaluateInner" and isinstance(anc, ast.Call) and dotted(anc.func) == "valueInContext":
                                    wrapped = True
                                if mode == "sampleGiven" and isinstance(anc, ast.Subscript) and isinstance(anc.value, ast.Name) and anc.value.id == fn.args.args[1].arg:
                                    wrapped = True
                                if isinstance(anc, (ast.comprehension, ast.For)) and anc.iter is not None and any(x is sf for x in ast.walk(anc.iter)):
                                    # iterated: the element must be wrapped where it is used
                                    comp = parent(anc) if isinstance(anc, ast.comprehension) else anc
                                    t = unparse(comp)
                                    if (mode == "evaluateInner" and "valueInContext(" in t) or (mode == "sampleGiven" and f"{fn.args.args[1].arg}[" in t):
                                        wrapped = True
                                if anc is ra or anc is r:
                                    break
                            if not wrapped:
                                good = False
                                what = "valueInContext(..., context)" if mode == "evaluateInner" else "value[...]"
                                ctx.finding(
                                    rule,
                                    call,
                                    f"{ci.name}.{fn.name} raw dependency self.{sf.attr}",
                                    f"{ci.name}.{fn.name} passes dependency field `self.{sf.attr}` to {tc.name}(...) without {what}",
                                )
                if good:
                    ctx.ok(rule, call, f"{ci.name}.{fn.name} rebuilds {tc.name} with arguments bound to their own constructor parameters")
    return n_calls
