"""Facts about Samplable classes: dependency fields, reconstruction (G3), draw-once typing."""

import ast

from . import lib
from .model import AnalysisError, ancestors, dotted, norm_text, parent, unparse, walk_local

SAMPLABLE = "scenic.core.distributions.Samplable"


def own_or_inherited_init(model, ci):
    found = model.find_method(ci, "__init__")
    return found


def _super_init_calls(fn):
    out = []
    for c in ast.walk(fn):
        if isinstance(c, ast.Call) and isinstance(c.func, ast.Attribute) and c.func.attr == "__init__":
            v = c.func.value
            if isinstance(v, ast.Call) and dotted(v.func) == "super":
                out.append(c)
    return out


def dep_params(model, ci, _seen=None):
    """Parameters of the __init__ that instances of ci use, which flow into
    Samplable.__init__(dependencies).  Returns (owner class, set(param names), set(field names))."""
    _seen = _seen or set()
    found = model.find_method(ci, "__init__")
    if found is None:
        return None, set(), set()
    owner, fn = found
    if owner.fq == SAMPLABLE:
        return owner, {"dependencies"}, set()
    if owner.fq in _seen:
        return owner, set(), set()
    _seen.add(owner.fq)
    # next class after owner in ci's MRO having __init__
    mro = model.mro(ci)
    idx = mro.index(owner)
    parent_cls = None
    for c in mro[idx + 1 :]:
        if "__init__" in c.methods:
            parent_cls = c
            break
    if parent_cls is None:
        return owner, set(), set()
    if parent_cls.fq == SAMPLABLE:
        pdeps = {"dependencies"}
        pfn = parent_cls.methods["__init__"]
    else:
        # dep params of the parent's init, computed on a pseudo-class view
        _, pdeps, _ = dep_params(model, parent_cls, _seen)
        pfn = parent_cls.methods["__init__"]
    params, fields = set(), set()
    sig = lib.signature(pfn, bound=True)
    a = pfn.args
    vararg = a.vararg.arg if a.vararg else None
    myparams = {x.arg for x in fn.args.args[1:]} | {x.arg for x in fn.args.kwonlyargs}
    if fn.args.vararg:
        myparams.add(fn.args.vararg.arg)
    if fn.args.kwarg:
        myparams.add(fn.args.kwarg.arg)
    for call in _super_init_calls(fn):
        pos = sig["pos"]
        i = 0
        for arg in call.args:
            e = arg.value if isinstance(arg, ast.Starred) else arg
            if isinstance(arg, ast.Starred):
                # a starred arg spreads over the remaining positionals and the vararg
                target_is_dep = any(p in pdeps for p in pos[i:]) or (vararg in pdeps)
                i = len(pos)
            elif i < len(pos):
                target_is_dep = pos[i] in pdeps
                i += 1
            else:
                target_is_dep = vararg in pdeps
            if target_is_dep:
                _collect(e, myparams, params, fields, fn)
        for k in call.keywords:
            if k.arg is None:
                continue
            if k.arg in pdeps:
                _collect(k.value, myparams, params, fields, fn)
    # locals assigned from params (e.g. args = tuple(toDistribution(a) for a in args)) keep their name
    return owner, params, fields


def _expand_locals(fn, e, myparams, depth=0):
    return e


def _collect(e, myparams, params, fields, fn=None, depth=0):
    """Parameters / self fields from which `e` is built through identity-like wrappers only
    (converters to*/tuple/list, .values(), comprehensions over them, concatenation)."""
    if depth > 8:
        return
    if isinstance(e, ast.Starred):
        return _collect(e.value, myparams, params, fields, fn, depth + 1)
    if isinstance(e, ast.Name):
        if e.id in myparams:
            params.add(e.id)
        # a local re-binding of the same name keeps denoting the (converted) parameter
        if fn is not None:
            v = lib.local_value(fn, e.id)
            if v is not None:
                _collect(v, myparams, params, fields, fn, depth + 1)
        return
    if isinstance(e, ast.Attribute) and isinstance(e.value, ast.Name) and e.value.id == "self":
        fields.add(e.attr)
        return
    if isinstance(e, (ast.Tuple, ast.List)):
        for x in e.elts:
            _collect(x, myparams, params, fields, fn, depth + 1)
        return
    if isinstance(e, ast.BinOp) and isinstance(e.op, ast.Add):
        _collect(e.left, myparams, params, fields, fn, depth + 1)
        _collect(e.right, myparams, params, fields, fn, depth + 1)
        return
    if isinstance(e, (ast.GeneratorExp, ast.ListComp)):
        _collect(e.generators[0].iter, myparams, params, fields, fn, depth + 1)
        return
    if isinstance(e, ast.Call):
        cn = dotted(e.func) or ""
        last = cn.split(".")[-1]
        if isinstance(e.func, ast.Attribute) and e.func.attr in ("values", "keys", "items") and not e.args:
            return _collect(e.func.value, myparams, params, fields, fn, depth + 1)
        if (last.startswith("to") and last[2:3].isupper()) or last in ("tuple", "list", "dict"):
            if e.args:
                _collect(e.args[0], myparams, params, fields, fn, depth + 1)
        return


def dep_fields(model, ci):
    """Fields of instances of ci that hold (containers of) dependencies, as far as __init__ shows."""
    owner, params, fields = dep_params(model, ci)
    if owner is None:
        return set()
    fn = owner.methods["__init__"]
    out = set(fields)
    # self.f = <expr mentioning dep param>  (direct stores only: Name, tuple(Name), toX(Name))
    for n in walk_local(fn):
        if isinstance(n, ast.Assign):
            pairs = []
            for t in n.targets:
                if isinstance(t, ast.Tuple) and isinstance(n.value, ast.Tuple) and len(t.elts) == len(n.value.elts):
                    pairs.extend(zip(t.elts, n.value.elts))
                else:
                    pairs.append((t, n.value))
            for t, v in pairs:
                if isinstance(t, ast.Attribute) and isinstance(t.value, ast.Name) and t.value.id == "self":
                    core = v
                    while isinstance(core, ast.Call) and len(core.args) == 1 and not core.keywords and dotted(core.func) in ("tuple", "list", "dict"):
                        core = core.args[0]
                    if isinstance(core, ast.Name) and core.id in params:
                        out.add(t.attr)
    return out


# ----------------------------------------------------------------------
# draw-once typing inside sampleGiven

SAFE_CALLS = {"isinstance", "len", "needsSampling", "needsLazyEvaluation", "isLazy", "hasattr", "type", "id", "repr", "str", "bool"}
ITER_WRAPPERS = {"enumerate", "zip", "reversed", "tuple", "list", "iter", "sorted"}


def raw_uses(fn, depfields, valuename="value"):
    """Loads of a dependency (field or element of a dependency container) in fn that are not
    looked up through `value[...]`.  Returns list of (node, description)."""
    selfname = fn.args.args[0].arg
    tainted_vars = {}  # local var name -> origin description
    bad = []

    def is_dep_expr(e):
        """Does e denote an unsampled dependency or a container of them?"""
        if isinstance(e, ast.Attribute) and isinstance(e.value, ast.Name) and e.value.id == selfname and e.attr in depfields:
            return True
        if isinstance(e, ast.Name) and e.id in tainted_vars:
            return True
        if isinstance(e, ast.Subscript) and is_dep_expr(e.value) and not _is_value_lookup(e):
            return True
        if isinstance(e, ast.Call):
            cn = dotted(e.func)
            if cn in ITER_WRAPPERS and e.args and any(is_dep_expr(a) for a in e.args):
                return True
            if isinstance(e.func, ast.Attribute) and e.func.attr in ("items", "values", "keys") and is_dep_expr(e.func.value):
                return True
        if isinstance(e, ast.Attribute) and e.attr == "value" and is_dep_expr(e.value):
            # StarredDistribution.value: the dependency's own dependency
            return True
        return False

    def _is_value_lookup(e):
        return isinstance(e, ast.Subscript) and isinstance(e.value, ast.Name) and e.value.id == valuename

    def bind_targets(target, it):
        """Loop/comprehension target bound from iterating a dep container."""
        if isinstance(it, ast.Call) and isinstance(it.func, ast.Attribute) and it.func.attr == "items":
            if isinstance(target, ast.Tuple) and len(target.elts) == 2 and isinstance(target.elts[1], ast.Name):
                tainted_vars[target.elts[1].id] = unparse(it)
                # keys of Options-style dicts may be dependencies too
                return
        if isinstance(it, ast.Call) and dotted(it.func) == "enumerate":
            if isinstance(target, ast.Tuple) and len(target.elts) == 2 and isinstance(target.elts[1], ast.Name):
                tainted_vars[target.elts[1].id] = unparse(it)
                return
        if isinstance(it, ast.Call) and dotted(it.func) == "zip" and isinstance(target, ast.Tuple):
            for t, a in zip(target.elts, it.args):
                if isinstance(t, ast.Name) and is_dep_expr(a):
                    tainted_vars[t.id] = unparse(a)
            return
        for n in ast.walk(target):
            if isinstance(n, ast.Name):
                tainted_vars[n.id] = unparse(it)

    # pass 1: propagate taint through loops / comprehensions / simple assignments (fixpoint)
    for _ in range(4):
        for n in ast.walk(fn):
            if isinstance(n, (ast.For,)) and is_dep_expr(n.iter):
                bind_targets(n.target, n.iter)
            elif isinstance(n, ast.comprehension) and is_dep_expr(n.iter):
                bind_targets(n.target, n.iter)
            elif isinstance(n, ast.Assign) and len(n.targets) == 1 and isinstance(n.targets[0], ast.Name) and is_dep_expr(n.value):
                tainted_vars[n.targets[0].id] = unparse(n.value)

    # pass 2: every maximal dep expression must sit in an allowed context
    def allowed(e):
        p = parent(e)
        # index of value[...]
        if isinstance(p, ast.Subscript) and p.slice is e and isinstance(p.value, ast.Name) and p.value.id == valuename:
            return True
        # part of a larger dep expression (subscript / .items() / .value / wrapper)
        if isinstance(p, (ast.Subscript, ast.Attribute, ast.Call)) and is_dep_expr(p):
            return True
        if isinstance(p, ast.Attribute) and isinstance(parent(p), ast.Call) and is_dep_expr(parent(p)):
            return True
        if isinstance(p, ast.Call):
            cn = dotted(p.func)
            if cn in SAFE_CALLS:
                return True
        if isinstance(p, (ast.For, ast.comprehension)) and p.iter is e:
            return True
        if isinstance(p, ast.Assign) and p.value is e and len(p.targets) == 1 and isinstance(p.targets[0], ast.Name):
            return True
        if isinstance(p, ast.Compare) and all(isinstance(o, (ast.Is, ast.IsNot)) for o in p.ops):
            return True
        if isinstance(p, (ast.If, ast.While, ast.IfExp)) and p.test is e:
            return True  # emptiness test of a container
        if isinstance(p, ast.UnaryOp) and isinstance(p.op, ast.Not):
            return True
        if isinstance(p, ast.BoolOp) and isinstance(parent(p), (ast.If, ast.While, ast.IfExp)):
            return True
        if isinstance(p, (ast.FormattedValue, ast.JoinedStr)):
            return True  # error messages
        if isinstance(p, ast.Attribute) and p.attr in ("lineno", "__name__", "_valueType"):
            return True
        return False

    for n in ast.walk(fn):
        if isinstance(n, (ast.Attribute, ast.Name, ast.Subscript)) and isinstance(getattr(n, "ctx", None), ast.Load) and is_dep_expr(n):
            if isinstance(n, ast.Name) and isinstance(parent(n), ast.Attribute) and parent(n).value is n and n.id == selfname:
                continue
            if not allowed(n):
                bad.append((n, f"`{unparse(n)}` (a dependency that may be random) is used as `{norm_text(lib.statement_of(n), 90)}` without going through `{valuename}[...]`"))
    return bad, tainted_vars


FRESH_DRAW_ATTRS = {"sample", "sampleAll", "clone", "sampleGiven"}
FRESH_DRAW_NAMES = {"resample"}


def fresh_draws(fn):
    out = []
    for c in ast.walk(fn):
        if isinstance(c, ast.Call):
            if isinstance(c.func, ast.Attribute) and c.func.attr in FRESH_DRAW_ATTRS:
                # super().sampleGiven(value) is the inherited implementation on the same map
                if c.func.attr == "sampleGiven" and "super()" in unparse(c.func.value):
                    continue
                out.append(c)
            elif isinstance(c.func, ast.Name) and c.func.id in FRESH_DRAW_NAMES:
                out.append(c)
    return out
