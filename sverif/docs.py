"""DocsIR: a small reader for the regular parts of the reference manual (RST)."""

import re

from .model import AnalysisError


def sections(text, underline="-"):
    """[(title, first line no, body lines)] for headings underlined with `underline` chars."""
    lines = text.splitlines()
    heads = []
    for i in range(1, len(lines)):
        l = lines[i]
        if l and set(l) == {underline} and len(l) >= 3 and lines[i - 1].strip() and not set(lines[i - 1]) <= set("-=*~^\"'"):
            heads.append((i - 1, lines[i - 1].strip()))
    out = []
    stoppers = [i for i, l in enumerate(lines) if l and len(l) >= 3 and len(set(l)) == 1 and l[0] in "=*~^" and i > 0 and lines[i - 1].strip()]
    for k, (ln, title) in enumerate(heads):
        end = heads[k + 1][0] if k + 1 < len(heads) else len(lines)
        for s in stoppers:
            if ln + 1 < s - 1 < end:
                end = s - 1
        out.append((title, ln + 1, lines[ln + 2 : end]))
    return out


PROP = re.compile(r":prop:`([A-Za-z_]+)`")


def specifier_entries(model):
    """Parse docs/reference/specifiers.rst into
    [{heading, line, specifies: {prop: {priority, conditional, modifies}}, given_property: bool, deps: set}]"""
    rel = "docs/reference/specifiers.rst"
    if not model.exists(rel):
        raise AnalysisError(f"{rel} missing")
    text = model.read(rel)
    entries = []
    for title, line, body in sections(text, "-"):
        joined = "\n".join(body)
        if "**Specifies**" not in joined:
            continue
        spec, deps, given = {}, None, False
        mode = None
        for l in body:
            s = l.strip()
            if s.startswith("**Specifies**"):
                mode = "spec"
                continue
            if s.startswith("**Dependencies**"):
                mode = None
                rest = s.split(":", 1)[1] if ":" in s else ""
                deps = set(PROP.findall(rest))
                if not deps and "None" not in rest:
                    raise AnalysisError(f"{rel}:{line} cannot read the Dependencies line of '{title}'")
                continue
            if mode == "spec" and s.startswith("*"):
                m = re.search(r"with priority (\d+)", s)
                props = PROP.findall(s.split("with priority")[0]) if m else []
                if m and props:
                    spec[props[0]] = {
                        "priority": int(m.group(1)),
                        "conditional": "(if " in s,
                        "modifies": "**modifies**" in s,
                    }
                elif m and "given property" in s:
                    given = int(m.group(1))
                elif "requirement" in s:
                    pass
                else:
                    raise AnalysisError(f"{rel}:{line} cannot read Specifies bullet '{s}' of '{title}'")
            elif mode == "spec" and s and not s.startswith("*"):
                mode = None
        if deps is None:
            raise AnalysisError(f"{rel}:{line} entry '{title}' has no Dependencies line")
        entries.append({"heading": title, "line": line, "specifies": spec, "given": given, "deps": deps})
    return entries


def numbered_list_after(text, marker):
    """Items of the first enumerated list (`#.` or `1.`) after the line containing marker."""
    lines = text.splitlines()
    start = next((i for i, l in enumerate(lines) if marker in l), None)
    if start is None:
        return None
    items, cur = [], None
    for l in lines[start + 1 :]:
        m = re.match(r"^(\s*)(#\.|\d+\.)\s+(.*)", l)
        if m and len(m.group(1)) <= 4:
            if cur is not None:
                items.append(cur)
            cur = m.group(3)
        elif cur is not None:
            if l.strip() == "" or l.startswith("   ") or l.startswith("\t"):
                cur += " " + l.strip()
            else:
                break
    if cur is not None:
        items.append(cur)
    return items
