"""LinForm: normalise affine arithmetic ASTs to {symbol text: Fraction coefficient} (+ '' for the constant)."""

import ast
from fractions import Fraction

from .model import unparse


class NotLinear(Exception):
    pass


def lin(e, env=None, depth=0):
    """env: {name: ast expr} substitutions for local names (followed to depth 6)."""
    env = env or {}
    if isinstance(e, ast.Constant) and isinstance(e.value, (int, float)) and not isinstance(e.value, bool):
        return {"": Fraction(e.value).limit_denominator(10**9)}
    if isinstance(e, ast.Name) and e.id in env and depth < 6:
        return lin(env[e.id], env, depth + 1)
    if isinstance(e, ast.UnaryOp) and isinstance(e.op, ast.USub):
        return scale(lin(e.operand, env, depth), Fraction(-1))
    if isinstance(e, ast.UnaryOp) and isinstance(e.op, ast.UAdd):
        return lin(e.operand, env, depth)
    if isinstance(e, ast.BinOp):
        if isinstance(e.op, ast.Add):
            return add(lin(e.left, env, depth), lin(e.right, env, depth))
        if isinstance(e.op, ast.Sub):
            return add(lin(e.left, env, depth), scale(lin(e.right, env, depth), Fraction(-1)))
        if isinstance(e.op, ast.Mult):
            l, r = lin(e.left, env, depth), lin(e.right, env, depth)
            if is_const(l):
                return scale(r, l.get("", Fraction(0)))
            if is_const(r):
                return scale(l, r.get("", Fraction(0)))
            return {product_symbol(l, r): Fraction(1)}
        if isinstance(e.op, ast.Div):
            l, r = lin(e.left, env, depth), lin(e.right, env, depth)
            if is_const(r) and r.get("", 0) != 0:
                return scale(l, 1 / r[""])
            return {f"({fmt(l)})/({fmt(r)})": Fraction(1)}
    return {unparse(e): Fraction(1)}


def is_const(f):
    return all(k == "" for k in f)


def product_symbol(l, r):
    a, b = sorted([fmt(l), fmt(r)])
    return f"({a})*({b})"


def scale(f, c):
    return clean({k: v * c for k, v in f.items()})


def add(a, b):
    out = dict(a)
    for k, v in b.items():
        out[k] = out.get(k, Fraction(0)) + v
    return clean(out)


def clean(f):
    return {k: v for k, v in f.items() if v != 0}


def fmt(f):
    if not f:
        return "0"
    parts = []
    for k in sorted(f):
        v = f[k]
        c = str(v) if v.denominator == 1 else f"{v.numerator}/{v.denominator}"
        parts.append(c if k == "" else (k if v == 1 else f"{c}*{k}"))
    return " + ".join(parts)


def equal(a, b):
    return clean(a) == clean(b)


def lin_src(text, env=None):
    return lin(ast.parse(text, mode="eval").body, env)
