"""Extract the (priorities, dependencies, modifying) table of the built-in specifier functions
by path-enumerating their bodies over a small statement language."""

import ast
import copy

from . import lib
from .model import AnalysisError, dotted, unparse

VENEER = "scenic.syntax.veneer"
SPEC_CTORS = {"Specifier", "ModifyingSpecifier"}


class Variant:
    def __init__(self, func, conds, name, priorities, deps, extra_deps, modifying, modifiable, helper, node, dict_value):
        self.func = func
        self.conds = conds  # [(text, polarity)]
        self.name = name
        self.priorities = priorities  # {prop or '$param': (priority, conditional)}
        self.deps = deps  # set of str (may contain '$param')
        self.extra_deps = extra_deps  # True if deps include a dynamic part (| requiredProperties(...))
        self.modifying = modifying
        self.modifiable = modifiable
        self.helper = helper  # ast function/lambda computing the value from the context, or None
        self.node = node
        self.dict_value = dict_value  # value given as a plain dict (no DelayedArgument)

    def cond_true(self, text):
        return any(t == text and p for t, p in self.conds)

    def cond_false(self, text):
        return any(t == text and not p for t, p in self.conds)


class _Path:
    def __init__(self):
        self.vars = {}  # name -> ast expr | dict | set
        self.conds = []
        self.cond_keys = {}  # dict var -> set of keys added under a condition

    def fork(self):
        p = _Path()
        p.vars = {k: (copy.copy(v) if isinstance(v, (dict, set)) else v) for k, v in self.vars.items()}
        p.conds = list(self.conds)
        p.cond_keys = {k: set(v) for k, v in self.cond_keys.items()}
        return p


def _lit(e, path):
    """dict/set literal -> python dict/set with AST values; else the expr."""
    if isinstance(e, ast.Dict):
        d = {}
        for k, v in zip(e.keys, e.values):
            if isinstance(k, ast.Constant):
                d[k.value] = v
            elif isinstance(k, ast.Name):
                d["$" + k.id] = v
            else:
                return e
        return d
    if isinstance(e, ast.Set):
        s = set()
        for x in e.elts:
            if isinstance(x, ast.Constant):
                s.add(x.value)
            elif isinstance(x, ast.Name):
                s.add("$" + x.id)
            else:
                return e
        return s
    return e


def enumerate_paths(fn, limit=400):
    """Yield (path, return expr) for each path through fn's top-level control flow."""
    results = []

    def run(stmts, path, depth, in_cond):
        """returns list of paths that fall through"""
        alive = [path]
        for s in stmts:
            nxt = []
            for p in alive:
                if len(results) > limit:
                    raise AnalysisError(f"too many paths in {fn.name}")
                if isinstance(s, ast.Return):
                    results.append((p, s.value, s))
                    continue
                if isinstance(s, ast.Raise):
                    continue
                if isinstance(s, ast.If):
                    t = unparse(s.test)
                    a = p.fork()
                    a.conds.append((t, True))
                    b = p.fork()
                    b.conds.append((t, False))
                    nxt.extend(run(s.body, a, depth + 1, True))
                    nxt.extend(run(s.orelse, b, depth + 1, True))
                    continue
                if isinstance(s, ast.Assign) and len(s.targets) == 1:
                    tg = s.targets[0]
                    if isinstance(tg, ast.Name):
                        p.vars[tg.id] = _lit(s.value, p)
                    elif isinstance(tg, ast.Subscript) and isinstance(tg.value, ast.Name) and isinstance(p.vars.get(tg.value.id), dict):
                        key = tg.slice
                        k = key.value if isinstance(key, ast.Constant) else "$" + unparse(key)
                        p.vars[tg.value.id][k] = s.value
                        if in_cond:
                            p.cond_keys.setdefault(tg.value.id, set()).add(k)
                elif isinstance(s, (ast.FunctionDef,)):
                    p.vars[s.name] = s
                nxt.append(p)
            alive = nxt
        return alive

    run(fn.body, _Path(), 0, False)
    return results


def _resolve(e, path, depth=0):
    while isinstance(e, ast.Name) and e.id in path.vars and depth < 6:
        e = path.vars[e.id]
        depth += 1
    return e


def extract_variants(model, fname, bindings=None, _depth=0):
    """All Specifier variants the veneer function `fname` can return.
    bindings: {param: constant} known from a forwarding caller (e.g. axis='width')."""
    bindings = bindings or {}
    m = model.module(VENEER)
    fn = m.functions.get(fname)
    if fn is None:
        raise AnalysisError(f"specifier function veneer.{fname} not found")
    out = []
    for path, rv, rnode in enumerate_paths(fn):
        if rv is None:
            continue
        rv = _resolve(rv, path)
        if not isinstance(rv, ast.Call):
            continue
        cn = dotted(rv.func)
        if cn in SPEC_CTORS:
            args = list(rv.args)
            kws = {k.arg: k.value for k in rv.keywords if k.arg}
            name = args[0] if args else kws.get("name")
            pr = args[1] if len(args) > 1 else kws.get("priorities")
            val = args[2] if len(args) > 2 else kws.get("value")
            prv = pr.id if isinstance(pr, ast.Name) else None
            pr = _resolve(pr, path)
            pr = _lit(pr, path) if not isinstance(pr, dict) else pr
            if not isinstance(pr, dict):
                raise AnalysisError(f"shape not recognised: priorities of {fname}: {unparse(pr) if isinstance(pr, ast.AST) else pr}")
            condkeys = path.cond_keys.get(prv, set()) if prv else set()
            priorities = {}
            for k, v in pr.items():
                if not (isinstance(v, ast.Constant) and isinstance(v.value, int)):
                    raise AnalysisError(f"shape not recognised: priority of {k} in {fname}")
                key = k
                if isinstance(k, str) and k.startswith("$") and k[1:] in bindings:
                    key = bindings[k[1:]]
                priorities[key] = (v.value, k in condkeys)
            val = _resolve(val, path)
            deps, extra, helper, dict_value = set(), False, None, False
            if isinstance(val, ast.Call) and dotted(val.func) == "DelayedArgument":
                d = val.args[0]
                helper = _resolve(val.args[1], path) if len(val.args) > 1 else None
                parts = []

                def flat(x):
                    if isinstance(x, ast.BinOp) and isinstance(x.op, ast.BitOr):
                        flat(x.left)
                        flat(x.right)
                    else:
                        parts.append(x)

                flat(d)
                for part in parts:
                    part = _resolve(part, path)
                    lit = _lit(part, path) if not isinstance(part, set) else part
                    if isinstance(lit, set):
                        for x in lit:
                            if x.startswith("$") and x[1:] in bindings:
                                deps.add(bindings[x[1:]])
                            else:
                                deps.add(x)
                    else:
                        extra = True
            elif isinstance(val, dict) or isinstance(val, ast.Dict):
                dict_value = True
            elif isinstance(val, ast.Name):
                dict_value = True  # a plain value computed eagerly
            else:
                dict_value = True
            modifying = cn == "ModifyingSpecifier"
            modifiable = set()
            if modifying:
                mp = kws.get("modifiable_props") or (args[3] if len(args) > 3 else None)
                mp = _lit(_resolve(mp, path), path) if mp is not None else set()
                modifiable = mp if isinstance(mp, set) else set()
            nm = name.value if isinstance(name, ast.Constant) else (unparse(name) if name is not None else None)
            if isinstance(name, ast.Name) and name.id in bindings:
                nm = bindings[name.id]
            out.append(Variant(fname, list(path.conds), nm, priorities, deps, extra, modifying, modifiable, helper, rnode, dict_value))
        elif cn in m.functions and _depth < 3 and "." not in cn:
            # forwarding to another veneer function: bind constant arguments
            callee = m.functions[cn]
            params = [a.arg for a in callee.args.args]
            b = {}
            for p, a in zip(params, rv.args):
                if isinstance(a, ast.Constant):
                    b[p] = a.value
                elif isinstance(a, ast.Lambda):
                    b[p] = a
            for k in rv.keywords:
                if k.arg and isinstance(k.value, ast.Constant):
                    b[k.arg] = k.value.value
            for v in extract_variants(model, cn, b, _depth + 1):
                v.conds = list(path.conds) + v.conds
                v.func = fname
                v.via = cn
                v.bindings = b
                out.append(v)
    return out


def spec_function_names(model):
    """Veneer functions that (transitively) return a Specifier."""
    m = model.module(VENEER)
    direct = set()
    for name, fn in m.functions.items():
        if "." in name:
            continue
        for r in lib.returns_of(fn):
            if isinstance(r.value, ast.Call) and dotted(r.value.func) in SPEC_CTORS:
                direct.add(name)
    changed = True
    allf = set(direct)
    while changed:
        changed = False
        for name, fn in m.functions.items():
            if "." in name or name in allf:
                continue
            for r in lib.returns_of(fn):
                if isinstance(r.value, ast.Call) and dotted(r.value.func) in allf:
                    allf.add(name)
                    changed = True
    return sorted(allf)
