"""Rule kits about the Region class family, shared by C03, C04 and C16."""

import ast

from . import lib, samplable
from .model import AnalysisError, ClassInfo, ancestors, dotted, norm_text, parent, qualname_of, unparse, walk_local

RG = "scenic.core.regions"
WS = "scenic.core.workspaces"

BINARY_OPS = ("intersect", "intersects", "union")


def region_classes(model):
    base = model.cls(RG, "Region")
    out = [c for c in model.subclasses(base) if c.module.path.startswith("src/scenic/core/")]
    return base, out


# ----------------------------------------------------------------------
# dispatch hygiene


def check_dispatch(ctx, R):
    ctx.rule(
        R,
        "double dispatch: inside an override of intersect/union/intersects that takes `triedReversed`, every delegation to "
        "super().<same>(other, ...) / self.region.<same>(...) forwards the caller's triedReversed, and every reversed retry "
        "other.<same>(self, ...) passes triedReversed=True (otherwise two regions bounce the call between each other for ever)",
    )
    model = ctx.model
    base, classes = region_classes(model)
    extra = [model.cls(WS, "Workspace")] if model.has_module(WS) else []
    n = 0
    retries = []
    for ci in classes + extra:
        for m in BINARY_OPS:
            fn = ci.methods.get(m)
            if fn is None:
                continue
            params = [a.arg for a in fn.args.args]
            if len(params) < 2:
                continue
            if "triedReversed" not in params:
                continue  # reported by the override-signature rule
            other = params[1]
            for c in ast.walk(fn):
                if not (isinstance(c, ast.Call) and isinstance(c.func, ast.Attribute) and c.func.attr == m):
                    continue
                recv = unparse(c.func.value)
                given = lib.kw(c, "triedReversed") or (c.args[1] if len(c.args) > 1 and not isinstance(c.args[1], ast.Starred) else None)
                if recv == "super()" or (recv == "self.region" and c.args and unparse(c.args[0]) == other):
                    n += 1
                    if given is not None and isinstance(given, ast.Name) and given.id == "triedReversed":
                        ctx.ok(R, c, f"{ci.name}.{m}: delegation `{norm_text(c, 70)}` forwards triedReversed")
                    else:
                        ctx.finding(
                            R,
                            c,
                            f"{ci.name}.{m} delegation {norm_text(c, 80)}",
                            f"{ci.name}.{m}: `{unparse(c)}` does not forward `triedReversed`; the base then retries the reversed "
                            f"call although it already was the reversed call (unbounded mutual recursion for two such operands)",
                        )
                elif recv == other and c.args and unparse(c.args[0]) == "self":
                    n += 1
                    flagged = given is not None and isinstance(given, ast.Constant) and given.value is True
                    conj = []
                    for t_, p_ in lib.path_conditions(c, fn):
                        parts = t_.values if isinstance(t_, ast.BoolOp) and isinstance(t_.op, ast.And) and p_ else [t_]
                        conj.extend((unparse(x), p_) for x in parts)
                    retries.append((ci, m, c, flagged, conj))
    # an unflagged retry is safe only if the other operand cannot be of a class that also retries unflagged
    unflagged = {ci.name for ci, m, c, flagged, conj in retries if not flagged}
    for ci, m, c, flagged, conj in retries:
        oknot = any((t_ == "triedReversed" and not p_) or (t_ in ("not triedReversed", "triedReversed is False") and p_) for t_, p_ in conj)
        if not oknot:
            ctx.finding(
                R,
                c,
                f"{ci.name}.{m} unguarded reversed retry",
                f"{ci.name}.{m}: reversed retry `{unparse(c)}` is not guarded by `not triedReversed`",
            )
            continue
        if flagged:
            ctx.ok(R, c, f"{ci.name}.{m}: reversed retry passes triedReversed=True")
            continue
        other = [a.arg for a in ci.methods[m].args.args][1]
        excluded = set()
        for t_, p_ in conj:
            if p_ and t_.startswith(f"not isinstance({other}, "):
                inner = t_[len(f"not isinstance({other}, ") : -1].strip("()")
                excluded |= {x.strip() for x in inner.split(",") if x.strip()}
        if unflagged <= excluded:
            ctx.ok(R, c, f"{ci.name}.{m}: unflagged reversed retry `{unparse(c)}` excludes every class that also retries unflagged ({sorted(unflagged)})")
        else:
            ctx.finding(
                R,
                c,
                f"{ci.name}.{m} reversed retry {norm_text(c, 80)}",
                f"{ci.name}.{m}: reversed retry `{unparse(c)}` does not pass triedReversed=True and does not exclude operands of "
                f"{sorted(unflagged - excluded)}, which retry the same way: the two calls recurse for ever",
            )
    ctx.floor(R, n, 25, "delegations / reversed retries of intersect, union, intersects")


# ----------------------------------------------------------------------
# override signature agreement


def check_overrides(ctx, R, classes=None, base=None, skip=("__init__", "__new__", "__init_subclass__")):
    ctx.rule(
        R,
        "G2 sibling agreement: a method that overrides one defined higher in the Region hierarchy accepts every call the base signature "
        "accepts (no more required positionals than the base requires, at least as many positionals as the base takes, same keyword names)",
    )
    model = ctx.model
    if classes is None:
        base, classes = region_classes(model)
    n = 0
    for ci in classes:
        mro = model.mro(ci)
        for name, fn in ci.methods.items():
            if name in skip or (name.startswith("__") and name.endswith("__")):
                continue
            if any(dotted(d) in ("staticmethod", "classmethod") for d in fn.decorator_list):
                continue
            if any((dotted(d) or "").endswith((".setter", ".deleter")) for d in fn.decorator_list):
                continue
            above = None
            for c in mro[1:]:
                if name in c.methods:
                    above = c
                    break
            if above is None or not above.module.path.startswith("src/scenic/"):
                continue
            bfn = above.methods[name]
            if any(dotted(d) in ("staticmethod", "classmethod") for d in bfn.decorator_list):
                continue
            sb, so = lib.signature(bfn, True), lib.signature(fn, True)
            n += 1
            problems = []
            if len(so["required"]) > len(sb["required"]):
                # extra required parameters are a problem only if the base is ever called through with fewer
                problems.append(f"requires {so['required']} but the base `{above.name}.{name}` requires only {sb['required']}")
            if len(so["pos"]) < len(sb["pos"]) and not so["vararg"]:
                problems.append(f"takes positionals {so['pos']} but the base `{above.name}.{name}` takes {sb['pos']}")
            if problems:
                ctx.finding(
                    R,
                    fn,
                    f"{ci.name}.{name} signature",
                    f"{ci.name}.{name}{tuple(so['pos'])} cannot take the calls made through {above.name}.{name}{tuple(sb['pos'])}: " + "; ".join(problems),
                )
            else:
                ctx.ok(R, fn, f"{ci.name}.{name} accepts every call of {above.name}.{name}{tuple(sb['pos'])}")
    return n


# ----------------------------------------------------------------------
# G1 inside region methods


def check_names(ctx, R, classes=None, module_funcs=()):
    ctx.rule(
        R,
        "G1: in every method of every Region class, each name read resolves to a binding (scoped resolution incl. comprehension scopes) "
        "and each self.<attr> read exists somewhere in the class's MRO or subclasses",
    )
    model = ctx.model
    if classes is None:
        _, classes = region_classes(model)
    n = 0
    for ci in classes:
        for name, fn in ci.methods.items():
            n += 1
            bad = lib.unresolved_names(model, fn)
            for b in bad:
                ctx.finding(
                    R,
                    b,
                    f"{ci.name}.{name} name {b.id}",
                    f"{ci.name}.{name}: name `{b.id}` is bound in no scope (parameters are {[a.arg for a in fn.args.args]}); this path raises NameError",
                )
            bad2 = lib.unknown_self_attrs(model, ci, fn)
            for b in bad2:
                ctx.finding(
                    R,
                    b,
                    f"{ci.name}.{name} attribute self.{b.attr}",
                    f"{ci.name}.{name}: `self.{b.attr}` is defined nowhere in {ci.name}'s class hierarchy; this path raises AttributeError",
                )
            if not bad and not bad2:
                ctx.ok(R, fn, f"{ci.name}.{name}: all names and self attributes resolve")
    for fn in module_funcs:
        n += 1
        bad = lib.unresolved_names(model, fn)
        for b in bad:
            ctx.finding(R, b, f"{fn.name} name {b.id}", f"{fn.name}: name `{b.id}` is bound in no scope")
        if not bad:
            ctx.ok(R, fn, f"{fn.name}: all names resolve")
    return n


# ----------------------------------------------------------------------
# operand interface conformance


def region_interface(model):
    base = model.cls(RG, "Region")
    names = set(model.instance_attrs(base))
    for c in model.mro(base):
        names |= set(c.methods) | set(c.class_attrs)
    names |= {"__class__", "__dict__"}
    return names


OPERAND_PARAMS = {"other", "reg", "region", "regionA", "regionB"}


def check_operand_interface(ctx, R, classes=None, scope=None):
    ctx.rule(
        R,
        "operand interface: an attribute read on an operand that is only known to be some Region (a binary-operation parameter, an element "
        "of `.regions`) must exist on the Region base class or be dominated by an isinstance/hasattr narrowing; otherwise the operation "
        "fails for the operand kinds that lack it",
    )
    model = ctx.model
    iface = region_interface(model)
    if classes is None:
        _, classes = region_classes(model)
    n = 0
    for ci in classes:
        for mname, fn in ci.methods.items():
            for sub in [fn] + [x for x in ast.walk(fn) if isinstance(x, (ast.FunctionDef, ast.Lambda)) and x is not fn]:
                subname = getattr(sub, "name", None) if sub is not fn else None
                if scope is not None and not scope(mname, subname):
                    continue
                n += _operand_reads(ctx, R, ci, mname, fn, sub, iface)
    return n


def _operand_reads(ctx, R, ci, mname, top, fn, iface):
    model = ctx.model
    # region-typed variables of this function
    rvars = set()
    if fn is top and mname in ("intersect", "intersects", "union", "difference", "containsRegionInner", "containsRegion"):
        ps = [a.arg for a in fn.args.args[1:2]]
        rvars.update(ps)
    body = [fn.body] if isinstance(fn, ast.Lambda) else fn.body
    rlists = set()

    def is_rlist(e):
        if isinstance(e, ast.Attribute) and e.attr == "regions":
            return True
        if isinstance(e, ast.Name) and e.id in rlists:
            return True
        if isinstance(e, (ast.ListComp, ast.GeneratorExp)) and len(e.generators) == 1:
            g = e.generators[0]
            return is_rlist(g.iter) and isinstance(e.elt, ast.Name) and isinstance(g.target, ast.Name) and e.elt.id == g.target.id
        if isinstance(e, ast.Call) and dotted(e.func) in ("tuple", "list") and e.args:
            return is_rlist(e.args[0])
        if isinstance(e, ast.Subscript) and isinstance(e.slice, ast.Slice):
            return is_rlist(e.value)
        return False

    def local_nodes():
        if isinstance(fn, ast.Lambda):
            yield from ast.walk(fn.body)
        else:
            yield from walk_local(fn)

    for _ in range(3):
        for s in [None]:
            for n in local_nodes():
                if isinstance(n, ast.Assign) and len(n.targets) == 1 and isinstance(n.targets[0], ast.Name):
                    v = n.value
                    if isinstance(v, ast.Subscript) and not isinstance(v.slice, ast.Slice) and is_rlist(v.value):
                        rvars.add(n.targets[0].id)
                    elif is_rlist(v):
                        rlists.add(n.targets[0].id)
                elif isinstance(n, (ast.For, ast.comprehension)) and isinstance(n.target, ast.Name) and is_rlist(n.iter):
                    rvars.add(n.target.id)
    if not rvars:
        return 0
    count = 0
    for s in [None]:
        for n in local_nodes():
            if not (isinstance(n, ast.Attribute) and isinstance(n.ctx, ast.Load) and isinstance(n.value, ast.Name) and n.value.id in rvars):
                continue
            v = n.value.id
            count += 1
            if n.attr in iface or (n.attr.startswith("__") and n.attr.endswith("__")):
                continue
            if _narrowed(model, ci, n, v, top):
                ctx.ok(R, n, f"{ci.name}.{mname}: `{v}.{n.attr}` read under a type narrowing of `{v}`")
                continue
            ctx.finding(
                R,
                n,
                f"{ci.name}.{mname} operand {v}.{n.attr}",
                f"{ci.name}.{mname}: `{v}.{n.attr}` is read on an operand only known to be a Region, but Region does not define `{n.attr}` "
                f"and no isinstance/hasattr guard dominates the read; operands of other kinds raise AttributeError",
            )
    return count


def _narrowed(model, ci, node, var, top):
    """Is the read dominated by isinstance(var, T) / hasattr(var, attr) / a reassignment that converts var?"""
    attr = node.attr
    for test, pol in lib.guard_tests(node, None):
        t = unparse(test)
        if pol and (f"isinstance({var}," in t or f"hasattr({var}, '{attr}')" in t or f"type({var})" in t):
            return True
        if not pol and (f"not isinstance({var}," in t or f"not hasattr({var}, '{attr}')" in t):
            return True
    st = lib.statement_of(node)
    for test in lib.prior_exit_guards(st, top):
        t = unparse(test)
        if f"not isinstance({var}," in t or f"not hasattr({var}, '{attr}')" in t or f"type({var}) is not" in t or f"type({var}) !=" in t:
            return True
    # inside a boolean expression after an isinstance conjunct:  isinstance(o, T) and o.x
    p, child = parent(node), node
    while p is not None and not isinstance(p, ast.stmt):
        if isinstance(p, ast.BoolOp) and isinstance(p.op, ast.And):
            idx = next(i for i, v in enumerate(p.values) if any(x is child for x in ast.walk(v)))
            for left in p.values[:idx]:
                t = unparse(left)
                if f"isinstance({var}," in t or f"hasattr({var}, '{attr}')" in t:
                    return True
        if isinstance(p, ast.IfExp) and any(x is child for x in ast.walk(p.body)):
            t = unparse(p.test)
            if f"isinstance({var}," in t or f"hasattr({var}, '{attr}')" in t:
                return True
        child, p = p, parent(p)
    # try/except AttributeError
    for a in ancestors(node):
        if isinstance(a, ast.Try):
            for h in a.handlers:
                if h.type is None or "AttributeError" in unparse(h.type) or unparse(h.type) == "Exception":
                    if any(x is node for b in a.body for x in ast.walk(b)):
                        return True
    # the variable was re-bound before the read (e.g. other = toRegion(other))
    fn = lib.enclosing_function(node) if hasattr(lib, "enclosing_function") else None
    return False


# ----------------------------------------------------------------------
# z propagation


def planar_classes(model):
    base, classes = region_classes(model)
    out = []
    for ci in classes:
        found = model.find_method(ci, "__init__")
        if found is None:
            continue
        # has an instance field z assigned in an __init__ of its MRO
        hasz = False
        for c in model.mro(ci):
            f = c.methods.get("__init__")
            if f is None:
                continue
            for n in ast.walk(f):
                if isinstance(n, ast.Attribute) and isinstance(n.ctx, ast.Store) and n.attr == "z" and isinstance(n.value, ast.Name) and n.value.id == "self":
                    hasz = True
        if hasz:
            out.append(ci)
    return out


def check_z(ctx, R):
    ctx.rule(
        R,
        "planar regions keep their height: inside a method of a class with a `z` field, every construction of a region whose constructor "
        "takes `z` (directly or through a helper that builds one) passes z explicitly; and a point's z is compared with the region's z, "
        "never with a numeric literal",
    )
    model = ctx.model
    planar = planar_classes(model)
    ctx.floor(R, len(planar), 4, "planar region classes (with a z field)")
    planar_names = {c.name for c in planar}
    zctor = {}
    for ci in planar:
        found = model.find_method(ci, "__init__")
        sig = lib.signature(found[1], True)
        if "z" in sig["pos"] + sig["kwonly"]:
            zctor[ci.name] = found[1]
    # helpers: module-level functions that construct a z-constructor class
    m = model.module(RG)
    helpers = {}  # name -> (fn, has_z_param, builds_without_z)
    for name, fn in m.functions.items():
        if "." in name:
            continue
        builds = [c for c in ast.walk(fn) if isinstance(c, ast.Call) and isinstance(c.func, ast.Name) and c.func.id in zctor]
        if not builds:
            continue
        params = [a.arg for a in fn.args.args] + [a.arg for a in fn.args.kwonlyargs]
        without = [c for c in builds if lib.kw(c, "z") is None]
        helpers[name] = (fn, "z" in params, without)
    n = 0
    for ci in planar:
        for mname, fn in ci.methods.items():
            if mname in ("__init__", "__repr__", "__str__"):
                continue
            if any(dotted(d) in ("staticmethod",) for d in fn.decorator_list):
                continue
            for c in ast.walk(fn):
                if not (isinstance(c, ast.Call) and isinstance(c.func, ast.Name)):
                    continue
                cname = c.func.id
                if cname in zctor:
                    n += 1
                    sig = lib.signature(zctor[cname], True)
                    zi = sig["pos"].index("z") if "z" in sig["pos"] else None
                    has = lib.kw(c, "z") is not None or (zi is not None and len(c.args) > zi)
                    if has:
                        ctx.ok(R, c, f"{ci.name}.{mname}: `{cname}(...)` passes z")
                    else:
                        ctx.finding(
                            R,
                            c,
                            f"{ci.name}.{mname} builds {cname} without z",
                            f"{ci.name}.{mname}: `{norm_text(c, 90)}` builds a planar region without `z=`; the result lies at the default "
                            f"height 0 even when this region's z is not 0",
                        )
                elif cname in helpers:
                    n += 1
                    hfn, has_z, without = helpers[cname]
                    if has_z:
                        passed = lib.kw(c, "z") is not None or len(c.args) > [a.arg for a in hfn.args.args].index("z") if "z" in [a.arg for a in hfn.args.args] else lib.kw(c, "z") is not None
                        if passed and not without:
                            ctx.ok(R, c, f"{ci.name}.{mname}: `{cname}(...)` is given z and forwards it")
                        elif not passed:
                            ctx.finding(R, c, f"{ci.name}.{mname} calls {cname} without z", f"{ci.name}.{mname}: `{norm_text(c, 90)}` does not pass this region's z to `{cname}`; the result lies at height 0")
                        else:
                            ctx.finding(R, without[0], f"{cname} drops z", f"helper `{cname}` takes z but builds `{norm_text(without[0], 80)}` without it")
                    else:
                        ctx.finding(
                            R,
                            c,
                            f"{ci.name}.{mname} calls {cname} (no z)",
                            f"{ci.name}.{mname}: `{norm_text(c, 90)}` rebuilds the result through `{cname}`, which constructs "
                            f"`{norm_text(without[0], 70) if without else '?'}` without a height: the result of this set operation lies at z=0 whatever this region's z is",
                        )
            # z compared with a literal
            for cmp_ in ast.walk(fn):
                if isinstance(cmp_, ast.Compare) and len(cmp_.ops) == 1 and isinstance(cmp_.ops[0], (ast.Eq, ast.NotEq)):
                    sides = [cmp_.left, cmp_.comparators[0]]
                    zs = [s for s in sides if isinstance(s, ast.Attribute) and s.attr == "z" and not (isinstance(s.value, ast.Name) and s.value.id == "self")]
                    lits = [s for s in sides if isinstance(s, ast.Constant) and isinstance(s.value, (int, float)) and not isinstance(s.value, bool)]
                    if zs and lits:
                        n += 1
                        ctx.finding(
                            R,
                            cmp_,
                            f"{ci.name}.{mname} z literal {norm_text(cmp_)}",
                            f"{ci.name}.{mname}: `{unparse(cmp_)}` compares a point's height with the literal {lits[0].value} instead of this region's z",
                        )
                    elif zs and any(unparse(s) == "self.z" for s in sides):
                        n += 1
                        ctx.ok(R, cmp_, f"{ci.name}.{mname}: `{unparse(cmp_)}` compares heights with self.z")
    ctx.floor(R, n, 8, "planar constructions / height comparisons examined")


# ----------------------------------------------------------------------
# nearest-hit selection


def check_argmin(ctx, R, modules=(RG,)):
    ctx.rule(
        R,
        "nearest-hit selection: the argument of numpy.argmin/argmax must be a per-element quantity; numpy.linalg.norm of an array of row "
        "vectors without `axis` is a single scalar, so argmin of it always selects element 0 (the first hit, not the nearest)",
    )
    model = ctx.model
    n_good = 0
    for mn in modules:
        m = model.module(mn)
        for q, fn in m.functions.items():
            env = samplable.local_env(fn)
            for c in walk_local(fn):
                if isinstance(c, ast.Call) and dotted(c.func) in ("numpy.argmin", "numpy.argmax", "np.argmin", "np.argmax") and c.args:
                    a = samplable.resolve_expr(c.args[0], env)
                    if isinstance(a, ast.Call) and dotted(a.func) in ("numpy.linalg.norm", "np.linalg.norm"):
                        if lib.kw(a, "axis") is None and len(a.args) < 3:
                            ctx.finding(
                                R,
                                c,
                                f"argmin of scalar norm {norm_text(a, 60)}",
                                f"{q}: `{unparse(c)}` with `{unparse(c.args[0])} = {norm_text(a, 80)}`: the norm has no `axis`, so it is one scalar "
                                f"and argmin is always 0 -- the first intersection is returned, not the nearest",
                            )
                        else:
                            n_good += 1
                            ctx.ok(R, c, f"{q}: argmin over per-row norms (axis given)")
                    elif dotted(c.func).endswith("argmin") and isinstance(a, ast.BinOp) and isinstance(a.op, (ast.MatMult, ast.Sub, ast.Mult)) or (isinstance(a, ast.Call) and dotted(a.func) in ("numpy.dot", "np.dot", "numpy.inner")):
                        # nearest = smallest DISTANCE: a signed offset (projection on a direction, a difference) is smallest
                        # for the hit farthest on the negative side
                        ctx.finding(
                            R,
                            c,
                            f"argmin of signed quantity {norm_text(a, 60)}",
                            f"{q}: `{unparse(c)}` with `{unparse(c.args[0])} = {norm_text(a, 80)}`: the quantity is signed (an offset along a direction, not a distance), so argmin picks the hit "
                            f"farthest on the negative side instead of the nearest one",
                        )
                    else:
                        n_good += 1
                        ctx.ok(R, c, f"{q}: argmin over `{norm_text(a, 50)}` (not a whole-array norm)")
    return n_good


# ----------------------------------------------------------------------
# weighted choice: population and weights must be images of the same sequence


def _strip_seq(e):
    while isinstance(e, ast.Call) and dotted(e.func) in ("tuple", "list", "itertools.accumulate", "accumulate", "numpy.cumsum", "numpy.asarray", "numpy.array") and e.args:
        e = e.args[0]
    return e


def lineage(model, ci, fn, e, depth=0, seen=None):
    """(source text, (filters...), element expr or None) of a sequence-valued expression."""
    seen = seen or set()
    if depth > 8:
        return unparse(e), (), None
    e = _strip_seq(e)
    if isinstance(e, (ast.GeneratorExp, ast.ListComp)) and len(e.generators) == 1:
        g = e.generators[0]
        src, filt, _ = lineage(model, ci, fn, g.iter, depth + 1, seen)
        return src, filt + tuple(_canon(t, g.target) for t in g.ifs), (e.elt, g.target)
    if isinstance(e, ast.Name):
        key = ("n", id(fn), e.id)
        if key in seen:
            return e.id, (), None
        seen = seen | {key}
        r = _local_seq(model, ci, fn, e.id, depth, seen)
        if r is not None:
            return r
        return e.id, (), None
    if isinstance(e, ast.Attribute) and isinstance(e.value, ast.Name) and e.value.id == "self" and ci is not None:
        key = ("f", ci.fq, e.attr)
        if key in seen:
            return unparse(e), (), None
        seen = seen | {key}
        r = _field_seq(model, ci, e.attr, depth, seen)
        if r is not None:
            return r
        return unparse(e), (), None
    return unparse(e), (), None


def _canon(test, target):
    names = [n.id for n in ast.walk(target) if isinstance(n, ast.Name)]
    sub = {n: f"${i}" for i, n in enumerate(names)}
    return unparse(lib._Rename(sub).visit(ast.parse(unparse(test), mode="eval").body))


def _local_seq(model, ci, fn, name, depth, seen):
    assigns = []
    for n in walk_local(fn):
        if isinstance(n, ast.Assign):
            for t in n.targets:
                if isinstance(t, ast.Name) and t.id == name:
                    assigns.append((n, n.value))
                elif isinstance(t, ast.Tuple) and any(isinstance(x, ast.Name) and x.id == name for x in t.elts):
                    idx = [i for i, x in enumerate(t.elts) if isinstance(x, ast.Name) and x.id == name][0]
                    v = n.value
                    if isinstance(v, ast.Tuple) and len(v.elts) == len(t.elts):
                        assigns.append((n, v.elts[idx]))
                    elif isinstance(v, ast.Attribute) and isinstance(v.value, ast.Name) and v.value.id == "self" and ci is not None:
                        # a, b = self.<property returning a tuple>
                        found = model.find_method(ci, v.attr)
                        if found:
                            rets = [r for r in lib.returns_of(found[1]) if isinstance(r.value, ast.Tuple) and len(r.value.elts) == len(t.elts)]
                            if len(rets) == 1:
                                return lineage(model, found[0], found[1], rets[0].value.elts[idx], depth + 1, seen)
                        return None
    if not assigns:
        return None
    if len(assigns) == 1:
        st, v = assigns[0]
        if isinstance(v, (ast.List, ast.Tuple)) and not v.elts:
            return _appended(model, ci, fn, lambda c: isinstance(c.func.value, ast.Name) and c.func.value.id == name, depth, seen)
        return lineage(model, ci, fn, v, depth + 1, seen)
    return None


def _field_seq(model, ci, attr, depth, seen):
    # cached property?
    found = model.find_method(ci, attr)
    if found:
        rets = [r for r in lib.returns_of(found[1]) if r.value is not None]
        if len(rets) == 1:
            return lineage(model, found[0], found[1], rets[0].value, depth + 1, seen)
        return None
    for c in model.mro(ci):
        init = c.methods.get("__init__")
        if init is None:
            continue
        vals = []
        for n in walk_local(init):
            if isinstance(n, ast.Assign):
                for t in n.targets:
                    if isinstance(t, ast.Attribute) and isinstance(t.value, ast.Name) and t.value.id == "self" and t.attr == attr:
                        vals.append(n.value)
        if not vals:
            continue
        if len(vals) == 1:
            v = vals[0]
            if isinstance(v, (ast.List, ast.Tuple)) and not v.elts:
                return _appended(model, c, init, lambda call: unparse(call.func.value) == f"self.{attr}", depth, seen)
            return lineage(model, c, init, v, depth + 1, seen)
        return None
    return None


def _appended(model, ci, fn, is_target, depth, seen):
    apps = [
        c
        for c in ast.walk(fn)
        if isinstance(c, ast.Call) and isinstance(c.func, ast.Attribute) and c.func.attr == "append" and is_target(c)
    ]
    if len(apps) != 1:
        return None
    c = apps[0]
    loops = [a for a in ancestors(c) if isinstance(a, ast.For)]
    if not loops:
        return None
    lp = loops[0]  # innermost
    filt = []
    for t, pol in lib.guard_tests(c, lp):
        filt.append(("" if pol else "not ") + _canon(t, lp.target))
    for t in lib.prior_exit_guards(lib.statement_of(c), lp):
        filt.append("not " + _canon(t, lp.target))
    # a `continue` earlier in the loop body (at any depth) that is not a prior sibling guard
    for s in walk_local(lp):
        if isinstance(s, ast.Continue) and s.lineno < c.lineno:
            g = " and ".join(("" if p else "not ") + _canon(t, lp.target) for t, p in lib.guard_tests(s, lp))
            tag = f"not ({g})"
            if not any(tag == f or g in f for f in filt):
                filt.append(tag)
    outer = [l for l in loops[1:]]
    src, f2, _ = lineage(model, ci, fn, lp.iter, depth + 1, seen)
    if outer:
        src = " / ".join([src] + [unparse(o.iter) for o in outer])
    return src, f2 + tuple(filt), (c.args[0], lp.target)


MEASURE_ATTRS = {"area", "size", "length", "volume"}


def check_weighted_choices(ctx, R, modules):
    ctx.rule(
        R,
        "every random.choices(population, weights|cum_weights) draws from a population and a weight sequence that are images of the SAME "
        "source sequence under the same filters (lineage through comprehensions, accumulate, loop-built lists, constructor fields, cached "
        "properties), so piece i is weighted by piece i's own measure",
    )
    model = ctx.model
    n = 0
    for mn in modules:
        m = model.module(mn)
        for q, fn in m.functions.items():
            for c in walk_local(fn):
                if not (isinstance(c, ast.Call) and dotted(c.func) == "random.choices"):
                    continue
                cls_node = lib.enclosing_class(fn)
                ci = model.classes.get(f"{m.name}.{cls_node._qualname}") if cls_node is not None else None
                pop = c.args[0] if c.args else lib.kw(c, "population")
                w = lib.kw(c, "cum_weights") or lib.kw(c, "weights") or (c.args[1] if len(c.args) > 1 else None)
                if pop is None or w is None:
                    ctx.note(f"{q}: unweighted random.choices")
                    continue
                n += 1
                lp = lineage(model, ci, fn, pop)
                lw = lineage(model, ci, fn, w)
                if lp[0] == lw[0] and lp[1] == lw[1]:
                    ctx.ok(R, c, f"{q}: population and weights both derive from `{lp[0]}` with filters {list(lp[1])}")
                else:
                    ctx.finding(
                        R,
                        c,
                        f"{q} choices alignment",
                        f"{q}: `{norm_text(c, 90)}`: population derives from `{lp[0]}` (filters {list(lp[1])}) but the weights derive from "
                        f"`{lw[0]}` (filters {list(lw[1])}); pieces and weights can be misaligned, so pieces are drawn with another piece's measure",
                    )
    return n
